//! Certificates whose public key a P-256-only DTLS stack cannot use to verify a
//! ServerKeyExchange (C02: "proved possession of the corresponding private key").
//!
//! Real-world DER, byte for byte:
//! * `rsa2048.der`  - x509-parser 0.18.1 `assets/lets-encrypt-x3-cross-signed.der` (RSA-2048)
//! * `ed25519.der`  - x509-parser 0.18.1 `assets/ed25519.der`
//! * `p384.der`     - x509-parser 0.18.1 `assets/no_extensions.der` (ECDSA P-384)
//! * `secp256k1.der`- made once with `openssl ecparam -name secp256k1` / `openssl req -x509` (EC,
//!   65-byte point like P-256, other curve)
//! Hand-made from a rustrtc P-256 certificate by replacing its SubjectPublicKeyInfo (own DER
//! splice; the self-signature is left alone - nothing in WebRTC verifies it, the identity is the
//! SHA-256 of the DER): unknown algorithm OID around the untouched P-256 point, a P-256 SPKI whose
//! point is cut short, an SPKI filled with non-DER bytes.

use serde::{Deserialize, Serialize};

pub const RSA2048: &[u8] = include_bytes!("foreign_certs/rsa2048.der");
pub const ED25519: &[u8] = include_bytes!("foreign_certs/ed25519.der");
pub const P384: &[u8] = include_bytes!("foreign_certs/p384.der");
pub const SECP256K1: &[u8] = include_bytes!("foreign_certs/secp256k1.der");

#[derive(Clone, Copy, Debug, Default, PartialEq, Eq, Serialize, Deserialize)]
pub enum LeafKind {
    /// ECDSA P-256 certificate made by rustrtc (the only kind its handshake can authenticate)
    #[default]
    P256,
    Rsa2048,
    Ed25519,
    P384,
    Secp256k1,
    /// syntactically valid certificate, SPKI algorithm OID 1.3.6.1.4.1.99999.1.2
    UnknownOid,
    /// id-ecPublicKey / prime256v1 with a 21-byte "point"
    TruncatedSpki,
    /// SPKI SEQUENCE whose content is not DER
    GarbageSpki,
}

pub const FOREIGN: [LeafKind; 7] = [
    LeafKind::Rsa2048,
    LeafKind::Ed25519,
    LeafKind::P384,
    LeafKind::Secp256k1,
    LeafKind::UnknownOid,
    LeafKind::TruncatedSpki,
    LeafKind::GarbageSpki,
];

/// (tag, header length, content length) of the TLV at `o`
fn tlv(d: &[u8], o: usize) -> Option<(u8, usize, usize)> {
    let tag = *d.get(o)?;
    let l0 = *d.get(o + 1)? as usize;
    if l0 < 0x80 {
        return Some((tag, 2, l0));
    }
    let n = l0 & 0x7f;
    if n == 0 || n > 3 {
        return None;
    }
    let mut len = 0usize;
    for i in 0..n {
        len = (len << 8) | *d.get(o + 2 + i)? as usize;
    }
    Some((tag, 2 + n, len))
}

fn der(tag: u8, content: &[u8]) -> Vec<u8> {
    let mut v = vec![tag];
    let l = content.len();
    if l < 0x80 {
        v.push(l as u8);
    } else if l < 0x100 {
        v.extend_from_slice(&[0x81, l as u8]);
    } else {
        v.extend_from_slice(&[0x82, (l >> 8) as u8, l as u8]);
    }
    v.extend_from_slice(content);
    v
}

/// Replace the SubjectPublicKeyInfo of a certificate; returns None when `cert` does not have the
/// Certificate / TBSCertificate shape.
pub fn splice_spki(cert: &[u8], new_spki: &[u8]) -> Option<Vec<u8>> {
    let (t0, h0, l0) = tlv(cert, 0)?;
    if t0 != 0x30 || cert.len() < h0 + l0 {
        return None;
    }
    let (t1, h1, l1) = tlv(cert, h0)?;
    if t1 != 0x30 {
        return None;
    }
    let tbs_start = h0 + h1;
    let tbs_end = tbs_start + l1;
    // version [0]?, serial, signature, issuer, validity, subject, SPKI
    let mut o = tbs_start;
    let mut idx = 0;
    let spki_idx = if *cert.get(o)? == 0xA0 { 6 } else { 5 };
    while o < tbs_end {
        let (_t, h, l) = tlv(cert, o)?;
        if idx == spki_idx {
            let mut tbs = cert[tbs_start..o].to_vec();
            tbs.extend_from_slice(new_spki);
            tbs.extend_from_slice(&cert[o + h + l..tbs_end]);
            let mut outer = der(0x30, &tbs);
            outer.extend_from_slice(&cert[tbs_end..h0 + l0]);
            return Some(der(0x30, &outer));
        }
        o += h + l;
        idx += 1;
    }
    None
}

/// The P-256 point of a rustrtc-made certificate (BIT STRING 03 42 00 04 ..).
fn p256_point(cert: &[u8]) -> Option<&[u8]> {
    let pat = [0x03u8, 0x42, 0x00, 0x04];
    let i = cert.windows(4).position(|w| w == pat)?;
    cert.get(i + 3..i + 3 + 65)
}

/// The leaf of the given kind; `p256` is a rustrtc-made certificate used as the base of the
/// hand-made kinds (and returned as is for `LeafKind::P256`).
pub fn leaf(kind: LeafKind, p256: &[u8]) -> Vec<u8> {
    let ec_alg = |curve: &[u8]| {
        let mut a = vec![0x06, 0x07, 0x2a, 0x86, 0x48, 0xce, 0x3d, 0x02, 0x01];
        a.extend_from_slice(curve);
        der(0x30, &a)
    };
    let prime256v1 = [0x06u8, 0x08, 0x2a, 0x86, 0x48, 0xce, 0x3d, 0x03, 0x01, 0x07];
    let point = p256_point(p256).map(|p| p.to_vec()).unwrap_or_else(|| vec![4u8; 65]);
    let bitstring = |bytes: &[u8]| {
        let mut b = vec![0u8];
        b.extend_from_slice(bytes);
        der(0x03, &b)
    };
    let spliced = |spki: Vec<u8>| splice_spki(p256, &spki).unwrap_or_else(|| p256.to_vec());
    match kind {
        LeafKind::P256 => p256.to_vec(),
        LeafKind::Rsa2048 => RSA2048.to_vec(),
        LeafKind::Ed25519 => ED25519.to_vec(),
        LeafKind::P384 => P384.to_vec(),
        LeafKind::Secp256k1 => SECP256K1.to_vec(),
        LeafKind::UnknownOid => {
            // 1.3.6.1.4.1.99999.1.2, NULL parameters, the untouched P-256 point as key bits
            let mut alg = vec![0x06, 0x0a, 0x2b, 0x06, 0x01, 0x04, 0x01, 0x86, 0x8d, 0x1f, 0x01, 0x02, 0x05, 0x00];
            alg = der(0x30, &alg);
            alg.extend_from_slice(&bitstring(&point));
            spliced(der(0x30, &alg))
        }
        LeafKind::TruncatedSpki => {
            let mut c = ec_alg(&prime256v1);
            c.extend_from_slice(&bitstring(&point[..21]));
            spliced(der(0x30, &c))
        }
        LeafKind::GarbageSpki => spliced(der(0x30, &[0xFF; 40])),
    }
}

#[cfg(test)]
mod tests {
    use super::*;

    #[test]
    fn assets_and_splice_have_certificate_shape() {
        for c in [RSA2048, ED25519, P384, SECP256K1] {
            let (t, h, l) = tlv(c, 0).unwrap();
            assert_eq!((t, h + l), (0x30, c.len()));
        }
        // a minimal Certificate { tbs { [0], serial, alg, issuer, validity, subject, spki }, alg, sig }
        let tbs: Vec<u8> = [der(0xA0, &[2, 1, 2]), der(0x02, &[1]), der(0x30, &[]), der(0x30, &[]), der(0x30, &[]), der(0x30, &[]), der(0x30, &[1, 2, 3]), der(0xA3, &[9; 200])].concat();
        let cert = der(0x30, &[der(0x30, &tbs), der(0x30, &[]), der(0x03, &[0, 7])].concat());
        let new = splice_spki(&cert, &der(0x30, &[5; 150])).unwrap();
        let (t, h, l) = tlv(&new, 0).unwrap();
        assert_eq!((t, h + l), (0x30, new.len()));
        assert_eq!(new.len(), cert.len() + 150); // SPKI +148, TBS and outer length fields +1 each
        assert!(new.ends_with(&[0x03, 0x02, 0, 7]));
    }
}
