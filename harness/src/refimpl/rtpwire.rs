//! Harness-owned wire builders for RTP / RTCP, written from the RFC text
//! (RFC 3550 §5.1/§6, RFC 8285 §4.2/§4.3, RFC 4585 §6.2.1,
//! draft-holmer-rmcat-transport-wide-cc-extensions-01 §3.1). They share no
//! code with rustrtc or with the webrtc-rs reference crates; C15 uses them to
//! produce canonical wire encodings that neither marshaller would emit
//! (255-byte padding, padding bytes between extension elements, padded RTCP,
//! wrap-crossing NACK pairs, TWCC status chunks).

/// One RFC 8285 extension element.
#[derive(Clone, Debug, PartialEq, Eq)]
pub struct Elem {
    pub id: u8,
    pub data: Vec<u8>,
}

/// RFC 8285 §4.2 one-byte-header block. `gaps[i]` zero bytes are inserted before
/// element i (padding may appear between elements); the block is then padded to 32 bits.
pub fn one_byte_block(elems: &[Elem], gaps: &[u8]) -> Vec<u8> {
    let mut b = Vec::new();
    for (i, e) in elems.iter().enumerate() {
        for _ in 0..gaps.get(i).copied().unwrap_or(0) {
            b.push(0);
        }
        assert!((1..=14).contains(&e.id) && (1..=16).contains(&e.data.len()));
        b.push((e.id << 4) | (e.data.len() as u8 - 1));
        b.extend_from_slice(&e.data);
    }
    while b.len() % 4 != 0 {
        b.push(0);
    }
    b
}

/// RFC 8285 §4.3 two-byte-header block.
pub fn two_byte_block(elems: &[Elem], gaps: &[u8]) -> Vec<u8> {
    let mut b = Vec::new();
    for (i, e) in elems.iter().enumerate() {
        for _ in 0..gaps.get(i).copied().unwrap_or(0) {
            b.push(0);
        }
        assert!(e.id != 0 && e.data.len() <= 255);
        b.push(e.id);
        b.push(e.data.len() as u8);
        b.extend_from_slice(&e.data);
    }
    while b.len() % 4 != 0 {
        b.push(0);
    }
    b
}

pub struct RtpFields<'a> {
    pub marker: bool,
    pub pt: u8,
    pub seq: u16,
    pub ts: u32,
    pub ssrc: u32,
    pub csrcs: &'a [u32],
    /// (profile, 32-bit aligned block)
    pub ext: Option<(u16, &'a [u8])>,
    pub payload: &'a [u8],
    /// RFC 3550 §5.1: number of padding octets including the count octet itself.
    pub padding: u8,
    /// fill value of the padding octets before the count octet (content is "ignored")
    pub pad_fill: u8,
}

/// RFC 3550 §5.1 fixed header + CSRC list + RFC 3550 §5.3.1 extension + payload + padding.
pub fn rtp_packet(f: &RtpFields) -> Vec<u8> {
    assert!(f.csrcs.len() <= 15 && f.pt < 128);
    let mut b = Vec::new();
    let mut b0 = 2u8 << 6;
    if f.padding != 0 {
        b0 |= 0x20;
    }
    if f.ext.is_some() {
        b0 |= 0x10;
    }
    b0 |= f.csrcs.len() as u8;
    b.push(b0);
    b.push(((f.marker as u8) << 7) | f.pt);
    b.extend_from_slice(&f.seq.to_be_bytes());
    b.extend_from_slice(&f.ts.to_be_bytes());
    b.extend_from_slice(&f.ssrc.to_be_bytes());
    for c in f.csrcs {
        b.extend_from_slice(&c.to_be_bytes());
    }
    if let Some((profile, block)) = f.ext {
        assert!(block.len() % 4 == 0 && block.len() / 4 <= 0xFFFF);
        b.extend_from_slice(&profile.to_be_bytes());
        b.extend_from_slice(&((block.len() / 4) as u16).to_be_bytes());
        b.extend_from_slice(block);
    }
    b.extend_from_slice(f.payload);
    if f.padding != 0 {
        for _ in 0..(f.padding - 1) {
            b.push(f.pad_fill);
        }
        b.push(f.padding);
    }
    b
}

/// RFC 4585 §6.2.1: pack a set of lost sequence numbers into (PID, BLP) pairs,
/// walking the set circularly from the element that follows the largest
/// circular gap, so that a run such as {65534, 65535, 0, 1} becomes ONE pair
/// whose bitmask crosses the wrap.
pub fn nack_pairs_circular(lost: &[u16]) -> Vec<(u16, u16)> {
    let mut s: Vec<u16> = lost.to_vec();
    s.sort_unstable();
    s.dedup();
    if s.is_empty() {
        return Vec::new();
    }
    // find start: element after the largest circular gap
    let n = s.len();
    let mut best = 0usize;
    let mut best_gap = 0u32;
    for i in 0..n {
        let prev = s[(i + n - 1) % n];
        let gap = if n == 1 { 65536 } else { s[i].wrapping_sub(prev) as u32 };
        if gap > best_gap {
            best_gap = gap;
            best = i;
        }
    }
    let order: Vec<u16> = (0..n).map(|k| s[(best + k) % n]).collect();
    let mut pairs = Vec::new();
    let mut i = 0;
    while i < n {
        let pid = order[i];
        let mut blp = 0u16;
        i += 1;
        while i < n {
            let d = order[i].wrapping_sub(pid);
            if d == 0 || d > 16 {
                break;
            }
            blp |= 1 << (d - 1);
            i += 1;
        }
        pairs.push((pid, blp));
    }
    pairs
}

/// Expand (PID, BLP) pairs into the set they denote (RFC 4585 §6.2.1), sorted.
pub fn nack_expand(pairs: &[(u16, u16)]) -> Vec<u16> {
    let mut out = Vec::new();
    for &(pid, blp) in pairs {
        out.push(pid);
        for bit in 0..16u16 {
            if blp & (1 << bit) != 0 {
                out.push(pid.wrapping_add(bit + 1));
            }
        }
    }
    out.sort_unstable();
    out.dedup();
    out
}

/// Transport-wide CC packet status symbol.
#[derive(Clone, Copy, Debug, PartialEq, Eq)]
pub enum TwccSym {
    NotReceived,
    /// delta in 250 us ticks, 0..=255
    Small(u8),
    /// delta in 250 us ticks, signed 16 bit
    Large(i16),
}

impl TwccSym {
    pub fn code(self) -> u16 {
        match self {
            TwccSym::NotReceived => 0,
            TwccSym::Small(_) => 1,
            TwccSym::Large(_) => 2,
        }
    }
}

#[derive(Clone, Copy, Debug, PartialEq, Eq)]
pub enum TwccChunking {
    RunLength,
    TwoBitVector,
    /// falls back to TwoBitVector when a Large symbol is present
    OneBitVector,
}

/// Encoded status chunks as (is_vector, two_bit, symbols-or-run) for building the reference struct too.
#[derive(Clone, Debug, PartialEq, Eq)]
pub enum TwccChunk {
    Run { code: u16, len: u16 },
    Vector { two_bit: bool, codes: Vec<u16> },
}

pub fn twcc_chunks(syms: &[TwccSym], mode: TwccChunking) -> Vec<TwccChunk> {
    let has_large = syms.iter().any(|s| matches!(s, TwccSym::Large(_)));
    let mode = if mode == TwccChunking::OneBitVector && has_large {
        TwccChunking::TwoBitVector
    } else {
        mode
    };
    let mut out = Vec::new();
    match mode {
        TwccChunking::RunLength => {
            let mut i = 0;
            while i < syms.len() {
                let c = syms[i].code();
                let mut n = 1usize;
                while i + n < syms.len() && syms[i + n].code() == c && n < 8191 {
                    n += 1;
                }
                out.push(TwccChunk::Run { code: c, len: n as u16 });
                i += n;
            }
        }
        TwccChunking::TwoBitVector | TwccChunking::OneBitVector => {
            let two_bit = mode == TwccChunking::TwoBitVector;
            let per = if two_bit { 7 } else { 14 };
            for ch in syms.chunks(per) {
                let mut codes: Vec<u16> = ch.iter().map(|s| s.code()).collect();
                codes.resize(per, 0);
                out.push(TwccChunk::Vector { two_bit, codes });
            }
        }
    }
    out
}

/// Bytes after the 16-byte TWCC FCI header: status chunks then receive deltas (no padding).
pub fn twcc_tail(syms: &[TwccSym], mode: TwccChunking) -> Vec<u8> {
    let mut b = Vec::new();
    for ch in twcc_chunks(syms, mode) {
        let w: u16 = match ch {
            TwccChunk::Run { code, len } => (code << 13) | (len & 0x1FFF),
            TwccChunk::Vector { two_bit, codes } => {
                let mut w = 0x8000u16;
                if two_bit {
                    w |= 0x4000;
                    for (i, c) in codes.iter().enumerate() {
                        w |= (c & 3) << (12 - 2 * i);
                    }
                } else {
                    for (i, c) in codes.iter().enumerate() {
                        w |= (c & 1) << (13 - i);
                    }
                }
                w
            }
        };
        b.extend_from_slice(&w.to_be_bytes());
    }
    for s in syms {
        match *s {
            TwccSym::NotReceived => {}
            TwccSym::Small(d) => b.push(d),
            TwccSym::Large(d) => b.extend_from_slice(&d.to_be_bytes()),
        }
    }
    b
}

/// Split a compound RTCP datagram into its packets using the common-header length field (RFC 3550 §6.4.1).
pub fn rtcp_split(raw: &[u8]) -> Option<Vec<&[u8]>> {
    let mut out = Vec::new();
    let mut off = 0;
    while off < raw.len() {
        if off + 4 > raw.len() {
            return None;
        }
        let words = u16::from_be_bytes([raw[off + 2], raw[off + 3]]) as usize;
        let len = (words + 1) * 4;
        if off + len > raw.len() {
            return None;
        }
        out.push(&raw[off..off + len]);
        off += len;
    }
    Some(out)
}

/// Append `pad` (multiple of 4, 4..=252) padding octets to ONE RTCP packet: set P, fix length,
/// last octet = count (RFC 3550 §6.4.1). Returns None when the packet already has P set.
pub fn rtcp_add_padding(pkt: &[u8], pad: u8) -> Option<Vec<u8>> {
    assert!(pad % 4 == 0 && pad >= 4);
    if pkt[0] & 0x20 != 0 {
        return None;
    }
    let mut b = pkt.to_vec();
    b[0] |= 0x20;
    for _ in 0..(pad - 1) {
        b.push(0);
    }
    b.push(pad);
    let words = (b.len() / 4 - 1) as u16;
    b[2..4].copy_from_slice(&words.to_be_bytes());
    Some(b)
}

/// A packet of a type rustrtc does not model (APP=204 or XR=207) with an opaque 32-bit aligned body.
pub fn rtcp_unmodelled(pt: u8, ssrc: u32, words: u8) -> Vec<u8> {
    let mut b = vec![0x80, pt, 0, 0];
    b.extend_from_slice(&ssrc.to_be_bytes());
    if pt == 204 {
        b.extend_from_slice(b"TEST");
        for i in 0..words {
            b.extend_from_slice(&[i, 0, 0, 0]);
        }
    } else {
        // XR: one block of an unassigned block type (BT=200), block length = words
        b.push(200);
        b.push(0);
        b.extend_from_slice(&(words as u16).to_be_bytes());
        for i in 0..words {
            b.extend_from_slice(&[0, 0, 0, i]);
        }
    }
    let w = (b.len() / 4 - 1) as u16;
    b[2..4].copy_from_slice(&w.to_be_bytes());
    b
}
