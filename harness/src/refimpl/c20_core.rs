//! C20 shared script model and executor.
//!
//! This file is compiled twice: as `crate::refimpl::c20_core` inside the harness (native engine,
//! run in child processes) and, via `#[path]`/copy, inside the tiny Miri crate. It therefore only
//! depends on `std`, `bytes` and `rustrtc`.
//!
//! A `Script` describes 1..4 producer threads (each on its own `clone()` of the source or on an
//! `Arc`-shared one), one consumer, `stop()` / `drop(source)` points and pacing. `execute` runs it
//! once on real OS threads (or Miri's scheduler) and checks the C20 oracle.

use bytes::Bytes;
use rustrtc::media::error::MediaError;
use rustrtc::media::frame::{AudioFrame, MediaKind, MediaSample, VideoFrame, VideoPixelFormat};
use rustrtc::media::track::{MediaStreamTrack, SampleStreamSource, SampleStreamTrack, sample_track};
use std::sync::atomic::{AtomicBool, AtomicU8, AtomicUsize, Ordering::SeqCst};
use std::sync::{Arc, Barrier, Mutex};
use std::task::{Context, Poll, Wake, Waker};

// ---------------------------------------------------------------------------------------------
// script model + text codec
// ---------------------------------------------------------------------------------------------

#[derive(Clone, Copy, Debug, PartialEq, Eq)]
pub enum POp {
    Send,
    TrySend,
    SendMany(u8),
    Yield,
    Spin(u16),
    SleepUs(u16),
    /// `SampleStreamTrack::stop()` called from this producer thread.
    Stop,
    /// drop this producer's source handle; later push ops are skipped.
    DropSrc,
}

#[derive(Clone, Copy, Debug, PartialEq, Eq)]
pub enum COp {
    Recv,
    Yield,
    Spin(u16),
    SleepUs(u16),
}

#[derive(Clone, Debug, PartialEq, Eq)]
pub struct Prod {
    /// true: `Arc<SampleStreamSource>` shared with the other `shared` producers; false: own clone.
    pub shared: bool,
    pub ops: Vec<POp>,
}

#[derive(Clone, Debug, PartialEq, Eq)]
pub struct Script {
    pub cap: usize,
    pub video: bool,
    /// main drops its own handles before the producers start (else after they finished).
    pub early: bool,
    /// harness-side lock around every push call (producers never push concurrently).
    pub ser: bool,
    pub salt: u32,
    pub producers: Vec<Prod>,
    /// consumer pacing, cycled until end-of-stream; contains at least one `Recv`.
    pub pace: Vec<COp>,
    /// consumer calls `stop()` after this many received samples.
    pub stop_after: Option<u16>,
}

impl Script {
    pub fn to_text(&self) -> String {
        let mut s = format!(
            "cap={} kind={} early={} ser={} salt={}",
            self.cap,
            if self.video { "v" } else { "a" },
            self.early as u8,
            self.ser as u8,
            self.salt
        );
        for p in &self.producers {
            s.push_str(if p.shared { ";Pa:" } else { ";Pc:" });
            let ops: Vec<String> = p
                .ops
                .iter()
                .map(|o| match o {
                    POp::Send => "s".to_string(),
                    POp::TrySend => "t".to_string(),
                    POp::SendMany(k) => format!("m{k}"),
                    POp::Yield => "y".to_string(),
                    POp::Spin(n) => format!("p{n}"),
                    POp::SleepUs(n) => format!("z{n}"),
                    POp::Stop => "X".to_string(),
                    POp::DropSrc => "d".to_string(),
                })
                .collect();
            s.push_str(&ops.join(","));
        }
        s.push_str(";C");
        match self.stop_after {
            Some(n) => s.push_str(&n.to_string()),
            None => s.push('-'),
        }
        s.push(':');
        let ops: Vec<String> = self
            .pace
            .iter()
            .map(|o| match o {
                COp::Recv => "r".to_string(),
                COp::Yield => "y".to_string(),
                COp::Spin(n) => format!("p{n}"),
                COp::SleepUs(n) => format!("z{n}"),
            })
            .collect();
        s.push_str(&ops.join(","));
        s
    }

    pub fn from_text(t: &str) -> Result<Script, String> {
        let mut parts = t.trim().split(';');
        let head = parts.next().ok_or("empty script")?;
        let mut sc = Script {
            cap: 1,
            video: false,
            early: false,
            ser: false,
            salt: 0,
            producers: Vec::new(),
            pace: Vec::new(),
            stop_after: None,
        };
        for kv in head.split_whitespace() {
            let (k, v) = kv.split_once('=').ok_or_else(|| format!("bad header item {kv}"))?;
            match k {
                "cap" => sc.cap = v.parse().map_err(|_| "bad cap")?,
                "kind" => sc.video = v == "v",
                "early" => sc.early = v == "1",
                "ser" => sc.ser = v == "1",
                "salt" => sc.salt = v.parse().map_err(|_| "bad salt")?,
                _ => return Err(format!("unknown header key {k}")),
            }
        }
        if sc.cap == 0 || sc.cap > 4096 {
            return Err("capacity out of range".into());
        }
        let num = |s: &str| -> Result<u16, String> { s.parse::<u16>().map_err(|_| format!("bad number {s}")) };
        let mut have_c = false;
        for sec in parts {
            let (tag, body) = sec.split_once(':').ok_or_else(|| format!("bad section {sec}"))?;
            let items: Vec<&str> = body.split(',').filter(|x| !x.is_empty()).collect();
            if let Some(rest) = tag.strip_prefix('P') {
                let mut ops = Vec::new();
                for it in items {
                    let (c, n) = it.split_at(1);
                    ops.push(match c {
                        "s" => POp::Send,
                        "t" => POp::TrySend,
                        "m" => POp::SendMany(num(n)?.min(255) as u8),
                        "y" => POp::Yield,
                        "p" => POp::Spin(num(n)?),
                        "z" => POp::SleepUs(num(n)?),
                        "X" => POp::Stop,
                        "d" => POp::DropSrc,
                        _ => return Err(format!("bad producer op {it}")),
                    });
                }
                sc.producers.push(Prod { shared: rest == "a", ops });
            } else if let Some(rest) = tag.strip_prefix('C') {
                have_c = true;
                sc.stop_after = if rest == "-" { None } else { Some(num(rest)?) };
                for it in items {
                    let (c, n) = it.split_at(1);
                    sc.pace.push(match c {
                        "r" => COp::Recv,
                        "y" => COp::Yield,
                        "p" => COp::Spin(num(n)?),
                        "z" => COp::SleepUs(num(n)?),
                        _ => return Err(format!("bad consumer op {it}")),
                    });
                }
            } else {
                return Err(format!("bad section tag {tag}"));
            }
        }
        if !have_c || !sc.pace.contains(&COp::Recv) {
            sc.pace.insert(0, COp::Recv);
        }
        if sc.producers.is_empty() || sc.producers.len() > 8 {
            return Err("need 1..8 producers".into());
        }
        Ok(sc)
    }

    /// number of samples producer `p` creates (pushes attempted before its DropSrc).
    pub fn pushes_of(&self, p: usize) -> usize {
        let mut n = 0usize;
        for o in &self.producers[p].ops {
            match o {
                POp::Send | POp::TrySend => n += 1,
                POp::SendMany(k) => n += *k as usize,
                POp::DropSrc => break,
                _ => {}
            }
        }
        n
    }

    pub fn pushing_producers(&self) -> usize {
        (0..self.producers.len()).filter(|p| self.pushes_of(*p) > 0).count()
    }

    /// two or more threads may be inside push at the same time
    pub fn concurrent_producers(&self) -> bool {
        !self.ser && self.pushing_producers() >= 2
    }

    pub fn has_stop(&self) -> bool {
        self.stop_after.is_some() || self.producers.iter().any(|p| p.ops.contains(&POp::Stop))
    }
}

// ---------------------------------------------------------------------------------------------
// payloads and the drop ledger
// ---------------------------------------------------------------------------------------------

fn mix(mut x: u64) -> u64 {
    x = x.wrapping_add(0x9E37_79B9_7F4A_7C15);
    x = (x ^ (x >> 30)).wrapping_mul(0xBF58_476D_1CE4_E5B9);
    x = (x ^ (x >> 27)).wrapping_mul(0x94D0_49BB_1331_11EB);
    x ^ (x >> 31)
}

fn fnv32(b: &[u8]) -> u32 {
    let mut h: u32 = 0x811c_9dc5;
    for x in b {
        h ^= *x as u32;
        h = h.wrapping_mul(0x0100_0193);
    }
    h
}

/// 32..=256 bytes: [pid u8][counter u32 le][len u16 le][pattern ...][fnv32 of all before, le]
pub fn payload_bytes(salt: u32, pid: u8, ctr: u32) -> Vec<u8> {
    let key = ((salt as u64) << 40) ^ ((pid as u64) << 32) ^ ctr as u64;
    let len = 32 + (mix(key) % 225) as usize;
    let mut v = Vec::with_capacity(len);
    v.push(pid);
    v.extend_from_slice(&ctr.to_le_bytes());
    v.extend_from_slice(&(len as u16).to_le_bytes());
    let mut st = mix(key ^ 0xA5A5_5A5A);
    while v.len() < len - 4 {
        st = st.wrapping_mul(6364136223846793005).wrapping_add(1442695040888963407);
        v.push((st >> 33) as u8);
    }
    let c = fnv32(&v);
    v.extend_from_slice(&c.to_le_bytes());
    v
}

pub struct Ledger {
    created: Vec<AtomicU8>,
    freed: Vec<AtomicU8>,
}

impl Ledger {
    pub fn new(n: usize) -> Arc<Self> {
        Arc::new(Self {
            created: (0..n).map(|_| AtomicU8::new(0)).collect(),
            freed: (0..n).map(|_| AtomicU8::new(0)).collect(),
        })
    }
    /// (created, freed exactly once, never freed, freed more than once)
    pub fn balance(&self) -> (usize, usize, Vec<usize>, Vec<usize>) {
        let mut created = 0;
        let mut once = 0;
        let mut leaked = Vec::new();
        let mut dbl = Vec::new();
        for i in 0..self.created.len() {
            let c = self.created[i].load(SeqCst);
            let f = self.freed[i].load(SeqCst);
            if c == 0 && f == 0 {
                continue;
            }
            created += 1;
            if f == 1 && c == 1 {
                once += 1;
            } else if f == 0 {
                leaked.push(i);
            } else {
                dbl.push(i);
            }
        }
        (created, once, leaked, dbl)
    }
}

struct Tracked {
    buf: Vec<u8>,
    led: Arc<Ledger>,
    slot: usize,
}

impl AsRef<[u8]> for Tracked {
    fn as_ref(&self) -> &[u8] {
        &self.buf
    }
}

impl Drop for Tracked {
    fn drop(&mut self) {
        self.led.freed[self.slot].fetch_add(1, SeqCst);
    }
}

fn frame(video: bool, salt: u32, pid: u8, ctr: u32, data: Bytes) -> MediaSample {
    if video {
        MediaSample::Video(VideoFrame {
            rtp_timestamp: ctr,
            width: 100 + pid as u16,
            height: (ctr & 0xffff) as u16,
            format: VideoPixelFormat::Rgba,
            rotation_deg: 90,
            is_last_packet: ctr & 1 == 1,
            data,
            header_extension: None,
            csrcs: vec![pid as u32, ctr, salt],
            sequence_number: Some(ctr as u16),
            payload_type: Some(96 + pid),
            source_addr: None,
            raw_packet: None,
        })
    } else {
        MediaSample::Audio(AudioFrame {
            rtp_timestamp: ctr,
            clock_rate: 8000 + pid as u32,
            data,
            sequence_number: Some(ctr as u16),
            payload_type: Some(96 + pid),
            marker: ctr & 1 == 1,
            header_extension: None,
            source_addr: None,
            raw_packet: None,
        })
    }
}

/// The sample producer `pid` pushes as its `ctr`-th; its payload buffer is tracked by `led`.
pub fn make_sample(video: bool, salt: u32, pid: u8, ctr: u32, led: &Arc<Ledger>, slot: usize) -> MediaSample {
    led.created[slot].fetch_add(1, SeqCst);
    let owner = Tracked {
        buf: payload_bytes(salt, pid, ctr),
        led: led.clone(),
        slot,
    };
    frame(video, salt, pid, ctr, Bytes::from_owner(owner))
}

/// Check a received sample: self-consistent (length + checksum) and bit-identical to the sample
/// `(pid, ctr)` it claims to be. Returns the claimed identity.
pub fn verify_sample(video: bool, salt: u32, s: &MediaSample) -> Result<(u8, u32), String> {
    let data: &Bytes = match s {
        MediaSample::Audio(a) => &a.data,
        MediaSample::Video(v) => &v.data,
    };
    if data.len() < 32 || data.len() > 256 {
        return Err(format!("payload length {} outside 32..=256", data.len()));
    }
    let pid = data[0];
    let ctr = u32::from_le_bytes([data[1], data[2], data[3], data[4]]);
    let len = u16::from_le_bytes([data[5], data[6]]) as usize;
    if len != data.len() {
        return Err(format!("embedded length {} != payload length {} (pid {pid} ctr {ctr})", len, data.len()));
    }
    let c = u32::from_le_bytes([data[len - 4], data[len - 3], data[len - 2], data[len - 1]]);
    if c != fnv32(&data[..len - 4]) {
        return Err(format!("payload checksum mismatch (claims pid {pid} ctr {ctr})"));
    }
    let expect = frame(video, salt, pid, ctr, Bytes::from(payload_bytes(salt, pid, ctr)));
    if &expect != s {
        return Err(format!("sample (pid {pid} ctr {ctr}) differs from what was pushed: got {:?}", brief(s)));
    }
    Ok((pid, ctr))
}

fn brief(s: &MediaSample) -> String {
    match s {
        MediaSample::Audio(a) => format!(
            "Audio ts={} rate={} seq={:?} pt={:?} m={} len={} ext={} addr={} raw={}",
            a.rtp_timestamp,
            a.clock_rate,
            a.sequence_number,
            a.payload_type,
            a.marker,
            a.data.len(),
            a.header_extension.is_some(),
            a.source_addr.is_some(),
            a.raw_packet.is_some()
        ),
        MediaSample::Video(v) => format!(
            "Video ts={} {}x{} rot={} last={} csrcs={:?} seq={:?} pt={:?} len={}",
            v.rtp_timestamp,
            v.width,
            v.height,
            v.rotation_deg,
            v.is_last_packet,
            v.csrcs,
            v.sequence_number,
            v.payload_type,
            v.data.len()
        ),
    }
}

// ---------------------------------------------------------------------------------------------
// executor
// ---------------------------------------------------------------------------------------------

#[derive(Clone, Copy, Debug, PartialEq, Eq)]
pub enum PushRes {
    Ok,
    WouldBlock,
    /// any other error (Closed, ...) - the sample was not queued
    Rejected,
}

#[derive(Clone, Debug, Default)]
pub struct Stats {
    pub created: usize,
    pub accepted: usize,
    pub would_block: usize,
    pub received: usize,
    /// recv() returned Pending at least once (consumer really waited on an empty queue)
    pub waits: usize,
    pub stop_executed: bool,
    /// stop() ran while at least one producer still had ops to execute
    pub stop_mid: bool,
    /// a producer dropped its handle while another producer was still running
    pub drop_mid: bool,
    /// accepted samples never received although the track was not stopped (= dropped by overflow)
    pub overflow_lost: usize,
    /// samples still queued when the track was torn down after stop()
    pub left_at_teardown: usize,
}

#[derive(Clone, Debug)]
pub struct Outcome {
    /// every oracle failure of this execution as (signature, message), most specific first
    pub fails: Vec<(String, String)>,
    pub stats: Stats,
}

enum Handle {
    Own(SampleStreamSource),
    Shared(Arc<SampleStreamSource>),
}

impl Handle {
    fn src(&self) -> &SampleStreamSource {
        match self {
            Handle::Own(s) => s,
            Handle::Shared(a) => a,
        }
    }
}

struct ThreadWaker {
    woken: AtomicBool,
    thread: std::thread::Thread,
}

impl Wake for ThreadWaker {
    fn wake(self: Arc<Self>) {
        self.wake_by_ref()
    }
    fn wake_by_ref(self: &Arc<Self>) {
        self.woken.store(true, SeqCst);
        self.thread.unpark();
    }
}

enum RecvOut {
    Sample(MediaSample),
    Err(MediaError),
    /// Pending, never woken, and no thread that could wake it exists any more.
    Stuck,
}

/// Drive one `recv()` to completion on this thread. `all_done` is set by the main thread once
/// every producer has been joined and every source handle dropped; after that nobody can call
/// `notify_*`, so a future that is still Pending without having been woken is stuck for good
/// (decided without any timeout).
fn drive_recv(track: &SampleStreamTrack, w: &Arc<ThreadWaker>, all_done: &AtomicBool, waits: &mut usize) -> RecvOut {
    let waker = Waker::from(w.clone());
    let mut cx = Context::from_waker(&waker);
    let mut fut = track.recv();
    let mut counted = false;
    loop {
        w.woken.store(false, SeqCst);
        match fut.as_mut().poll(&mut cx) {
            Poll::Ready(Ok(s)) => return RecvOut::Sample(s),
            Poll::Ready(Err(e)) => return RecvOut::Err(e),
            Poll::Pending => {
                if !counted {
                    counted = true;
                    *waits += 1;
                }
                loop {
                    if w.woken.load(SeqCst) {
                        break;
                    }
                    if all_done.load(SeqCst) {
                        // every wake-up that will ever happen has happened
                        if w.woken.load(SeqCst) {
                            break;
                        }
                        // a spurious poll cannot hurt; if it is still pending it stays pending
                        match fut.as_mut().poll(&mut cx) {
                            Poll::Ready(Ok(s)) => return RecvOut::Sample(s),
                            Poll::Ready(Err(e)) => return RecvOut::Err(e),
                            Poll::Pending => {
                                if w.woken.load(SeqCst) {
                                    break;
                                }
                                return RecvOut::Stuck;
                            }
                        }
                    }
                    std::thread::park();
                }
            }
        }
    }
}

fn spin(n: u16) {
    for _ in 0..n {
        std::hint::spin_loop();
    }
}

fn sleep_us(n: u16) {
    std::thread::sleep(std::time::Duration::from_micros(n as u64));
}

struct ProdLog {
    results: Vec<PushRes>,
    bad: Option<(String, String)>,
}

struct ConsLog {
    recv: Vec<(u8, u32)>,
    fail: Option<(String, String)>,
    stuck: bool,
    waits: usize,
}

struct Shared {
    led: Arc<Ledger>,
    offsets: Vec<usize>,
    ser: Option<Mutex<()>>,
    stop_executed: AtomicBool,
    stop_mid: AtomicBool,
    drop_mid: AtomicBool,
    producers_running: AtomicUsize,
    all_done: AtomicBool,
}

fn do_stop(track: &SampleStreamTrack, sh: &Shared, from_producer: bool) {
    let running = sh.producers_running.load(SeqCst);
    if running > if from_producer { 1 } else { 0 } {
        sh.stop_mid.store(true, SeqCst);
    }
    sh.stop_executed.store(true, SeqCst);
    track.stop();
}

fn run_producer(sc: &Script, pid: usize, handle: Handle, track: Arc<SampleStreamTrack>, sh: &Shared) -> ProdLog {
    let mut log = ProdLog {
        results: Vec::new(),
        bad: None,
    };
    let mut handle = Some(handle);
    let mut ctr: u32 = 0;
    let ops = &sc.producers[pid].ops;
    let mk = |c: u32| make_sample(sc.video, sc.salt, pid as u8, c, &sh.led, sh.offsets[pid] + c as usize);
    for (i, op) in ops.iter().enumerate() {
        match *op {
            POp::Send | POp::TrySend => {
                let Some(h) = handle.as_ref() else { continue };
                let s = mk(ctr);
                let _g = sh.ser.as_ref().map(|m| m.lock().unwrap_or_else(|e| e.into_inner()));
                let r = if *op == POp::Send { h.src().send(s) } else { h.src().try_send(s) };
                drop(_g);
                let res = match r {
                    Ok(()) => PushRes::Ok,
                    Err(MediaError::WouldBlock) if *op == POp::TrySend => PushRes::WouldBlock,
                    Err(e) => {
                        if log.bad.is_none() {
                            log.bad = Some((
                                "push-error-on-live-source".into(),
                                format!("producer {pid} op #{i} {:?} (sample {ctr}) on a live source handle returned Err({e:?})", op),
                            ));
                        }
                        PushRes::Rejected
                    }
                };
                log.results.push(res);
                ctr += 1;
            }
            POp::SendMany(k) => {
                let Some(h) = handle.as_ref() else { continue };
                let v: Vec<MediaSample> = (0..k as u32).map(|j| mk(ctr + j)).collect();
                let _g = sh.ser.as_ref().map(|m| m.lock().unwrap_or_else(|e| e.into_inner()));
                let r = h.src().send_many(v);
                drop(_g);
                let res = match r {
                    Ok(()) => PushRes::Ok,
                    Err(e) => {
                        if log.bad.is_none() {
                            log.bad = Some((
                                "push-error-on-live-source".into(),
                                format!("producer {pid} op #{i} send_many({k}) (samples {ctr}..) on a live source handle returned Err({e:?})"),
                            ));
                        }
                        PushRes::Rejected
                    }
                };
                for _ in 0..k {
                    log.results.push(res);
                }
                ctr += k as u32;
            }
            POp::Yield => std::thread::yield_now(),
            POp::Spin(n) => spin(n),
            POp::SleepUs(n) => sleep_us(n),
            POp::Stop => do_stop(&track, sh, true),
            POp::DropSrc => {
                if let Some(h) = handle.take() {
                    if sh.producers_running.load(SeqCst) > 1 {
                        sh.drop_mid.store(true, SeqCst);
                    }
                    drop(h);
                }
            }
        }
    }
    drop(handle);
    sh.producers_running.fetch_sub(1, SeqCst);
    log
}

fn run_consumer(sc: &Script, track: Arc<SampleStreamTrack>, sh: &Shared) -> ConsLog {
    let w = Arc::new(ThreadWaker {
        woken: AtomicBool::new(false),
        thread: std::thread::current(),
    });
    let mut log = ConsLog {
        recv: Vec::new(),
        fail: None,
        stuck: false,
        waits: 0,
    };
    // hold the last few samples and re-verify them on eviction: a buffer freed too early and
    // reused by another allocation shows up as a content change.
    let mut held: std::collections::VecDeque<MediaSample> = std::collections::VecDeque::new();
    let mut i = 0usize;
    'outer: loop {
        let op = sc.pace[i % sc.pace.len()];
        i += 1;
        match op {
            COp::Yield => std::thread::yield_now(),
            COp::Spin(n) => spin(n),
            COp::SleepUs(n) => sleep_us(n),
            COp::Recv => match drive_recv(&track, &w, &sh.all_done, &mut log.waits) {
                RecvOut::Sample(s) => {
                    match verify_sample(sc.video, sc.salt, &s) {
                        Ok(id) => log.recv.push(id),
                        Err(m) => {
                            log.fail = Some(("corrupt-sample".into(), format!("received sample #{}: {m}", log.recv.len())));
                            break 'outer;
                        }
                    }
                    held.push_back(s);
                    if held.len() > 3 {
                        let old = held.pop_front().unwrap();
                        if let Err(m) = verify_sample(sc.video, sc.salt, &old) {
                            log.fail = Some(("corrupt-sample".into(), format!("sample changed while held by the consumer: {m}")));
                            break 'outer;
                        }
                    }
                    if let Some(n) = sc.stop_after {
                        if log.recv.len() == n as usize {
                            do_stop(&track, sh, false);
                        }
                    }
                }
                RecvOut::Err(MediaError::EndOfStream) => {
                    // end-of-stream is final: further recv() calls must keep saying so
                    for k in 0..2 {
                        match drive_recv(&track, &w, &sh.all_done, &mut log.waits) {
                            RecvOut::Err(MediaError::EndOfStream) => {}
                            RecvOut::Sample(s) => {
                                log.fail = Some((
                                    "sample-after-end-of-stream".into(),
                                    format!("recv() #{k} after EndOfStream returned a sample: {}", brief(&s)),
                                ));
                                break;
                            }
                            RecvOut::Err(e) => {
                                log.fail = Some(("unexpected-recv-error".into(), format!("recv() after EndOfStream returned Err({e:?})")));
                                break;
                            }
                            RecvOut::Stuck => {
                                log.fail = Some(("recv-pending-after-end-of-stream".into(), "recv() after EndOfStream never completes".into()));
                                break;
                            }
                        }
                    }
                    break 'outer;
                }
                RecvOut::Err(e) => {
                    log.fail = Some(("unexpected-recv-error".into(), format!("recv() returned Err({e:?})")));
                    break 'outer;
                }
                RecvOut::Stuck => {
                    log.stuck = true;
                    break 'outer;
                }
            },
        }
    }
    while let Some(old) = held.pop_front() {
        if log.fail.is_none() {
            if let Err(m) = verify_sample(sc.video, sc.salt, &old) {
                log.fail = Some(("corrupt-sample".into(), format!("sample changed while held by the consumer: {m}")));
            }
        }
    }
    log
}

/// Run the script once and evaluate the oracle.
pub fn execute(sc: &Script) -> Outcome {
    let n = sc.producers.len();
    let mut offsets = Vec::with_capacity(n);
    let mut total = 0usize;
    for p in 0..n {
        offsets.push(total);
        total += sc.pushes_of(p);
    }
    let led = Ledger::new(total);
    let sh = Arc::new(Shared {
        led: led.clone(),
        offsets,
        ser: if sc.ser { Some(Mutex::new(())) } else { None },
        stop_executed: AtomicBool::new(false),
        stop_mid: AtomicBool::new(false),
        drop_mid: AtomicBool::new(false),
        producers_running: AtomicUsize::new(n),
        all_done: AtomicBool::new(false),
    });
    let kind = if sc.video { MediaKind::Video } else { MediaKind::Audio };
    let (source, track, feedback_rx) = sample_track(kind, sc.cap);
    let arc_src = if sc.producers.iter().any(|p| p.shared) {
        Some(Arc::new(source.clone()))
    } else {
        None
    };
    let handles: Vec<Handle> = sc
        .producers
        .iter()
        .map(|p| {
            if p.shared {
                Handle::Shared(arc_src.as_ref().unwrap().clone())
            } else {
                Handle::Own(source.clone())
            }
        })
        .collect();
    let mut main_handles = Some((source, arc_src));
    if sc.early {
        main_handles = None;
    }
    let barrier = Arc::new(Barrier::new(n + 1));
    let sc_arc = Arc::new(sc.clone());

    let cons = {
        let (sc, track, sh, barrier) = (sc_arc.clone(), track.clone(), sh.clone(), barrier.clone());
        std::thread::Builder::new()
            .name("consumer".into())
            .spawn(move || {
                barrier.wait();
                run_consumer(&sc, track, &sh)
            })
            .expect("spawn consumer")
    };
    let mut prods = Vec::new();
    for (pid, h) in handles.into_iter().enumerate() {
        let (sc, track, sh, barrier) = (sc_arc.clone(), track.clone(), sh.clone(), barrier.clone());
        prods.push(
            std::thread::Builder::new()
                .name(format!("producer{pid}"))
                .spawn(move || {
                    barrier.wait();
                    run_producer(&sc, pid, h, track, &sh)
                })
                .expect("spawn producer"),
        );
    }

    let mut fail: Vec<(String, String)> = Vec::new();
    let set = |f: &mut Vec<(String, String)>, sig: &str, msg: String| {
        if !f.iter().any(|(s, _)| s == sig) {
            f.push((sig.to_string(), msg));
        }
    };
    let mut plogs: Vec<ProdLog> = Vec::new();
    for (pid, p) in prods.into_iter().enumerate() {
        match p.join() {
            Ok(l) => plogs.push(l),
            Err(_) => {
                set(&mut fail, "thread-panicked", format!("producer {pid} panicked"));
                plogs.push(ProdLog { results: Vec::new(), bad: None });
            }
        }
    }
    drop(main_handles);
    sh.all_done.store(true, SeqCst);
    cons.thread().unpark();
    let clog = match cons.join() {
        Ok(l) => l,
        Err(_) => {
            set(&mut fail, "thread-panicked", "consumer panicked".into());
            ConsLog { recv: Vec::new(), fail: None, stuck: false, waits: 0 }
        }
    };

    let mut st = Stats {
        waits: clog.waits,
        received: clog.recv.len(),
        stop_executed: sh.stop_executed.load(SeqCst),
        stop_mid: sh.stop_mid.load(SeqCst),
        drop_mid: sh.drop_mid.load(SeqCst),
        ..Stats::default()
    };
    for l in &plogs {
        st.created += l.results.len();
        st.accepted += l.results.iter().filter(|r| **r == PushRes::Ok).count();
        st.would_block += l.results.iter().filter(|r| **r == PushRes::WouldBlock).count();
    }

    if let Some((s, m)) = clog.fail.clone() {
        set(&mut fail, &s, m);
    }
    for l in &plogs {
        if let Some((s, m)) = l.bad.clone() {
            set(&mut fail, &s, m);
        }
    }
    // identity / duplicates / order
    let mut seen: Vec<Vec<bool>> = plogs.iter().map(|l| vec![false; l.results.len()]).collect();
    let mut last: Vec<Option<u32>> = vec![None; n];
    for (k, (pid, ctr)) in clog.recv.iter().enumerate() {
        let (p, c) = (*pid as usize, *ctr as usize);
        if p >= n || c >= plogs[p].results.len() {
            set(&mut fail, "received-never-pushed", format!("received #{k} claims (producer {pid}, counter {ctr}) which was never pushed"));
            continue;
        }
        if plogs[p].results[c] != PushRes::Ok {
            set(
                &mut fail,
                "received-rejected-sample",
                format!("received #{k} (producer {pid}, counter {ctr}) although its push returned {:?}", plogs[p].results[c]),
            );
        }
        if seen[p][c] {
            set(&mut fail, "duplicate-sample", format!("sample (producer {pid}, counter {ctr}) received twice (second time as #{k})"));
        }
        seen[p][c] = true;
        if let Some(l) = last[p] {
            if *ctr < l {
                set(
                    &mut fail,
                    "reordered-samples",
                    format!("producer {pid}: counter {ctr} received (as #{k}) after counter {l}"),
                );
            }
        }
        last[p] = Some(last[p].map_or(*ctr, |l| l.max(*ctr)));
    }
    if clog.stuck {
        set(
            &mut fail,
            "lost-wakeup-after-close",
            format!(
                "all {} source handles are dropped and every producer has finished, but recv() is still Pending and was never woken: the consumer never observes end-of-stream ({} samples received, stop executed: {})",
                n + 1 + sc.producers.iter().any(|p| p.shared) as usize,
                clog.recv.len(),
                st.stop_executed
            ),
        );
    }
    // Ledger snapshot while the ring is still alive (we hold `track`): a payload not yet freed is
    // either still queued in the ring or lost for good (e.g. its slot was overwritten).
    let (_c, _o, pending, dbl) = led.balance();
    if !dbl.is_empty() {
        set(&mut fail, "payload-double-free", format!("payload buffers freed more than once: ledger slots {:?}", &dbl[..dbl.len().min(8)]));
    }
    // tear down: the last references to the ring go away; everything still queued must be freed
    drop(track);
    drop(feedback_rx);
    let (created, _once, leaked, dbl) = led.balance();
    // stranded = was queued in the ring when the consumer finished (freed only by the teardown)
    let stranded: Vec<usize> = pending.iter().copied().filter(|s| !leaked.contains(s)).collect();
    let slot_id = |slot: usize| -> (usize, u32) {
        let mut p = 0;
        while p + 1 < n && sh.offsets[p + 1] <= slot {
            p += 1;
        }
        (p, (slot - sh.offsets[p]) as u32)
    };
    if !st.stop_executed && !clog.stuck && clog.fail.is_none() {
        // nobody stopped the track: end-of-stream may only be reported once the queue is drained
        if !stranded.is_empty() {
            let ids: Vec<(usize, u32)> = stranded.iter().map(|s| slot_id(*s)).collect();
            let newer = ids.iter().all(|(p, c)| last[*p].map_or(true, |l| *c > l));
            set(
                &mut fail,
                if newer { "end-of-stream-before-drain" } else { "stranded-sample-older-than-received" },
                format!(
                    "consumer got EndOfStream (track not stopped) while {} accepted sample(s) were still queued: (producer, counter) {:?}; {} received of {} accepted",
                    ids.len(),
                    &ids[..ids.len().min(8)],
                    st.received,
                    st.accepted
                ),
            );
        }
        st.overflow_lost = st.accepted.saturating_sub(st.received + stranded.len());
        if created <= sc.cap && st.received + stranded.len() != st.accepted {
            set(
                &mut fail,
                "lost-sample-without-overflow",
                format!(
                    "{} samples accepted, capacity {} never exceeded, but only {} received (+{} stranded) before end-of-stream",
                    st.accepted,
                    sc.cap,
                    st.received,
                    stranded.len()
                ),
            );
        }
    } else {
        st.left_at_teardown = stranded.len();
    }
    if !leaked.is_empty() {
        let ids: Vec<(usize, u32)> = leaked.iter().take(8).map(|s| slot_id(*s)).collect();
        set(
            &mut fail,
            "payload-leak",
            format!("{} of {} payload buffers never freed after track and all sources were dropped: (producer, counter) {:?}", leaked.len(), created, ids),
        );
    }
    if !dbl.is_empty() {
        set(&mut fail, "payload-double-free", format!("payload buffers freed more than once: ledger slots {:?}", &dbl[..dbl.len().min(8)]));
    }

    if sc.concurrent_producers() {
        for f in fail.iter_mut() {
            f.0 = format!("{} [multi-producer-unserialised]", f.0);
        }
    }
    Outcome { fails: fail, stats: st }
}
