//! E3/E4 for C16: harness-owned primitives written from the RFCs, independent of both
//! rustrtc and the webrtc-rs reference crates:
//!  * MD5 (RFC 1321), HMAC (RFC 2104) over SHA-1, CRC-32 (ISO-HDLC, bitwise) — used to
//!    recompute MESSAGE-INTEGRITY / FINGERPRINT / long-term keys;
//!  * a strict STUN TLV reader (RFC 5389 §6, §15);
//!  * the expected attribute value encodings (RFC 5389 §15, RFC 5766 §14, RFC 8445 §7.1);
//!  * a candidate-attribute reader (RFC 5245 §15.1 / RFC 8839 §5.1 grammar).

use sha1::{Digest, Sha1};
use std::net::{IpAddr, SocketAddr};

pub const MAGIC: u32 = 0x2112_A442;

// ---------------------------------------------------------------- MD5 (RFC 1321)

pub fn md5(input: &[u8]) -> [u8; 16] {
    const S: [u32; 64] = [
        7, 12, 17, 22, 7, 12, 17, 22, 7, 12, 17, 22, 7, 12, 17, 22, 5, 9, 14, 20, 5, 9, 14, 20, 5,
        9, 14, 20, 5, 9, 14, 20, 4, 11, 16, 23, 4, 11, 16, 23, 4, 11, 16, 23, 4, 11, 16, 23, 6, 10,
        15, 21, 6, 10, 15, 21, 6, 10, 15, 21, 6, 10, 15, 21,
    ];
    let mut k = [0u32; 64];
    for (i, v) in k.iter_mut().enumerate() {
        *v = ((i as f64 + 1.0).sin().abs() * 4294967296.0) as u32;
    }
    let mut a0: u32 = 0x67452301;
    let mut b0: u32 = 0xefcdab89;
    let mut c0: u32 = 0x98badcfe;
    let mut d0: u32 = 0x10325476;
    let mut msg = input.to_vec();
    let bitlen = (input.len() as u64).wrapping_mul(8);
    msg.push(0x80);
    while msg.len() % 64 != 56 {
        msg.push(0);
    }
    msg.extend_from_slice(&bitlen.to_le_bytes());
    for chunk in msg.chunks(64) {
        let mut m = [0u32; 16];
        for i in 0..16 {
            m[i] = u32::from_le_bytes([chunk[4 * i], chunk[4 * i + 1], chunk[4 * i + 2], chunk[4 * i + 3]]);
        }
        let (mut a, mut b, mut c, mut d) = (a0, b0, c0, d0);
        for i in 0..64 {
            let (mut f, g);
            if i < 16 {
                f = (b & c) | (!b & d);
                g = i;
            } else if i < 32 {
                f = (d & b) | (!d & c);
                g = (5 * i + 1) % 16;
            } else if i < 48 {
                f = b ^ c ^ d;
                g = (3 * i + 5) % 16;
            } else {
                f = c ^ (b | !d);
                g = (7 * i) % 16;
            }
            f = f.wrapping_add(a).wrapping_add(k[i]).wrapping_add(m[g]);
            a = d;
            d = c;
            c = b;
            b = b.wrapping_add(f.rotate_left(S[i]));
        }
        a0 = a0.wrapping_add(a);
        b0 = b0.wrapping_add(b);
        c0 = c0.wrapping_add(c);
        d0 = d0.wrapping_add(d);
    }
    let mut out = [0u8; 16];
    out[0..4].copy_from_slice(&a0.to_le_bytes());
    out[4..8].copy_from_slice(&b0.to_le_bytes());
    out[8..12].copy_from_slice(&c0.to_le_bytes());
    out[12..16].copy_from_slice(&d0.to_le_bytes());
    out
}

/// RFC 5389 §15.4 long-term key: MD5(username ":" realm ":" password) (no SASLprep applied).
pub fn long_term_key(user: &str, realm: &str, pass: &str) -> Vec<u8> {
    let mut s = Vec::new();
    s.extend_from_slice(user.as_bytes());
    s.push(b':');
    s.extend_from_slice(realm.as_bytes());
    s.push(b':');
    s.extend_from_slice(pass.as_bytes());
    md5(&s).to_vec()
}

// ---------------------------------------------------------------- HMAC-SHA1 (RFC 2104)

pub fn hmac_sha1(key: &[u8], data: &[u8]) -> [u8; 20] {
    let mut k = [0u8; 64];
    if key.len() > 64 {
        let d = Sha1::digest(key);
        k[..20].copy_from_slice(&d);
    } else {
        k[..key.len()].copy_from_slice(key);
    }
    let mut inner = Sha1::new();
    let ipad: Vec<u8> = k.iter().map(|b| b ^ 0x36).collect();
    inner.update(&ipad);
    inner.update(data);
    let ih = inner.finalize();
    let mut outer = Sha1::new();
    let opad: Vec<u8> = k.iter().map(|b| b ^ 0x5c).collect();
    outer.update(&opad);
    outer.update(&ih);
    let oh = outer.finalize();
    let mut out = [0u8; 20];
    out.copy_from_slice(&oh);
    out
}

// ---------------------------------------------------------------- CRC-32 (ITU V.42 / ISO-HDLC)

pub fn crc32(data: &[u8]) -> u32 {
    let mut crc: u32 = 0xFFFF_FFFF;
    for &b in data {
        crc ^= b as u32;
        for _ in 0..8 {
            crc = if crc & 1 != 0 { (crc >> 1) ^ 0xEDB8_8320 } else { crc >> 1 };
        }
    }
    !crc
}

// ---------------------------------------------------------------- strict STUN reader

#[derive(Clone, Debug, PartialEq, Eq)]
pub struct Tlv {
    pub typ: u16,
    pub value: Vec<u8>,
    /// offset of the attribute header inside the message
    pub offset: usize,
}

#[derive(Clone, Debug)]
pub struct Wire {
    pub msg_type: u16,
    pub method: u16,
    /// 0 request, 1 indication, 2 success, 3 error
    pub class: u8,
    pub txid: [u8; 12],
    pub attrs: Vec<Tlv>,
}

/// RFC 5389 §6: strict parse. Every deviation is an error string.
pub fn parse_strict(b: &[u8]) -> Result<Wire, String> {
    if b.len() < 20 {
        return Err(format!("{} bytes is shorter than a STUN header", b.len()));
    }
    let t = u16::from_be_bytes([b[0], b[1]]);
    if t & 0xC000 != 0 {
        return Err(format!("two most significant bits of the message are not zero: type {t:#06x}"));
    }
    let len = u16::from_be_bytes([b[2], b[3]]) as usize;
    if len % 4 != 0 {
        return Err(format!("message length {len} is not a multiple of 4"));
    }
    if len + 20 != b.len() {
        return Err(format!("length field {len} + 20 != datagram size {}", b.len()));
    }
    if u32::from_be_bytes([b[4], b[5], b[6], b[7]]) != MAGIC {
        return Err("magic cookie missing".into());
    }
    let method = (t & 0x000F) | ((t & 0x00E0) >> 1) | ((t & 0x3E00) >> 2);
    let class = (((t >> 4) & 1) | ((t >> 7) & 2)) as u8;
    let mut txid = [0u8; 12];
    txid.copy_from_slice(&b[8..20]);
    let mut attrs = Vec::new();
    let mut off = 20;
    while off < b.len() {
        if off + 4 > b.len() {
            return Err(format!("truncated attribute header at {off}"));
        }
        let typ = u16::from_be_bytes([b[off], b[off + 1]]);
        let l = u16::from_be_bytes([b[off + 2], b[off + 3]]) as usize;
        let padded = (l + 3) & !3;
        if off + 4 + padded > b.len() {
            return Err(format!("attribute {typ:#06x} at {off} (len {l}, padded {padded}) overruns the message"));
        }
        attrs.push(Tlv { typ, value: b[off + 4..off + 4 + l].to_vec(), offset: off });
        off += 4 + padded;
    }
    Ok(Wire { msg_type: t, method, class, txid, attrs })
}

/// Recompute MESSAGE-INTEGRITY (RFC 5389 §15.4) for the attribute at `mi_offset`: HMAC over the
/// message up to the attribute, with the header length adjusted to end right after it.
pub fn expected_integrity(b: &[u8], mi_offset: usize, key: &[u8]) -> [u8; 20] {
    let mut head = b[..mi_offset].to_vec();
    let l = (mi_offset - 20 + 24) as u16;
    head[2..4].copy_from_slice(&l.to_be_bytes());
    hmac_sha1(key, &head)
}

/// Recompute FINGERPRINT (RFC 5389 §15.5) for the attribute at `fp_offset`.
pub fn expected_fingerprint(b: &[u8], fp_offset: usize) -> u32 {
    let mut head = b[..fp_offset].to_vec();
    let l = (fp_offset - 20 + 8) as u16;
    head[2..4].copy_from_slice(&l.to_be_bytes());
    crc32(&head) ^ 0x5354_554e
}

/// RFC 5389 §15.2: XOR-MAPPED-ADDRESS value encoding (also XOR-PEER / XOR-RELAYED, RFC 5766 §14.3/14.5).
pub fn xor_addr_value(addr: &SocketAddr, txid: &[u8; 12]) -> Vec<u8> {
    let mut v = vec![0u8];
    let mut mask = MAGIC.to_be_bytes().to_vec();
    mask.extend_from_slice(txid);
    let xport = addr.port() ^ 0x2112;
    match addr.ip() {
        IpAddr::V4(ip) => {
            v.push(1);
            v.extend_from_slice(&xport.to_be_bytes());
            for (i, o) in ip.octets().iter().enumerate() {
                v.push(o ^ mask[i]);
            }
        }
        IpAddr::V6(ip) => {
            v.push(2);
            v.extend_from_slice(&xport.to_be_bytes());
            for (i, o) in ip.octets().iter().enumerate() {
                v.push(o ^ mask[i]);
            }
        }
    }
    v
}

// ---------------------------------------------------------------- candidate-attribute reader

#[derive(Clone, Debug, PartialEq, Eq)]
pub struct CandLine {
    pub foundation: String,
    pub component: u32,
    pub transport: String,
    pub priority: u64,
    pub ip: IpAddr,
    pub port: u16,
    pub typ: String,
    pub raddr: Option<IpAddr>,
    pub rport: Option<u16>,
    /// extension attributes in order of appearance
    pub ext: Vec<(String, String)>,
    /// raddr/rport did not directly follow the candidate type (RFC 5245 §15.1 puts them there)
    pub rel_after_ext: bool,
}

/// Reads `foundation SP component SP transport SP priority SP addr SP port SP "typ" SP type
/// [SP "raddr" SP addr] [SP "rport" SP port] *(SP name SP value)`. raddr/rport are also found when
/// they appear among the extensions (flagged in `rel_after_ext`).
pub fn parse_candidate_line(line: &str) -> Result<CandLine, String> {
    let body = line.strip_prefix("candidate:").unwrap_or(line);
    let t: Vec<&str> = body.split(' ').collect();
    if t.iter().any(|x| x.is_empty()) {
        return Err("empty token (double space)".into());
    }
    if t.len() < 8 || (t.len() - 8) % 2 != 0 {
        return Err(format!("{} tokens", t.len()));
    }
    if t[6] != "typ" {
        return Err(format!("token 7 is {:?}, not typ", t[6]));
    }
    let mut out = CandLine {
        foundation: t[0].to_string(),
        component: t[1].parse().map_err(|e| format!("component: {e}"))?,
        transport: t[2].to_string(),
        priority: t[3].parse().map_err(|e| format!("priority: {e}"))?,
        ip: t[4].parse().map_err(|e| format!("address {:?}: {e}", t[4]))?,
        port: t[5].parse().map_err(|e| format!("port: {e}"))?,
        typ: t[7].to_string(),
        raddr: None,
        rport: None,
        ext: Vec::new(),
        rel_after_ext: false,
    };
    let mut i = 8;
    while i + 1 < t.len() {
        match t[i] {
            "raddr" => {
                out.raddr = Some(t[i + 1].parse().map_err(|e| format!("raddr {:?}: {e}", t[i + 1]))?);
                if !out.ext.is_empty() {
                    out.rel_after_ext = true;
                }
            }
            "rport" => {
                out.rport = Some(t[i + 1].parse().map_err(|e| format!("rport: {e}"))?);
                if !out.ext.is_empty() {
                    out.rel_after_ext = true;
                }
            }
            n => out.ext.push((n.to_string(), t[i + 1].to_string())),
        }
        i += 2;
    }
    Ok(out)
}

#[cfg(test)]
mod tests {
    use super::*;
    #[test]
    fn vectors() {
        assert_eq!(crate::engine::hex(&md5(b"")), "d41d8cd98f00b204e9800998ecf8427e");
        assert_eq!(crate::engine::hex(&md5(b"abc")), "900150983cd24fb0d6963f7d28e17f72");
        assert_eq!(crc32(b"123456789"), 0xCBF43926);
        assert_eq!(
            crate::engine::hex(&hmac_sha1(b"key", b"The quick brown fox jumps over the lazy dog")),
            "de7c9b85b8b78aa6bc8a7a36f70a90701c9db4d9"
        );
    }
}
