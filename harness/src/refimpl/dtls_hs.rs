//! Independent DTLS 1.2 handshake reader used by C02 (harness code, not rustrtc's):
//! handshake-message walker, TLS 1.2 PRF (own HMAC-SHA256 from the definition), Finished
//! verify_data, ServerKeyExchange signature check (RFC 8422 section 5.4) with `ring` (rustrtc
//! uses `p256`), SHA-256 certificate fingerprint in SDP notation, and a lenient locator for the
//! P-256 SubjectPublicKey inside a (possibly damaged) certificate.

use crate::net::wire::{self, DtlsRec};
use sha2::{Digest, Sha256};

pub const HT_CLIENT_HELLO: u8 = 1;
pub const HT_SERVER_HELLO: u8 = 2;
pub const HT_CERTIFICATE: u8 = 11;
pub const HT_SERVER_KEY_EXCHANGE: u8 = 12;
pub const HT_SERVER_HELLO_DONE: u8 = 14;
pub const HT_CERTIFICATE_VERIFY: u8 = 15;
pub const HT_CLIENT_KEY_EXCHANGE: u8 = 16;
pub const HT_FINISHED: u8 = 20;

/// One handshake message as found in a record (12-byte DTLS handshake header + fragment body).
#[derive(Clone, Debug, PartialEq, Eq)]
pub struct HsMsg {
    pub msg_type: u8,
    pub length: u32,
    pub message_seq: u16,
    pub frag_off: u32,
    pub frag_len: u32,
    pub body: Vec<u8>,
    /// header + body exactly as on the wire (what enters the handshake transcript of an
    /// implementation that received the message unfragmented)
    pub raw: Vec<u8>,
}

impl HsMsg {
    /// the message is complete in this one fragment
    pub fn whole(&self) -> bool {
        self.length == self.frag_len && self.body.len() == self.frag_len as usize
    }
}

/// Walk the handshake messages in one plaintext record body. A trailing message whose body is
/// cut short is returned with the bytes that are there (lenient: callers decide what to do).
pub fn hs_messages(body: &[u8]) -> Vec<HsMsg> {
    let mut out = Vec::new();
    let mut o = 0usize;
    while body.len() >= o + 12 {
        let Some(h) = wire::hs_header(&body[o..]) else { break };
        let avail = body.len() - o - 12;
        let take = (h.frag_len as usize).min(avail);
        out.push(HsMsg {
            msg_type: h.msg_type,
            length: h.length,
            message_seq: h.message_seq,
            frag_off: h.frag_off,
            frag_len: h.frag_len,
            body: body[o + 12..o + 12 + take].to_vec(),
            raw: body[o..o + 12 + take].to_vec(),
        });
        if take < h.frag_len as usize {
            break;
        }
        o += 12 + take;
    }
    out
}

/// All epoch-0 handshake messages of a datagram.
pub fn plaintext_hs(datagram: &[u8]) -> Vec<HsMsg> {
    let mut out = Vec::new();
    for r in wire::dtls_records(datagram) {
        if r.content_type == 22 && r.epoch == 0 {
            out.extend(hs_messages(&r.body));
        }
    }
    out
}

/// Records of a datagram that claim to be protected handshake records (epoch >= 1).
pub fn protected_hs_records(datagram: &[u8]) -> Vec<DtlsRec> {
    wire::dtls_records(datagram)
        .into_iter()
        .filter(|r| r.content_type == 22 && r.epoch >= 1)
        .collect()
}

/// SDP notation of the SHA-256 digest: upper-case hex pairs joined by ':' (RFC 8122).
pub fn sdp_fingerprint(der: &[u8]) -> String {
    let d = Sha256::digest(der);
    d.iter().map(|b| format!("{:02X}", b)).collect::<Vec<_>>().join(":")
}

/// Octets named by an expected-fingerprint string under a LENIENT reading: an algorithm token in
/// front ("sha-256 ") is dropped, case and the separators ':' / white space are ignored. None
/// when what remains is not an even number of hex digits.
pub fn lenient_fingerprint_octets(s: &str) -> Option<Vec<u8>> {
    let t = s.trim();
    let t = match t.split_once(char::is_whitespace) {
        Some((alg, rest)) if alg.to_ascii_lowercase().starts_with("sha") => rest,
        _ => t,
    };
    let hex: Vec<u8> = t.bytes().filter(|b| *b != b':' && !b.is_ascii_whitespace()).collect();
    if hex.is_empty() || hex.len() % 2 != 0 || !hex.iter().all(|b| b.is_ascii_hexdigit()) {
        return None;
    }
    let v = |b: u8| (b as char).to_digit(16).unwrap() as u8;
    Some(hex.chunks(2).map(|c| (v(c[0]) << 4) | v(c[1])).collect())
}

/// Does the expected-fingerprint string name exactly the SHA-256 of `der` (lenient reading)?
pub fn fingerprint_names(expected: &str, der: &[u8]) -> bool {
    match lenient_fingerprint_octets(expected) {
        Some(o) => o.len() == 32 && o[..] == Sha256::digest(der)[..],
        None => false,
    }
}

/// Certificate list of a Certificate message body (RFC 5246 7.4.2); None when malformed.
pub fn certificate_list(body: &[u8]) -> Option<Vec<Vec<u8>>> {
    if body.len() < 3 {
        return None;
    }
    let u24 = |b: &[u8]| ((b[0] as usize) << 16) | ((b[1] as usize) << 8) | b[2] as usize;
    let total = u24(&body[0..3]);
    if body.len() < 3 + total {
        return None;
    }
    let list = &body[3..3 + total];
    let mut out = Vec::new();
    let mut o = 0;
    while o < list.len() {
        if list.len() < o + 3 {
            return None;
        }
        let l = u24(&list[o..o + 3]);
        o += 3;
        if list.len() < o + l {
            return None;
        }
        out.push(list[o..o + l].to_vec());
        o += l;
    }
    Some(out)
}

#[derive(Clone, Debug)]
pub struct Ske {
    /// curve_type || named_curve || len || point : the ServerECDHParams that are signed
    pub params: Vec<u8>,
    pub hash_alg: u8,
    pub sig_alg: u8,
    pub signature: Vec<u8>,
}

/// ECDHE ServerKeyExchange (RFC 8422 5.4).
pub fn parse_ske(body: &[u8]) -> Option<Ske> {
    if body.len() < 4 {
        return None;
    }
    let pk_len = body[3] as usize;
    let p_end = 4 + pk_len;
    if body.len() < p_end + 4 {
        return None;
    }
    let sig_len = u16::from_be_bytes([body[p_end + 2], body[p_end + 3]]) as usize;
    if body.len() < p_end + 4 + sig_len {
        return None;
    }
    Some(Ske {
        params: body[..p_end].to_vec(),
        hash_alg: body[p_end],
        sig_alg: body[p_end + 1],
        signature: body[p_end + 4..p_end + 4 + sig_len].to_vec(),
    })
}

/// 32-byte random of a ClientHello / ServerHello body.
pub fn hello_random(body: &[u8]) -> Option<[u8; 32]> {
    if body.len() < 34 {
        return None;
    }
    let mut r = [0u8; 32];
    r.copy_from_slice(&body[2..34]);
    Some(r)
}

/// Candidate uncompressed P-256 points inside a (possibly damaged) certificate: every 65-byte
/// window that starts with the SEC1 tag 0x04. Lenient on purpose - no DER structure is assumed, so
/// a certificate whose framing around the key is damaged (e.g. the BIT STRING's unused-bits octet)
/// but whose key bytes are intact still yields its key; windows that are not curve points are
/// rejected by the verifier.
pub fn p256_points(der: &[u8]) -> Vec<Vec<u8>> {
    let mut out = Vec::new();
    let mut i = 0;
    while i + 65 <= der.len() {
        if der[i] == 0x04 {
            out.push(der[i..i + 65].to_vec());
        }
        i += 1;
    }
    out
}

/// ECDSA-P256-SHA256 (ASN.1 signature) over client_random || server_random || params.
pub fn ske_signature_valid(point: &[u8], client_random: &[u8; 32], server_random: &[u8; 32], ske: &Ske) -> bool {
    let mut msg = Vec::with_capacity(64 + ske.params.len());
    msg.extend_from_slice(client_random);
    msg.extend_from_slice(server_random);
    msg.extend_from_slice(&ske.params);
    ring::signature::UnparsedPublicKey::new(&ring::signature::ECDSA_P256_SHA256_ASN1, point)
        .verify(&msg, &ske.signature)
        .is_ok()
}

/// HMAC-SHA256 written from RFC 2104.
pub fn hmac_sha256(key: &[u8], parts: &[&[u8]]) -> [u8; 32] {
    let mut k = [0u8; 64];
    if key.len() > 64 {
        k[..32].copy_from_slice(&Sha256::digest(key));
    } else {
        k[..key.len()].copy_from_slice(key);
    }
    let mut inner = Sha256::new();
    let ipad: Vec<u8> = k.iter().map(|b| b ^ 0x36).collect();
    inner.update(&ipad);
    for p in parts {
        inner.update(p);
    }
    let ih = inner.finalize();
    let mut outer = Sha256::new();
    let opad: Vec<u8> = k.iter().map(|b| b ^ 0x5c).collect();
    outer.update(&opad);
    outer.update(&ih);
    let mut r = [0u8; 32];
    r.copy_from_slice(&outer.finalize());
    r
}

/// TLS 1.2 PRF with SHA-256 (RFC 5246 section 5).
pub fn prf_sha256(secret: &[u8], label: &[u8], seed: &[u8], n: usize) -> Vec<u8> {
    let mut out = Vec::new();
    let mut a = hmac_sha256(secret, &[label, seed]).to_vec();
    while out.len() < n {
        out.extend_from_slice(&hmac_sha256(secret, &[&a, label, seed]));
        a = hmac_sha256(secret, &[&a]).to_vec();
    }
    out.truncate(n);
    out
}

/// Finished.verify_data (RFC 5246 7.4.9) over a transcript.
pub fn verify_data(master_secret: &[u8], label: &[u8], transcript: &[u8]) -> Vec<u8> {
    let h = Sha256::digest(transcript);
    prf_sha256(master_secret, label, &h, 12)
}

// ------------------------------------------------------------------ builders / active party
// (used by C02's takeover sub-check: a harness-implemented on-path party that completes the
// handshake itself; ECDH and ECDSA signing through `ring`, nothing shared with rustrtc)

/// A whole (unfragmented) DTLS handshake message.
pub fn build_hs(msg_type: u8, message_seq: u16, body: &[u8]) -> Vec<u8> {
    let l = body.len() as u32;
    let mut v = vec![msg_type, (l >> 16) as u8, (l >> 8) as u8, l as u8];
    v.extend_from_slice(&message_seq.to_be_bytes());
    v.extend_from_slice(&[0, 0, 0]);
    v.extend_from_slice(&[(l >> 16) as u8, (l >> 8) as u8, l as u8]);
    v.extend_from_slice(body);
    v
}

/// Same message under another message_seq.
pub fn with_seq(raw: &[u8], message_seq: u16) -> Vec<u8> {
    let mut v = raw.to_vec();
    if v.len() >= 6 {
        v[4..6].copy_from_slice(&message_seq.to_be_bytes());
    }
    v
}

/// ECDHE ServerKeyExchange body for secp256r1 with the given share and signature bytes
/// (SignatureAndHashAlgorithm sha256/ecdsa).
pub fn ske_body(share: &[u8], signature: &[u8]) -> Vec<u8> {
    let mut v = vec![3u8, 0, 23, share.len() as u8];
    v.extend_from_slice(share);
    v.extend_from_slice(&[4, 3]);
    v.extend_from_slice(&(signature.len() as u16).to_be_bytes());
    v.extend_from_slice(signature);
    v
}

/// The bytes a ServerKeyExchange signature covers.
pub fn ske_signed_bytes(client_random: &[u8; 32], server_random: &[u8; 32], share: &[u8]) -> Vec<u8> {
    let mut m = Vec::new();
    m.extend_from_slice(client_random);
    m.extend_from_slice(server_random);
    m.extend_from_slice(&[3, 0, 23, share.len() as u8]);
    m.extend_from_slice(share);
    m
}

pub fn certificate_body(chain: &[Vec<u8>]) -> Vec<u8> {
    let total: usize = chain.iter().map(|c| 3 + c.len()).sum();
    let u24 = |n: usize| [(n >> 16) as u8, (n >> 8) as u8, n as u8];
    let mut v = u24(total).to_vec();
    for c in chain {
        v.extend_from_slice(&u24(c.len()));
        v.extend_from_slice(c);
    }
    v
}

/// Does a ServerHello body carry the extended_master_secret extension (RFC 7627)?
pub fn server_hello_has_ems(body: &[u8]) -> bool {
    // version(2) random(32) session_id(1+n) cipher(2) compression(1) extensions(2+..)
    let mut o = 34;
    if body.len() < o + 1 {
        return false;
    }
    o += 1 + body[o] as usize;
    o += 3;
    if body.len() < o + 2 {
        return false;
    }
    o += 2;
    while body.len() >= o + 4 {
        let t = u16::from_be_bytes([body[o], body[o + 1]]);
        let l = u16::from_be_bytes([body[o + 2], body[o + 3]]) as usize;
        if t == 23 {
            return true;
        }
        o += 4 + l;
    }
    false
}

/// Public share of a ClientKeyExchange body (ECDHE: 1-byte length + point).
pub fn cke_share(body: &[u8]) -> Option<Vec<u8>> {
    let l = *body.first()? as usize;
    if body.len() < 1 + l {
        return None;
    }
    Some(body[1..1 + l].to_vec())
}

/// An ephemeral P-256 ECDH key of the harness.
pub struct EcdhKey {
    private: Option<ring::agreement::EphemeralPrivateKey>,
    pub public: Vec<u8>,
}

impl EcdhKey {
    pub fn generate() -> Option<Self> {
        let rng = ring::rand::SystemRandom::new();
        let private = ring::agreement::EphemeralPrivateKey::generate(&ring::agreement::ECDH_P256, &rng).ok()?;
        let public = private.compute_public_key().ok()?.as_ref().to_vec();
        Some(Self { private: Some(private), public })
    }
    /// X coordinate of the shared point (the TLS premaster secret); usable once.
    pub fn agree(&mut self, peer_share: &[u8]) -> Option<Vec<u8>> {
        let k = self.private.take()?;
        let peer = ring::agreement::UnparsedPublicKey::new(&ring::agreement::ECDH_P256, peer_share);
        ring::agreement::agree_ephemeral(k, &peer, |z| z.to_vec()).ok()
    }
}

/// PEM body -> DER (own base64 reader).
pub fn pem_to_der(pem: &str) -> Vec<u8> {
    let mut bits: u32 = 0;
    let mut n = 0;
    let mut out = Vec::new();
    for line in pem.lines() {
        if line.starts_with("-----") {
            continue;
        }
        for c in line.bytes() {
            let v = match c {
                b'A'..=b'Z' => c - b'A',
                b'a'..=b'z' => c - b'a' + 26,
                b'0'..=b'9' => c - b'0' + 52,
                b'+' => 62,
                b'/' => 63,
                _ => continue,
            };
            bits = (bits << 6) | v as u32;
            n += 6;
            if n >= 8 {
                n -= 8;
                out.push((bits >> n) as u8);
                bits &= (1 << n) - 1;
            }
        }
    }
    out
}

/// ECDSA-P256-SHA256 ASN.1 signature with a PKCS#8 PEM key.
pub fn ecdsa_sign_pem(pkcs8_pem: &str, msg: &[u8]) -> Option<Vec<u8>> {
    let rng = ring::rand::SystemRandom::new();
    let der = pem_to_der(pkcs8_pem);
    let kp = ring::signature::EcdsaKeyPair::from_pkcs8(&ring::signature::ECDSA_P256_SHA256_ASN1_SIGNING, &der, &rng).ok()?;
    Some(kp.sign(&rng, msg).ok()?.as_ref().to_vec())
}

/// Keys of a TLS_ECDHE_ECDSA_WITH_AES_128_GCM_SHA256 session (RFC 5246 6.3, RFC 5288, RFC 7627).
#[derive(Clone, Debug)]
pub struct GcmKeys {
    pub master_secret: Vec<u8>,
    pub client_write_key: Vec<u8>,
    pub server_write_key: Vec<u8>,
    pub client_write_iv: Vec<u8>,
    pub server_write_iv: Vec<u8>,
}

/// `transcript_to_cke`: handshake messages ClientHello..ClientKeyExchange (used when `ems`).
pub fn derive_keys(premaster: &[u8], ems: bool, transcript_to_cke: &[u8], client_random: &[u8; 32], server_random: &[u8; 32]) -> GcmKeys {
    let master_secret = if ems {
        prf_sha256(premaster, b"extended master secret", &Sha256::digest(transcript_to_cke), 48)
    } else {
        let mut seed = client_random.to_vec();
        seed.extend_from_slice(server_random);
        prf_sha256(premaster, b"master secret", &seed, 48)
    };
    let mut seed = server_random.to_vec();
    seed.extend_from_slice(client_random);
    let kb = prf_sha256(&master_secret, b"key expansion", &seed, 40);
    GcmKeys {
        master_secret,
        client_write_key: kb[0..16].to_vec(),
        server_write_key: kb[16..32].to_vec(),
        client_write_iv: kb[32..36].to_vec(),
        server_write_iv: kb[36..40].to_vec(),
    }
}

#[cfg(test)]
mod tests {
    use super::*;

    #[test]
    fn hmac_rfc4231_case2() {
        let r = hmac_sha256(b"Jefe", &[b"what do ya want ", b"for nothing?"]);
        assert_eq!(
            crate::engine::hex(&r),
            "5bdcc146bf60754e6a042426089575c75a003f089d2739839dec58b964ec3843"
        );
    }

    #[test]
    fn ecdh_and_sign_roundtrip() {
        let (mut a, mut b) = (EcdhKey::generate().unwrap(), EcdhKey::generate().unwrap());
        let (pa, pb) = (a.public.clone(), b.public.clone());
        assert_eq!(a.agree(&pb).unwrap(), b.agree(&pa).unwrap());
        assert_eq!(pem_to_der("-----BEGIN X-----\nTWFu\nTWE=\n-----END X-----\n"), b"ManMa".to_vec());
        let m = build_hs(12, 3, &ske_body(&[4u8; 65], &[1, 2, 3]));
        let parsed = hs_messages(&m);
        assert!(parsed[0].whole() && parsed[0].message_seq == 3);
        let ske = parse_ske(&parsed[0].body).unwrap();
        assert_eq!(ske.signature, vec![1, 2, 3]);
        assert_eq!(with_seq(&m, 9)[4..6], [0, 9]);
    }

    #[test]
    fn lenient_fingerprint() {
        let der = b"abc";
        let canon = sdp_fingerprint(der);
        for f in [canon.clone(), format!("sha-256 {canon}"), canon.to_lowercase(), canon.replace(':', "")] {
            assert!(fingerprint_names(&f, der), "{f}");
        }
        for f in [String::new(), "   ".into(), "00".into(), format!("{canon}:00"), format!("{canon}:ZZ"), canon[3..].to_string(), "sha-256".into()] {
            assert!(!fingerprint_names(&f, der), "{f}");
        }
    }

    #[test]
    fn prf_known_vector() {
        // widely used TLS 1.2 PRF-SHA256 test vector
        let secret = crate::engine::unhex("9bbe436ba940f017b17652849a71db35");
        let seed = crate::engine::unhex("a0ba9f936cda311827a6f796ffd5198c");
        let out = prf_sha256(&secret, b"test label", &seed, 100);
        assert_eq!(
            crate::engine::hex(&out[..16]),
            "e3f229ba727be17b8d122620557cd453"
        );
    }
}
