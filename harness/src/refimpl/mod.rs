//! E4: reference models written from the RFCs / property statements.

pub mod c20_core;
pub mod dtls_hs;
pub mod foreign_certs;
pub mod rtpwire;
pub mod srtp;
pub mod stunwire;
