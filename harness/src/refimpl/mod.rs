//! E4: reference models written from the RFCs / property statements.
