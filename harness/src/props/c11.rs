//! C11 — DTLS handshakes converge: both sides agree on keys or neither connects.
//!
//! Two real rustrtc endpoints (IceConn over loopback UDP + DtlsTransport, no SCTP) are joined by the
//! harness network (`net::rig::Pair`). A *fault plan* addresses individual handshake datagrams by
//! (sender role, datagram class, ordinal) - rustrtc sends one record per datagram - and drops,
//! duplicates, delays, swaps or legally re-fragments them (RFC 6347 4.2.3).
//!
//! Oracle
//! * safety (schedule independent, checked whenever either side is Connected): the peer is Connected
//!   with the identical master secret, write keys/IVs, randoms, SRTP profile and
//!   `export_keying_material("EXTRACTOR-dtls_srtp", 60)`, or it is not Connected. The key block and the
//!   exporter are additionally recomputed with the harness's own TLS 1.2 PRF (RFC 5246 5 / RFC 5705).
//!   Application data sent with `dtls.send()` by a Connected side is readable by the peer once that is
//!   Connected.
//! * liveness (time bounded, rule 2.6): after the plan's last fault effect both sides are Connected
//!   within 10 retransmission intervals, and always before the handshake deadline.
//!
//! Thorough tier adds rustrtc against the independent webrtc-rs `dtls` crate (see `c11_interop.rs`).

use crate::engine::{AsyncCheck, CaseRec, Check, Ctx, Fail, pick};
use crate::net::coalesce::RegroupSpec;
use crate::net::fault::{Action, CustomFn, Phase, Rule, Side};
use crate::net::rig::{Extras, Pair, PairSpec, state_name};
use crate::net::wire::{self, DClass};
use bytes::Bytes;
use hmac::{Hmac, Mac};
use parking_lot::Mutex;
use proptest::prelude::*;
use proptest::strategy::ValueTree;
use rustrtc::transports::dtls::{DtlsState, DtlsTransport};
use serde::{Deserialize, Serialize};
use sha2::Sha256;
use std::collections::{BTreeSet, HashSet};
use std::sync::Arc;
use std::sync::atomic::{AtomicU64, Ordering};
use std::time::{Duration, Instant};

// ------------------------------------------------------------------------------------------ case model

#[derive(Clone, Debug, PartialEq, Eq, Serialize, Deserialize)]
pub enum Act {
    Drop,
    /// the original plus `copies` extra copies, `gap_pct` % of the retransmit interval apart
    Dup { copies: u8, gap_pct: u16 },
    /// deliver `pct` % of the retransmit interval late
    Delay { pct: u16 },
    /// hold back until `count` later datagrams of the same sender were delivered (at most `max_pct` % of T)
    Swap { count: u8, max_pct: u16 },
    /// split the (epoch 0, unfragmented) handshake message at `cuts` (fractions of the body, /65536) and
    /// deliver the fragments in `order` (indices mod #fragments; missing ones are appended in order),
    /// each in its own record with a fresh record sequence number; `coalesce` packs all records into one datagram
    Refrag { cuts: Vec<u16>, order: Vec<u8>, coalesce: bool },
}

#[derive(Clone, Debug, PartialEq, Eq, Serialize, Deserialize)]
pub struct Fault {
    /// sender role: true = DTLS client
    pub client: bool,
    pub class: DClass,
    /// n-th datagram (0-based) of that class from that sender
    pub ordinal: u16,
    pub act: Act,
}

#[derive(Clone, Copy, Debug, PartialEq, Eq, Serialize, Deserialize)]
pub enum Timers {
    /// hook H2: 60 ms retransmit interval, 6 s deadline
    Fast,
    /// production: 1 s retransmit interval, 30 s deadline
    Prod,
}

impl Timers {
    pub fn interval(self) -> Duration {
        match self {
            Timers::Fast => Duration::from_millis(60),
            Timers::Prod => Duration::from_secs(1),
        }
    }
    pub fn deadline(self) -> Duration {
        match self {
            Timers::Fast => Duration::from_secs(6),
            Timers::Prod => Duration::from_secs(30),
        }
    }
    pub fn spec(self) -> Option<(Duration, Duration)> {
        match self {
            Timers::Fast => Some((self.interval(), self.deadline())),
            Timers::Prod => None,
        }
    }
    pub fn name(self) -> &'static str {
        match self {
            Timers::Fast => "fast(60ms/6s)",
            Timers::Prod => "production(1s/30s)",
        }
    }
}

#[derive(Clone, Debug, Serialize, Deserialize)]
pub struct Case {
    pub faults: Vec<Fault>,
    pub a_is_client: bool,
    pub timers: Timers,
    /// re-grouping of each sender's records into datagrams before the faults apply (None = one record per
    /// datagram, as rustrtc sends them); fault classes then address a datagram by its FIRST record
    #[serde(default)]
    pub regroup: Option<Regrouping>,
}

/// Per sender role: merge the records of each flight into one datagram, re-order them inside it, split it again.
#[derive(Clone, Debug, PartialEq, Eq, Serialize, Deserialize)]
pub struct Regrouping {
    pub client: Option<RegroupSpec>,
    pub server: Option<RegroupSpec>,
}

pub fn role_name(client: bool) -> &'static str {
    if client { "client" } else { "server" }
}

/// Kind of a re-fragmentation given the delivery order over `n` fragments.
pub fn refrag_kind(order: &[u8], n: usize) -> &'static str {
    let seq = effective_order(order, n);
    if seq.iter().copied().eq(0..n) {
        return "refrag";
    }
    let mut firsts = Vec::new();
    for i in &seq {
        if !firsts.contains(i) {
            firsts.push(*i);
        }
    }
    if firsts.iter().copied().eq(0..n) { "refrag-dup" } else { "refrag-reorder" }
}

pub fn effective_order(order: &[u8], n: usize) -> Vec<usize> {
    let n = n.max(1);
    let mut seq: Vec<usize> = order.iter().map(|i| *i as usize % n).collect();
    for i in 0..n {
        if !seq.contains(&i) {
            seq.push(i);
        }
    }
    seq
}

pub fn act_kind(a: &Act) -> &'static str {
    match a {
        Act::Drop => "drop",
        Act::Dup { .. } => "dup",
        Act::Delay { .. } | Act::Swap { .. } => "late",
        Act::Refrag { cuts, order, .. } => {
            let mut c = cuts.clone();
            c.sort();
            c.dedup();
            refrag_kind(order, c.len() + 1)
        }
    }
}

pub fn fault_kind(f: &Fault) -> String {
    format!("{}({},{:?})", act_kind(&f.act), role_name(f.client), f.class)
}

/// Handshake datagrams of a rustrtc-rustrtc handshake (the rustrtc server never sends HelloVerifyRequest).
pub fn datagrams() -> Vec<(bool, DClass)> {
    vec![
        (true, DClass::ClientHello),
        (false, DClass::ServerHello),
        (false, DClass::Certificate),
        (false, DClass::ServerKeyExchange),
        (false, DClass::ServerHelloDone),
        (true, DClass::ClientKeyExchange),
        (true, DClass::ChangeCipherSpec),
        (true, DClass::Finished),
        (false, DClass::ChangeCipherSpec),
        (false, DClass::Finished),
    ]
}

pub fn refraggable(c: DClass) -> bool {
    matches!(
        c,
        DClass::ClientHello | DClass::ServerHello | DClass::Certificate | DClass::ServerKeyExchange | DClass::ClientKeyExchange
    )
}

fn basic_acts() -> Vec<Act> {
    vec![
        Act::Drop,
        Act::Dup { copies: 1, gap_pct: 0 },
        Act::Dup { copies: 1, gap_pct: 150 },
        Act::Delay { pct: 30 },
        // past the next retransmission
        Act::Delay { pct: 150 },
        // swap with the next datagram of the same sender
        Act::Swap { count: 1, max_pct: 250 },
    ]
}

fn refrag_acts() -> Vec<Act> {
    let r = |cuts: &[u16], order: &[u8], coalesce: bool| Act::Refrag { cuts: cuts.to_vec(), order: order.to_vec(), coalesce };
    vec![
        r(&[32768], &[0, 1], false),
        r(&[21845, 43690], &[0, 1, 2], true),
        // one-byte first and last fragment
        r(&[0, 65535], &[0, 1, 2], false),
        r(&[32768], &[1, 0], false),
        r(&[21845, 43690], &[0, 2, 1], false),
        r(&[32768], &[0, 0, 1], false),
        r(&[21845, 43690], &[0, 1, 1, 2], false),
    ]
}

/// Every single fault on each datagram of each flight in each direction.
pub fn single_faults() -> Vec<Fault> {
    let mut out = Vec::new();
    for (client, class) in datagrams() {
        for act in basic_acts() {
            out.push(Fault { client, class, ordinal: 0, act });
        }
        if refraggable(class) {
            for act in refrag_acts() {
                out.push(Fault { client, class, ordinal: 0, act });
            }
        }
    }
    out
}

/// The i-th and j-th single fault together; a second fault on the same datagram class hits its retransmission.
pub fn pair_of(singles: &[Fault], i: usize, j: usize) -> Vec<Fault> {
    let a = singles[i].clone();
    let mut b = singles[j].clone();
    if a.client == b.client && a.class == b.class {
        b.ordinal = 1;
    }
    vec![a, b]
}

// ------------------------------------------------------------------------------------------ re-fragmentation

#[derive(Clone, Debug)]
pub struct RefragSpec {
    pub cuts: Vec<u16>,
    pub order: Vec<u8>,
    pub coalesce: bool,
}

fn record_bytes(ct: u8, ver: (u8, u8), epoch: u16, seq: u64, body: &[u8]) -> Vec<u8> {
    let mut v = vec![ct, ver.0, ver.1];
    v.extend_from_slice(&epoch.to_be_bytes());
    v.extend_from_slice(&seq.to_be_bytes()[2..8]);
    v.extend_from_slice(&(body.len() as u16).to_be_bytes());
    v.extend_from_slice(body);
    v
}

fn u24(n: usize) -> [u8; 3] {
    [(n >> 16) as u8, (n >> 8) as u8, n as u8]
}

/// Split an epoch-0, unfragmented handshake record into fragments. Returns None when the datagram is not
/// of that shape (then it is passed through unchanged). `next_seq` hands out fresh record sequence numbers.
pub fn refragment(spec: &RefragSpec, dgram: &[u8], next_seq: &mut dyn FnMut() -> u64) -> Option<(Vec<Bytes>, &'static str, usize)> {
    let recs = wire::dtls_records(dgram);
    if recs.len() != 1 || recs[0].offset != 0 || 13 + recs[0].body.len() != dgram.len() {
        return None;
    }
    let r = &recs[0];
    if r.content_type != 22 || r.epoch != 0 {
        return None;
    }
    let h = wire::hs_header(&r.body)?;
    let body = &r.body[12..];
    if h.frag_off != 0 || h.frag_len != h.length || body.len() != h.length as usize || body.len() < 2 {
        return None;
    }
    let len = body.len();
    let mut cuts: Vec<usize> = spec.cuts.iter().map(|c| pick(*c, len - 1) + 1).collect();
    cuts.sort();
    cuts.dedup();
    let mut bounds = vec![0usize];
    bounds.extend(cuts);
    bounds.push(len);
    let n = bounds.len() - 1;
    let frag = |i: usize, seq: u64| -> Vec<u8> {
        let (lo, hi) = (bounds[i], bounds[i + 1]);
        let mut hs = vec![h.msg_type];
        hs.extend_from_slice(&u24(len));
        hs.extend_from_slice(&h.message_seq.to_be_bytes());
        hs.extend_from_slice(&u24(lo));
        hs.extend_from_slice(&u24(hi - lo));
        hs.extend_from_slice(&body[lo..hi]);
        record_bytes(22, r.version, 0, seq, &hs)
    };
    let seq = effective_order(&spec.order, n);
    let kind = refrag_kind(&spec.order, n);
    let mut out: Vec<Bytes> = Vec::new();
    let mut all = Vec::new();
    for i in seq {
        let rec = frag(i, next_seq());
        if spec.coalesce {
            all.extend_from_slice(&rec);
        } else {
            out.push(Bytes::from(rec));
        }
    }
    if spec.coalesce {
        out.push(Bytes::from(all));
    }
    Some((out, kind, n))
}

/// Reassemble fragments produced by `refragment` (self-check of the generator: offset-aware, RFC 6347 4.2.3).
pub fn reassemble(dgrams: &[Bytes]) -> Option<Vec<u8>> {
    let mut total: Option<usize> = None;
    let mut buf: Vec<Option<u8>> = Vec::new();
    let mut head: Vec<u8> = Vec::new();
    for d in dgrams {
        for r in wire::dtls_records(d) {
            let h = wire::hs_header(&r.body)?;
            let t = h.length as usize;
            if total.is_none() {
                total = Some(t);
                buf = vec![None; t];
                head = vec![h.msg_type];
                head.extend_from_slice(&u24(t));
                head.extend_from_slice(&h.message_seq.to_be_bytes());
                head.extend_from_slice(&u24(0));
                head.extend_from_slice(&u24(t));
            }
            if total != Some(t) || h.frag_off as usize + h.frag_len as usize > t || r.body.len() != 12 + h.frag_len as usize {
                return None;
            }
            for (k, b) in r.body[12..].iter().enumerate() {
                buf[h.frag_off as usize + k] = Some(*b);
            }
        }
    }
    let mut out = head;
    for b in buf {
        out.push(b?);
    }
    Some(out)
}

// ------------------------------------------------------------------------------------------ own PRF

fn p_sha256(secret: &[u8], label: &[u8], seed: &[u8], n: usize) -> Vec<u8> {
    let mac = |parts: &[&[u8]]| -> Vec<u8> {
        let mut m = <Hmac<Sha256> as hmac::digest::KeyInit>::new_from_slice(secret).expect("hmac key");
        for p in parts {
            m.update(p);
        }
        m.finalize().into_bytes().to_vec()
    };
    let ls = [label, seed].concat();
    let mut a = mac(&[&ls]);
    let mut out = Vec::new();
    while out.len() < n {
        out.extend_from_slice(&mac(&[&a, &ls]));
        a = mac(&[&a]);
    }
    out.truncate(n);
    out
}

// ------------------------------------------------------------------------------------------ running one case

#[derive(Debug)]
pub struct Outcome {
    /// time (ms since start) at which [client, server] was first seen Connected
    pub t_conn: [Option<f64>; 2],
    pub final_state: [&'static str; 2],
    pub both_ms: Option<f64>,
    /// end of the last fault effect, ms since start (clipped to >= 0)
    pub last_fault_ms: f64,
    pub end_ms: f64,
    pub fired: Vec<bool>,
    /// captured datagrams per (client?, class)
    pub counts: Vec<(bool, DClass, u16)>,
    pub retransmissions: u32,
    /// (rule index, kind, fragments) for each executed re-fragmentation
    pub refrag_log: Vec<(usize, &'static str, usize)>,
    /// rules whose datagram was not an unfragmented epoch-0 handshake record (delivered unchanged)
    pub refrag_passthrough: Vec<usize>,
    pub refrag_selfcheck: Check,
    /// datagrams with more than one record handed to an endpoint / to an endpoint that was Connected
    pub multi_delivered: u32,
    pub multi_to_connected: u32,
    /// flights whose records were re-ordered inside the datagram
    pub reordered_flights: u32,
    pub safety: Check,
    pub app: Check,
    pub trace: String,
}

fn hexs(b: &[u8]) -> String {
    crate::engine::hex(&b[..b.len().min(8)])
}

/// The key-agreement oracle.
pub fn compare_states(c: &DtlsState, s: &DtlsState, cl: &DtlsTransport, sv: &DtlsTransport) -> Check {
    let (DtlsState::Connected(kc, pc), DtlsState::Connected(ks, ps)) = (c, s) else {
        return Ok(());
    };
    let (a, b) = (&kc.keys, &ks.keys);
    let fields: [(&str, &Vec<u8>, &Vec<u8>, usize); 7] = [
        ("master_secret", &a.master_secret, &b.master_secret, 48),
        ("client_write_key", &a.client_write_key, &b.client_write_key, 16),
        ("server_write_key", &a.server_write_key, &b.server_write_key, 16),
        ("client_write_iv", &a.client_write_iv, &b.client_write_iv, 4),
        ("server_write_iv", &a.server_write_iv, &b.server_write_iv, 4),
        ("client_random", &a.client_random, &b.client_random, 32),
        ("server_random", &a.server_random, &b.server_random, 32),
    ];
    for (name, x, y, len) in fields {
        if x != y {
            return Err(Fail::new(
                format!("keys-differ:{name}"),
                format!("both sides Connected but {name} differs: client {}.. vs server {}..", hexs(x), hexs(y)),
            ));
        }
        if x.len() != len {
            return Err(Fail::new(format!("key-length:{name}"), format!("{name} has {} bytes, expected {len}", x.len())));
        }
    }
    if pc != ps {
        return Err(Fail::new("srtp-profile-differs", format!("SRTP profile client {:?} vs server {:?}", pc, ps)));
    }
    let ec = cl.export_keying_material("EXTRACTOR-dtls_srtp", 60);
    let es = sv.export_keying_material("EXTRACTOR-dtls_srtp", 60);
    match (ec, es) {
        (Ok(x), Ok(y)) => {
            if x != y {
                return Err(Fail::new("exporter-differs", format!("exported keying material differs: {}.. vs {}..", hexs(&x), hexs(&y))));
            }
            // independent recomputation (RFC 5705 without context, RFC 5246 key expansion)
            let seed = [a.client_random.as_slice(), a.server_random.as_slice()].concat();
            let own = p_sha256(&a.master_secret, b"EXTRACTOR-dtls_srtp", &seed, 60);
            if own != x {
                return Err(Fail::new("exporter-not-rfc5705", format!("exporter {}.. is not PRF(master, label, cr+sr) = {}..", hexs(&x), hexs(&own))));
            }
            let seed2 = [a.server_random.as_slice(), a.client_random.as_slice()].concat();
            let kb = p_sha256(&a.master_secret, b"key expansion", &seed2, 40);
            if kb[0..16] != a.client_write_key[..] || kb[16..32] != a.server_write_key[..] || kb[32..36] != a.client_write_iv[..] || kb[36..40] != a.server_write_iv[..] {
                return Err(Fail::new("key-block-not-rfc5246", "record keys are not the RFC 5246 key expansion of the master secret".to_string()));
            }
        }
        (x, y) => {
            return Err(Fail::new(
                "exporter-unavailable",
                format!("export_keying_material failed on a Connected side: client ok={} server ok={}", x.is_ok(), y.is_ok()),
            ));
        }
    }
    Ok(())
}

fn to_action(a: &Act, t: Duration, k: usize) -> Action {
    let ms = |pct: u16| ((t.as_millis() as u64 * pct as u64) / 100).min(60_000) as u16;
    match a {
        Act::Drop => Action::Drop,
        Act::Dup { copies, gap_pct } => Action::Dup { copies: *copies, gap_ms: ms(*gap_pct) },
        Act::Delay { pct } => Action::Delay { ms: ms(*pct) },
        Act::Swap { count, max_pct } => Action::HoldBack { count: *count, max_ms: ms(*max_pct) },
        Act::Refrag { .. } => Action::Custom(k as u8),
    }
}

fn side_of(client: bool, a_is_client: bool) -> Side {
    if client == a_is_client { Side::A } else { Side::B }
}

const HS_CLASSES: [DClass; 11] = [
    DClass::ClientHello,
    DClass::HelloVerifyRequest,
    DClass::ServerHello,
    DClass::Certificate,
    DClass::ServerKeyExchange,
    DClass::ServerHelloDone,
    DClass::ClientKeyExchange,
    DClass::ChangeCipherSpec,
    DClass::Finished,
    DClass::OtherHandshake,
    DClass::Alert,
];

fn terminal(s: &DtlsState) -> bool {
    matches!(s, DtlsState::Connected(..) | DtlsState::Failed | DtlsState::Closed)
}

pub async fn run_case(c: &Case) -> anyhow::Result<Outcome> {
    // a Custom rule can (very rarely) be reached before the hook below is installed; such a run is repeated
    for _attempt in 0..4 {
        let o = run_case_once(c).await?;
        let raced = c
            .faults
            .iter()
            .enumerate()
            .any(|(i, f)| matches!(f.act, Act::Refrag { .. }) && o.fired[i] && !o.refrag_log.iter().any(|l| l.0 == i) && !o.refrag_passthrough.contains(&i));
        if !raced {
            return Ok(o);
        }
    }
    anyhow::bail!("re-fragmentation hook lost the start race four times")
}

async fn run_case_once(c: &Case) -> anyhow::Result<Outcome> {
    let t = c.timers.interval();
    let rules: Vec<Rule<DClass>> = c
        .faults
        .iter()
        .enumerate()
        .map(|(i, f)| Rule { from: side_of(f.client, c.a_is_client), class: f.class, ordinal: f.ordinal, action: to_action(&f.act, t, i) })
        .collect();
    let specs: Vec<Option<RefragSpec>> = c
        .faults
        .iter()
        .map(|f| match &f.act {
            Act::Refrag { cuts, order, coalesce } => Some(RefragSpec { cuts: cuts.clone(), order: order.clone(), coalesce: *coalesce }),
            _ => None,
        })
        .collect();
    let mut spec = PairSpec::plain();
    spec.dgram_rules = rules;
    spec.dtls_timers = c.timers.spec();
    spec.a_is_client = c.a_is_client;
    spec.sctp = None;
    let start = Instant::now();
    let mut extras = Extras::default();
    if let Some(rg) = &c.regroup {
        let (cl, sv) = (rg.client.clone(), rg.server.clone());
        if c.a_is_client {
            (extras.regroup_a, extras.regroup_b) = (cl, sv);
        } else {
            (extras.regroup_a, extras.regroup_b) = (sv, cl);
        }
    }
    let mut pair = Pair::build_with(spec, extras).await?;

    let log: Arc<Mutex<Vec<(usize, &'static str, usize)>>> = Arc::new(Mutex::new(Vec::new()));
    let passthrough: Arc<Mutex<Vec<usize>>> = Arc::new(Mutex::new(Vec::new()));
    let selfcheck: Arc<Mutex<Check>> = Arc::new(Mutex::new(Ok(())));
    {
        // fresh record sequence numbers: far above anything the endpoints use during a handshake
        let ctr = Arc::new(AtomicU64::new(0x0000_4000_0000));
        let (log, passthrough, selfcheck) = (log.clone(), passthrough.clone(), selfcheck.clone());
        let f: CustomFn = Arc::new(move |k: u8, pkt: &Bytes| {
            let Some(Some(sp)) = specs.get(k as usize) else { return vec![pkt.clone()] };
            let mut next = || ctr.fetch_add(1, Ordering::Relaxed);
            match refragment(sp, pkt, &mut next) {
                Some((out, kind, n)) => {
                    log.lock().push((k as usize, kind, n));
                    // generator self-check: an offset-aware reassembly restores the original message
                    let orig = wire::dtls_records(pkt).first().map(|r| r.body.clone());
                    if reassemble(&out) != orig {
                        *selfcheck.lock() = Err(Fail::new("harness-refrag-selfcheck", "fragments do not reassemble to the original message".to_string()));
                    }
                    out
                }
                None => {
                    passthrough.lock().push(k as usize);
                    vec![pkt.clone()]
                }
            }
        });
        pair.dgram.lock().custom = Some(f);
    }

    let mut app_rx = [pair.a.app_rx.take(), pair.b.app_rx.take()];
    let (ci, si) = if c.a_is_client { (0usize, 1usize) } else { (1, 0) };
    let ends = [&pair.a, &pair.b];
    let dtls = [ends[ci].dtls.clone(), ends[si].dtls.clone()]; // [client, server]
    let mut rx = [dtls[0].subscribe_state(), dtls[1].subscribe_state()];
    let hard = c.timers.deadline() + Duration::from_millis(1500);
    let ms = |i: Instant| i.duration_since(start).as_secs_f64() * 1e3;

    let mut t_conn: [Option<f64>; 2] = [None, None];
    let mut safety: Check = Ok(());
    let mut both_at: Option<Instant> = None;
    let early: [&'static [u8]; 2] = [b"c11:early:from-client", b"c11:early:from-server"];
    let late: [&'static [u8]; 2] = [b"c11:late:from-client", b"c11:late:from-server"];
    let mut send_err: Option<String> = None;
    loop {
        let st = [dtls[0].get_state(), dtls[1].get_state()];
        rx[0].borrow_and_update();
        rx[1].borrow_and_update();
        let now = Instant::now();
        for i in 0..2 {
            if matches!(st[i], DtlsState::Connected(..)) && t_conn[i].is_none() {
                t_conn[i] = Some(ms(now));
                if let Err(e) = dtls[i].send(Bytes::from_static(early[i])).await {
                    send_err = Some(format!("early send by {}: {e}", role_name(i == 0)));
                }
            }
        }
        if let Err(f) = compare_states(&st[0], &st[1], &dtls[0], &dtls[1]) {
            safety = Err(f);
            break;
        }
        let both = matches!(st[0], DtlsState::Connected(..)) && matches!(st[1], DtlsState::Connected(..));
        if both {
            both_at = Some(now);
            break;
        }
        if terminal(&st[0]) && terminal(&st[1]) {
            break;
        }
        if now.duration_since(start) > hard {
            break;
        }
        let (r0, r1) = rx.split_at_mut(1);
        tokio::select! {
            _ = r0[0].changed() => {}
            _ = r1[0].changed() => {}
            _ = tokio::time::sleep(Duration::from_millis(20)) => {}
        }
    }

    // application data both ways once both are Connected
    let mut app: Check = Ok(());
    if both_at.is_some() && safety.is_ok() {
        for i in 0..2 {
            if let Err(e) = dtls[i].send(Bytes::from_static(late[i])).await {
                send_err = Some(format!("late send by {}: {e}", role_name(i == 0)));
            }
        }
        if let Some(e) = send_err {
            app = Err(Fail::new("appdata-send-failed", format!("dtls.send() on a Connected side failed: {e}")));
        } else {
            // receiver role r (0 = client) reads what role 1-r sent
            let limit = Instant::now() + Duration::from_secs(4).max(t * 4);
            for r in 0..2 {
                let idx = if r == 0 { ci } else { si };
                let want: [&[u8]; 2] = [early[1 - r], late[1 - r]];
                let mut got: Vec<Bytes> = Vec::new();
                let rxq = app_rx[idx].as_mut().expect("app_rx");
                while !want.iter().all(|w| got.iter().any(|g| g.as_ref() == *w)) {
                    let left = limit.saturating_duration_since(Instant::now());
                    if left.is_zero() {
                        break;
                    }
                    match tokio::time::timeout(left, rxq.recv()).await {
                        Ok(Some(b)) => got.push(b),
                        _ => break,
                    }
                }
                for g in &got {
                    if !want.iter().any(|w| g.as_ref() == *w) {
                        app = Err(Fail::new("appdata-altered", format!("{} read {} bytes that nobody sent: {:?}", role_name(r == 0), g.len(), &g[..g.len().min(40)])));
                    }
                }
                for w in want {
                    if app.is_ok() && !got.iter().any(|g| g.as_ref() == w) {
                        app = Err(Fail::timing(
                            "appdata-not-readable",
                            format!(
                                "both sides Connected, but {} never read {:?} sent by its peer with dtls.send() (read {} messages)",
                                role_name(r == 0),
                                String::from_utf8_lossy(w),
                                got.len()
                            ),
                        ));
                    }
                }
            }
        }
        // a last look at the keys after traffic
        let st = [dtls[0].get_state(), dtls[1].get_state()];
        if let Err(f) = compare_states(&st[0], &st[1], &dtls[0], &dtls[1]) {
            safety = Err(f);
        }
    }

    let end = Instant::now();
    let st = [dtls[0].get_state(), dtls[1].get_state()];
    let g = pair.dgram.lock();
    let last_fault_ms = g.last_fault.map(|lf| if lf > start { lf.duration_since(start).as_secs_f64() * 1e3 } else { 0.0 }).unwrap_or(0.0);
    let mut counts = Vec::new();
    let mut retransmissions = 0u32;
    for client in [true, false] {
        for class in HS_CLASSES {
            let n = g.count_of(side_of(client, c.a_is_client), class);
            if n > 0 {
                counts.push((client, class, n));
            }
            if n > 1 && class != DClass::Alert {
                retransmissions += (n - 1) as u32;
            }
        }
    }
    let t0 = g.t0;
    let off = if t0 > start { t0.duration_since(start).as_secs_f64() * 1e3 } else { 0.0 };
    let mut trace = String::new();
    for (n, e) in g.trace.iter().enumerate() {
        if n >= 70 {
            trace.push_str(" ...");
            break;
        }
        let who = if (e.from == Side::A) == c.a_is_client { "C" } else { "S" };
        let ph = match e.phase {
            Phase::Captured => "tx",
            Phase::Delivered => "dl",
        };
        trace.push_str(&format!(" {:.0}:{}{}:{:?}", e.t_us as f64 / 1e3 + off, who, ph, e.class));
        if let Some(a) = &e.action {
            trace.push_str(&format!("[{}]", match a {
                Action::Drop => "DROP".to_string(),
                Action::Dup { copies, gap_ms } => format!("DUPx{copies}/{gap_ms}ms"),
                Action::Delay { ms } => format!("DELAY{ms}ms"),
                Action::HoldBack { count, max_ms } => format!("HOLD{count}/{max_ms}ms"),
                Action::Custom(k) => format!("REFRAG#{k}"),
                Action::Mutate(_) => "MUT".to_string(),
            }));
        }
    }
    if !passthrough.lock().is_empty() {
        trace.push_str(" (refrag passthrough)");
    }
    let fired = g.fired.clone();
    drop(g);
    let (multi_delivered, multi_to_connected) = {
        let m = pair.multi_rx.lock();
        (m.len() as u32, m.iter().filter(|m| m.to_connected).count() as u32)
    };
    let reordered_flights: u32 = pair.regroup_log.iter().map(|l| l.lock().reordered_flights).sum();
    let out = Outcome {
        t_conn,
        final_state: [state_name(&st[0]), state_name(&st[1])],
        both_ms: both_at.map(ms),
        last_fault_ms,
        end_ms: ms(end),
        fired,
        counts,
        retransmissions,
        refrag_log: log.lock().clone(),
        refrag_passthrough: passthrough.lock().clone(),
        refrag_selfcheck: selfcheck.lock().clone(),
        multi_delivered,
        multi_to_connected,
        reordered_flights,
        safety,
        app,
        trace,
    };
    for d in &dtls {
        d.close();
    }
    drop(pair);
    Ok(out)
}

// ------------------------------------------------------------------------------------------ judging

/// Signatures `no-convergence:<kind>(<role>,<class>)` present in known_findings.json.
pub type Known = Arc<HashSet<String>>;

pub fn all_fault_kinds() -> Vec<String> {
    let mut v = Vec::new();
    for (client, class) in datagrams() {
        for k in ["drop", "dup", "late", "refrag", "refrag-dup", "refrag-reorder"] {
            v.push(format!("{}({},{:?})", k, role_name(client), class));
        }
    }
    v
}

pub fn known_set(ctx: &Ctx) -> Known {
    let mut s = HashSet::new();
    for k in all_fault_kinds() {
        let sig = format!("no-convergence:{k}");
        if ctx.is_known(&sig) {
            s.insert(sig);
        }
    }
    Arc::new(s)
}

/// Kinds of the faults that actually fired (re-fragmentations by what was really delivered).
pub fn fired_kinds(c: &Case, o: &Outcome) -> BTreeSet<String> {
    let mut s = BTreeSet::new();
    for (i, f) in c.faults.iter().enumerate() {
        if !o.fired.get(i).copied().unwrap_or(false) {
            continue;
        }
        let kind = match &f.act {
            Act::Refrag { .. } => match o.refrag_log.iter().find(|l| l.0 == i) {
                Some(l) => l.1,
                None => continue, // passed through unchanged
            },
            a => act_kind(a),
        };
        s.insert(format!("{}({},{:?})", kind, role_name(f.client), f.class));
    }
    s
}

pub fn judge(c: &Case, o: &Outcome, rec: &CaseRec, known: &Known) -> Check {
    let kinds = fired_kinds(c, o);
    let touched_key_dgram = c.faults.iter().enumerate().any(|(i, f)| {
        o.fired.get(i).copied().unwrap_or(false) && matches!(f.class, DClass::Finished | DClass::ChangeCipherSpec | DClass::Certificate)
    });
    rec.set_nontrivial(touched_key_dgram || o.retransmissions >= 1);
    rec.label(format!("timers={}", c.timers.name()));
    rec.label(format!("faults-fired={}", kinds.len().min(6)));
    for k in &kinds {
        rec.label(format!("fired:{k}"));
    }
    if o.retransmissions >= 1 {
        rec.label("retransmission>=1");
    }
    if o.retransmissions >= 3 {
        rec.label("retransmission>=3");
    }
    if !c.a_is_client {
        rec.label("roles-swapped");
    }
    if c.regroup.is_some() {
        rec.label("regrouped");
    }
    if o.multi_delivered > 0 {
        rec.label("multi-record-datagram-delivered");
    }
    if o.multi_to_connected > 0 {
        rec.label("multi-record-datagram-to-Connected-endpoint");
    }
    if o.reordered_flights > 0 {
        rec.label("records-reordered-inside-datagram");
    }
    rec.label(format!("outcome:client={},server={}", o.final_state[0], o.final_state[1]));

    o.refrag_selfcheck.clone()?;
    o.safety.clone()?;
    let t = c.timers.interval().as_secs_f64() * 1e3;
    let describe = || {
        format!(
            "timers {}; regroup {:?} ({} multi-record datagrams delivered, {} of them to a Connected endpoint); plan {:?}; fired kinds {:?}; client {} (Connected at {:?} ms), server {} (Connected at {:?} ms); last fault effect at {:.0} ms, observation ended at {:.0} ms; {} retransmitted datagrams; datagram counts {:?}; trace (ms:role tx|dl:class):{}",
            c.timers.name(),
            c.regroup,
            o.multi_delivered,
            o.multi_to_connected,
            c.faults,
            kinds,
            o.final_state[0],
            o.t_conn[0].map(|x| x.round()),
            o.final_state[1],
            o.t_conn[1].map(|x| x.round()),
            o.last_fault_ms,
            o.end_ms,
            o.retransmissions,
            o.counts,
            o.trace
        )
    };
    // a re-grouped run names the re-grouping in its signature (datagram classes mean "first record" there)
    let rg = match &c.regroup {
        None => String::new(),
        Some(r) => {
            let d = |s: &Option<RegroupSpec>| match s {
                None => "as-sent".to_string(),
                Some(s) => format!(
                    "{}{}",
                    if s.order.is_empty() || s.reorder_first == 0 { "merged" } else { "merged-reordered" },
                    if s.split > 0 { "-split" } else { "" }
                ),
            };
            format!("@regroup(client={},server={})", d(&r.client), d(&r.server))
        }
    };
    let keyed = |prefix: &str| -> (String, bool) {
        // attribute to a known culprit if one fired, else name everything that fired
        if let Some(k) = kinds.iter().find(|k| known.contains(&format!("no-convergence:{k}{rg}"))) {
            (format!("{prefix}:{k}{rg}"), true)
        } else if kinds.is_empty() {
            (format!("{prefix}:no-fault{rg}"), false)
        } else {
            (format!("{prefix}:{}{rg}", kinds.iter().cloned().collect::<Vec<_>>().join("+")), false)
        }
    };
    if std::env::var("C11_DEBUG").is_ok() {
        eprintln!("[c11] {}", describe());
    }
    match o.both_ms {
        Some(both) => {
            o.app.clone()?;
            let since = o.last_fault_ms.min(both);
            let took = both - since;
            if took > 10.0 * t {
                let (sig, _) = keyed("slow-convergence");
                return Err(Fail::timing(
                    sig,
                    format!("both sides Connected only {:.0} ms (> 10 retransmission intervals = {:.0} ms) after the last fault effect; {}", took, 10.0 * t, describe()),
                ));
            }
            rec.label(format!("converged-within-intervals<={}", ((took / t).ceil() as u32).min(10)));
            Ok(())
        }
        None => {
            let (sig, is_known_culprit) = keyed("no-convergence");
            let msg = format!(
                "the network delivered every retransmission after the last fault, yet the handshake did not converge before the deadline ({} s): {}",
                c.timers.deadline().as_secs(),
                describe()
            );
            // A known culprit is a deterministic deadlock (established with the re-run rule when it was first found):
            // do not spend three solo runs of a full deadline on each of its occurrences.
            if is_known_culprit { Err(Fail::new(sig, msg)) } else { Err(Fail::timing(sig, msg)) }
        }
    }
}

pub fn checker(known: Known) -> AsyncCheck<Case> {
    Arc::new(move |c: Case| {
        let known = known.clone();
        Box::pin(async move {
            let rec = CaseRec::default();
            let res = match run_case(&c).await {
                Ok(o) => judge(&c, &o, &rec, &known),
                Err(e) => Err(Fail::new("harness-error", format!("rig failed: {e}"))),
            };
            (rec, res)
        })
    })
}

// ------------------------------------------------------------------------------------------ batch runner for enumerated cases

/// Run explicit cases `conc` at a time; timing failures are re-run alone three times (rule 2.6); a failing
/// multi-fault plan is reduced greedily (drop faults while the signature stays).
pub fn run_batch(ctx: &Ctx, rt: &tokio::runtime::Runtime, sub: &str, cases: Vec<Case>, conc: usize, chk: &AsyncCheck<Case>) {
    let solo = |c: &Case| -> (CaseRec, Check) {
        let mut last = rt.block_on(chk(c.clone()));
        for _ in 0..2 {
            match &last.1 {
                Err(f) if f.timing => last = rt.block_on(chk(c.clone())),
                _ => break,
            }
        }
        last
    };
    if ctx.is_replay() {
        if let Some(c) = ctx.replay_case::<Case>(sub) {
            let (rec, res) = solo(&c);
            let v = serde_json::to_value(&c).unwrap();
            match ctx.record(sub, &v, &rec, &res) {
                Ok(()) => println!("replay: property={} sub={} PASS", ctx.prop, sub),
                Err(f) => ctx.violation(sub, &v, &f),
            }
        }
        return;
    }
    let mut all = ctx.regression_cases::<Case>(sub);
    all.extend(cases);
    let before = crate::engine::panics::count();
    let results: Vec<(CaseRec, Check)> = rt.block_on(async {
        let sem = Arc::new(tokio::sync::Semaphore::new(conc.max(1)));
        let mut hs = Vec::new();
        for (idx, c) in all.iter().cloned().enumerate() {
            let (sem, chk) = (sem.clone(), chk.clone());
            hs.push(tokio::spawn(async move {
                let _p = sem.acquire_owned().await.unwrap();
                let t = Instant::now();
                let r = chk(c).await;
                if crate::engine::progress() {
                    eprintln!(
                        "[{idx}] {:.2}s {}",
                        t.elapsed().as_secs_f64(),
                        match &r.1 {
                            Ok(()) => "ok".to_string(),
                            Err(f) => format!("FAIL {} timing={}", f.signature, f.timing),
                        }
                    );
                }
                r
            }));
        }
        let mut out = Vec::new();
        for h in hs {
            out.push(h.await.unwrap_or_else(|e| (CaseRec::default(), Err(Fail::new("harness-task-panic", format!("case task failed: {e}"))))));
        }
        out
    });
    let stray = crate::engine::panics::since(before);
    let mut reported = 0;
    for (c, (rec, res)) in all.iter().zip(results) {
        let v = serde_json::to_value(c).unwrap();
        if reported >= 3 && res.is_err() {
            // enough confirmed violations in this batch: do not spend solo re-runs on the rest
            continue;
        }
        let (rec, res) = match res {
            Err(f) if f.timing || f.signature == "harness-task-panic" => {
                let (r2, res2) = solo(c);
                if res2.is_ok() {
                    rec.inconclusive_timing();
                    (rec, res2)
                } else {
                    (r2, res2)
                }
            }
            r => (rec, r),
        };
        if let Err(f) = ctx.record(sub, &v, &rec, &res) {
            reported += 1;
            // greedy reduction
            let mut best = c.clone();
            let mut bf = f.clone();
            let mut i = 0;
            while best.faults.len() > 1 && i < best.faults.len() {
                let mut cand = best.clone();
                cand.faults.remove(i);
                match solo(&cand).1 {
                    Err(f2) if f2.signature.split(':').next() == bf.signature.split(':').next() && !ctx.is_known(&f2.signature) => {
                        best = cand;
                        bf = f2;
                    }
                    _ => i += 1,
                }
            }
            ctx.violation(sub, &serde_json::to_value(&best).unwrap(), &bf);
        }
    }
    if let Some((loc, msg)) = stray.first() {
        let f = Fail::new(format!("panic@{loc}"), format!("panic in a background task during batch {sub}: {msg}"));
        if ctx.is_known(&f.signature) {
            ctx.note_excluded(&f.signature, 1);
        } else {
            ctx.violation(sub, &serde_json::json!({"note": "unattributed panic; re-run the batch"}), &f);
        }
    }
}

// ------------------------------------------------------------------------------------------ generators

fn refrag_strategy() -> impl Strategy<Value = Act> {
    let cut = prop_oneof![
        2 => Just(0u16),
        2 => Just(65535u16),
        3 => prop::sample::select(vec![8192u16, 16384, 21845, 32768, 43690, 49152, 57344]),
        3 => any::<u16>(),
    ];
    (prop::collection::vec(cut, 1..=3), any::<bool>(), 0..6u8, any::<u16>(), any::<u16>()).prop_map(|(cuts, coalesce, mode, x, y)| {
        let mut c = cuts.clone();
        c.sort();
        c.dedup();
        let n = c.len() + 1;
        let base: Vec<u8> = (0..n as u8).collect();
        let order = match mode {
            // in order (legal re-fragmentation only)
            0 | 1 => base,
            // one fragment duplicated somewhere
            2 => {
                let mut o = base;
                let which = o[pick(x, n)];
                o.insert(pick(y, n + 1), which);
                o
            }
            // two fragments swapped
            3 => {
                let mut o = base;
                let i = pick(x, n);
                let j = (i + 1 + pick(y, n - 1)) % n;
                o.swap(i, j);
                o
            }
            // reversed
            4 => base.into_iter().rev().collect(),
            // every fragment twice (burst duplication), then rotated
            _ => {
                let mut o: Vec<u8> = base.iter().flat_map(|i| [*i, *i]).collect();
                let k = pick(x, o.len());
                o.rotate_left(k * (y as usize & 1));
                o
            }
        };
        Act::Refrag { cuts, order, coalesce }
    })
}

fn basic_act_strategy() -> impl Strategy<Value = Act> {
    prop_oneof![
        5 => Just(Act::Drop),
        2 => (1..=2u8, prop_oneof![Just(0u16), Just(50), Just(150), 0..300u16]).prop_map(|(copies, gap_pct)| Act::Dup { copies, gap_pct }),
        2 => prop_oneof![Just(30u16), Just(99), Just(101), Just(150), 1..320u16].prop_map(|pct| Act::Delay { pct }),
        2 => (1..=3u8, prop_oneof![Just(250u16), 20..300u16]).prop_map(|(count, max_pct)| Act::Swap { count, max_pct }),
    ]
}

fn fault_strategy() -> impl Strategy<Value = Fault> {
    let dg = datagrams();
    (prop::sample::select(dg), prop_oneof![6 => Just(0u16), 3 => Just(1u16), 1 => Just(2u16)], basic_act_strategy(), refrag_strategy(), prop::bool::weighted(0.4)).prop_map(
        |((client, class), ordinal, basic, refrag, want_refrag)| Fault {
            client,
            class,
            ordinal,
            act: if want_refrag && refraggable(class) { refrag } else { basic },
        },
    )
}

/// Replace a fault whose kind is a known non-converging culprit by a harmless relative (construction, not filtering).
fn steer_away(mut f: Fault, known: &Known) -> Fault {
    for _ in 0..3 {
        if !known.contains(&format!("no-convergence:{}", fault_kind(&f))) {
            break;
        }
        f.act = match &f.act {
            Act::Drop => Act::Delay { pct: 150 },
            Act::Refrag { cuts, coalesce, .. } => {
                let n = cuts.len() as u8 + 1;
                Act::Refrag { cuts: cuts.clone(), order: (0..n).collect(), coalesce: *coalesce }
            }
            Act::Delay { .. } | Act::Swap { .. } => Act::Dup { copies: 1, gap_pct: 0 },
            Act::Dup { .. } => Act::Delay { pct: 30 },
        };
    }
    f
}

/// 3-10 faults; with a concentration on repeated drops of one flight. `steer`: keep clear of known culprits.
fn random_strategy(known: Known, steer_weight: f64) -> impl Strategy<Value = (Case, bool)> {
    let repeated = (prop::sample::select(datagrams()), 2..=5u16).prop_map(|((client, class), n)| {
        (0..n).map(|ordinal| Fault { client, class, ordinal, act: Act::Drop }).collect::<Vec<_>>()
    });
    (
        prop::collection::vec(fault_strategy(), 1..=10),
        prop::option::weighted(0.35, repeated),
        any::<bool>(),
        prop::bool::weighted(steer_weight),
    )
        .prop_map(move |(mut faults, rep, a_is_client, steer)| {
            if let Some(r) = rep {
                faults.extend(r);
            }
            while faults.len() < 3 {
                let f = faults[0].clone();
                faults.push(Fault { ordinal: f.ordinal + faults.len() as u16, ..f });
            }
            faults.truncate(10);
            if steer {
                faults = faults.into_iter().map(|f| steer_away(f, &known)).collect();
            }
            (Case { faults, a_is_client, timers: Timers::Fast, regroup: None }, steer)
        })
}

fn rspec(order: &[u8], reorder_first: u8, split: u8) -> Option<RegroupSpec> {
    Some(RegroupSpec { order: order.to_vec(), reorder_first, split })
}

/// Re-groupings of the enumerated `coalesced` sub-check.
pub fn regroup_modes() -> Vec<Regrouping> {
    let both = |s: Option<RegroupSpec>| Regrouping { client: s.clone(), server: s };
    vec![
        // every flight in one datagram, as webrtc-rs / pion / OpenSSL send them
        both(rspec(&[], 0, 0)),
        Regrouping { client: rspec(&[], 0, 0), server: None },
        Regrouping { client: None, server: rspec(&[], 0, 0) },
        // first transmission with the records reversed inside the datagram
        both(rspec(&[3, 2, 1, 0], 1, 0)),
        // first two transmissions rotated by one record
        both(rspec(&[1, 2, 3, 0], 2, 0)),
        // merged, then split again after the first / second record
        both(rspec(&[], 0, 1)),
        both(rspec(&[], 0, 2)),
    ]
}

/// Fault plans of the enumerated `coalesced` sub-check for one re-grouping: nothing, every basic action on every
/// datagram class (a class addresses the datagram whose FIRST record has it), and the same class dropped twice.
fn coalesced_cases(rg: &Regrouping, a_is_client: bool) -> Vec<Case> {
    let mk = |faults: Vec<Fault>| Case { faults, a_is_client, timers: Timers::Fast, regroup: Some(rg.clone()) };
    let mut out = vec![mk(vec![])];
    for (client, class) in datagrams() {
        for act in basic_acts() {
            out.push(mk(vec![Fault { client, class, ordinal: 0, act }]));
        }
        out.push(mk((0..2).map(|ordinal| Fault { client, class, ordinal, act: Act::Drop }).collect()));
    }
    // the server's final flight is lost and so is the first retransmission of the client's flight
    out.push(mk(vec![
        Fault { client: false, class: DClass::ChangeCipherSpec, ordinal: 0, act: Act::Drop },
        Fault { client: true, class: DClass::ClientKeyExchange, ordinal: 1, act: Act::Drop },
    ]));
    out
}

fn regroup_strategy() -> impl Strategy<Value = Regrouping> {
    let spec = (
        prop_oneof![3 => Just(Vec::<u8>::new()), 2 => Just(vec![0u8, 1, 2, 3]).prop_shuffle(), 1 => Just(vec![3u8, 2, 1, 0])],
        0..=2u8,
        prop_oneof![3 => Just(0u8), 1 => 1..=3u8],
    )
        .prop_map(|(order, reorder_first, split)| RegroupSpec { order, reorder_first, split });
    (prop::option::weighted(0.8, spec.clone()), prop::option::weighted(0.8, spec)).prop_map(|(client, server)| {
        if client.is_none() && server.is_none() {
            let d = rspec(&[], 0, 0);
            Regrouping { client: d.clone(), server: d }
        } else {
            Regrouping { client, server }
        }
    })
}

/// 1-6 basic faults (ordinals 0-2) on top of a random re-grouping.
fn coalesced_random_strategy() -> impl Strategy<Value = Case> {
    let f = (prop::sample::select(datagrams()), prop_oneof![5 => Just(0u16), 3 => Just(1u16), 1 => Just(2u16)], basic_act_strategy()).prop_map(|((client, class), ordinal, act)| Fault {
        client,
        class,
        ordinal,
        act,
    });
    (regroup_strategy(), prop::collection::vec(f, 1..=6), any::<bool>()).prop_map(|(rg, faults, a_is_client)| Case { faults, a_is_client, timers: Timers::Fast, regroup: Some(rg) })
}

fn pair_strategy(singles: Arc<Vec<Fault>>) -> impl Strategy<Value = Case> {
    let n = singles.len();
    (0..n, 0..n, any::<bool>()).prop_map(move |(i, j, a_is_client)| Case { faults: pair_of(&singles, i.min(j), i.max(j)), a_is_client, timers: Timers::Fast, regroup: None })
}

// ------------------------------------------------------------------------------------------ entry point

pub fn run(ctx: &mut Ctx) {
    ctx.level = "fault_enumeration";
    ctx.rule = "fault plans over the handshake datagrams of two real rustrtc endpoints (one record per datagram, addressed by sender role x class {ClientHello, ServerHello, Certificate, ServerKeyExchange, ServerHelloDone, ClientKeyExchange, ChangeCipherSpec, Finished} x ordinal): 'single' = every single fault {drop, dup, dup spaced 1.5 T, delay 0.3 T, delay 1.5 T, swap-with-next, 7 re-fragmentations (2-3 fragments: in order, coalesced, 1-byte edge fragments, reversed, middle swapped, first duplicated, middle duplicated)} on each of the 10 datagrams; 'pair' = pairs of those (all in thorough, seeded sample in quick; a second fault on the same class hits the retransmission); 'random' = 3-10 faults incl. repeated drops of one flight and random re-fragmentation (half of the plans steer clear of known non-converging fault kinds); 'coalesced' = 7 re-groupings of each sender's records into datagrams (net::coalesce: every flight merged into one datagram on both / one side, records reversed or rotated inside the datagram on the first transmissions, merged flight split again after 1 or 2 records) x {no fault, 6 basic actions on each datagram class (= first record), the same class dropped twice, final flight + first retransmission of flight 5 dropped}; 'coalesced-random' = random re-grouping x 1-6 basic faults with ordinals 0-2; 'prod-timers' = single faults at the production 1 s / 30 s timers; 'interop-single' = rustrtc against the independent webrtc-rs dtls crate through a UDP proxy in both roles (cookie exchange with HelloVerifyRequest, datagrams un-bundled to one record each, every single fault incl. re-fragmentation, plus faults on webrtc-rs's natively fragmented Certificate at MTU 160); 'interop-bundled' = the reference's own layout (webrtc-rs packs a whole flight into one datagram, rustrtc one record) under every single whole-datagram fault (6 actions) on every flight in each direction, each datagram dropped twice, and rustrtc's final flight lost together with the reference's first retransmission, both role assignments; 'interop-random' = 1-4 faults, MTU 0/160/256/400, bundled or not (150 quick / 600 thorough). Labels 'multi-record-datagram-to-Connected-endpoint' / 'interop:multi-record-datagram-to-Connected-rustrtc' count the cases in which a datagram with several records reached an endpoint that was already Connected. Non-trivial = a fired fault touched a datagram carrying Finished/ChangeCipherSpec/Certificate or the run saw >= 1 retransmitted handshake datagram; distinct by case digest.".into();
    ctx.assumptions = vec![
        "faults are finite plans (each rule fires once), so the network eventually delivers retransmitted flights; application-data datagrams are never faulted".into(),
        "re-grouping is something a sender may do (RFC 6347 4.1.1: several records per datagram, in any order the sender likes); a re-ordering inside the datagram is applied to the first one or two transmissions of a flight only, later transmissions are merged in the order sent - a peer that persistently sends Finished ahead of ClientKeyExchange is not 'eventually delivering'".into(),
        "timer scale per case is recorded in the case ('timers'): Fast = hook H2 (60 ms retransmit, 6 s deadline), Prod = production (1 s, 30 s); the liveness bound is 10 retransmit intervals after the last fault effect, a miss counts only if it repeats in 3 solo runs (DESIGN 2.6); a plan containing a known non-converging fault kind is attributed to that finding without solo re-runs".into(),
        "fragments produced by the harness carry fresh epoch-0 record sequence numbers (0x40000000+) and are self-checked by an offset-aware reassembly".into(),
        "both endpoints verify the peer certificate fingerprint (as WebRTC does)".into(),
        "interop: webrtc-rs 0.17 leaves its handshake loop once finished and never re-sends its final flight, so dropping the webrtc-rs *server's* ChangeCipherSpec/Finished is not generated (reference limitation); epoch-0 records travelling towards webrtc-rs are renumbered increasingly at delivery so that its replay window only ever sees what a retransmitting sender could emit; interop timers: 100 ms retransmit on both sides, 8 s deadline".into(),
        "the exporter and key block are additionally required to equal the harness's own RFC 5705 / RFC 5246 PRF computation (grounded in the RFCs the statement's 'exported keying material' refers to), not merely to be identical on both sides".into(),
    ];
    let rt = tokio::runtime::Builder::new_multi_thread().worker_threads(16).enable_all().build().unwrap();
    let known = known_set(ctx);
    let chk = checker(known.clone());
    let singles = single_faults();
    // developer aid: C11_ONLY=single|pair|random|coalesced|prod|interop runs one part
    let only = std::env::var("C11_ONLY").ok();
    let want = |part: &str| only.as_deref().map(|o| o == part).unwrap_or(true);

    // 1. every single fault (plus the fault-free plan)
    if want("single") {
    let mut cases = vec![Case { faults: vec![], a_is_client: true, timers: Timers::Fast, regroup: None }];
    for f in &singles {
        cases.push(Case { faults: vec![f.clone()], a_is_client: true, timers: Timers::Fast, regroup: None });
    }
    if ctx.thorough() {
        for f in &singles {
            cases.push(Case { faults: vec![f.clone()], a_is_client: false, timers: Timers::Fast, regroup: None });
        }
    }
    ctx.set_extra("single_faults_enumerated", serde_json::json!(singles.len()));
    run_batch(ctx, &rt, "single", cases, 96, &chk);
    }

    let stop = |ctx: &Ctx| -> bool {
        if ctx.has_violation() && !ctx.is_replay() {
            println!("C11: violation reported - skipping the remaining sub-checks");
            true
        } else {
            false
        }
    };

    // 2. pairs
    if !want("pair") || stop(ctx) {
    } else if ctx.thorough() {
        let mut cases = Vec::new();
        for i in 0..singles.len() {
            for j in i..singles.len() {
                cases.push(Case { faults: pair_of(&singles, i, j), a_is_client: true, timers: Timers::Fast, regroup: None });
            }
        }
        ctx.set_extra("pairs_enumerated", serde_json::json!(cases.len()));
        run_batch(ctx, &rt, "pair", cases, 128, &chk);
    } else {
        ctx.sub_async(&rt, "pair", 600, 192, pair_strategy(Arc::new(singles.clone())), chk.clone());
    }

    // 3. random plans
    if want("random") && !stop(ctx) {
        let n = ctx.scale(400usize, 5000usize);
        let steer_weight = if known.is_empty() { 0.0 } else { 0.5 };
        let strat = random_strategy(known.clone(), steer_weight);
        if !ctx.is_replay() && !known.is_empty() {
            // count the plans that were steered away from each known culprit kind
            let steered = ctx.draw("random", n, &strat).iter().filter(|t| t.current().1).count() as u64;
            ctx.set_extra("random_plans_steered_clear_of_known_kinds", serde_json::json!(steered));
        }
        ctx.sub_async(&rt, "random", n, 192, strat.prop_map(|(c, _)| c), chk.clone());
    }

    // 3b. multi-record datagrams: every flight merged / re-ordered / re-split, combined with the datagram faults
    if want("coalesced") && !stop(ctx) {
        let mut cases = Vec::new();
        for rg in regroup_modes() {
            cases.extend(coalesced_cases(&rg, true));
            if ctx.thorough() {
                cases.extend(coalesced_cases(&rg, false));
            }
        }
        ctx.set_extra("coalesced_cases_enumerated", serde_json::json!(cases.len()));
        run_batch(ctx, &rt, "coalesced", cases, 128, &chk);
        if !stop(ctx) {
            let n = ctx.scale(300usize, 4000usize);
            ctx.sub_async(&rt, "coalesced-random", n, 128, coalesced_random_strategy(), chk.clone());
        }
    }

    // 4. production timers
    if want("prod") && !stop(ctx) {
        let mut cases = Vec::new();
        let quick_pick = |f: &Fault| -> bool {
            matches!(
                (f.client, f.class, &f.act),
                (true, DClass::ClientHello, Act::Drop)
                    | (false, DClass::ServerHello, Act::Drop)
                    | (false, DClass::Certificate, Act::Swap { .. })
                    | (false, DClass::ServerHelloDone, Act::Drop)
                    | (true, DClass::ClientKeyExchange, Act::Delay { pct: 150 })
                    | (true, DClass::ClientKeyExchange, Act::Drop)
                    | (true, DClass::Finished, Act::Drop)
                    | (false, DClass::ChangeCipherSpec, Act::Drop)
                    | (false, DClass::Finished, Act::Drop)
                    | (false, DClass::Finished, Act::Dup { gap_pct: 150, .. })
            ) || (f.class == DClass::Certificate && matches!(&f.act, Act::Refrag { order, coalesce: false, .. } if order.len() == 2))
        };
        cases.push(Case { faults: vec![], a_is_client: true, timers: Timers::Prod, regroup: None });
        let mut skipped = 0u64;
        for f in &singles {
            if ctx.thorough() || quick_pick(f) {
                let sig = format!("no-convergence:{}", fault_kind(f));
                if !ctx.thorough() && known.contains(&sig) {
                    // 30 s each at production timers: in the quick tier the known ones are left to 'single'
                    ctx.note_excluded(&sig, 1);
                    skipped += 1;
                    continue;
                }
                cases.push(Case { faults: vec![f.clone()], a_is_client: true, timers: Timers::Prod, regroup: None });
            }
        }
        ctx.set_extra("prod_timer_cases_skipped_as_known", serde_json::json!(skipped));
        run_batch(ctx, &rt, "prod-timers", cases, 128, &chk);
    }

    // webrtc-rs reference: enumerated single faults in both tiers, random plans in thorough
    if want("interop") && !stop(ctx) {
        super::c11_interop::run(ctx, &rt);
    }
    ctx.set_exhaustive(false);
    rt.shutdown_timeout(Duration::from_secs(2));
}
