//! C10 — any two compatibly configured endpoints connect and exchange data and media.
//!
//! E5 rig: two real `PeerConnection`s in one runtime on loopback, both built from the same lattice
//! point (same settings except role), the documented non-trickle offer/answer exchange, then one
//! data-channel message (if the point has a data channel) and RTP in each direction of every media
//! section, compared by payload equality at `DataChannel::recv()` / the receiver track.
//!
//! The lattice and the constraints that prune it are in `Point::violated_constraint`; every
//! constraint carries the line of rustrtc code or documentation that states it. No point is pruned
//! because it fails.

use crate::engine::{AsyncCheck, CaseRec, Check, Ctx, Fail};
use bytes::Bytes;
use proptest::prelude::*;
use proptest::strategy::{NewTree, ValueTree};
use proptest::test_runner::TestRunner;
use rustrtc::media::MediaStreamTrack;
use rustrtc::media::frame::{AudioFrame, MediaKind as FrameKind, MediaSample, VideoFrame};
use rustrtc::media::track::{SampleStreamSource, SampleStreamTrack, sample_track};
use rustrtc::transports::sctp::{DataChannel, DataChannelConfig};
use rustrtc::{
    DataChannelEvent, MediaKind, PeerConnection, PeerConnectionEvent, RtcConfiguration,
    RtpCodecParameters, SessionDescription, TransportMode,
};
use serde::{Deserialize, Serialize};
use serde_json::json;
use std::collections::{BTreeMap, BTreeSet};
use std::sync::Arc;
use std::sync::atomic::{AtomicU32, AtomicUsize, Ordering};
use std::time::Duration;

// ---------------------------------------------------------------------------------------------
// The lattice
// ---------------------------------------------------------------------------------------------

#[derive(Clone, Copy, Debug, PartialEq, Eq, PartialOrd, Ord, Serialize, Deserialize)]
pub enum Mode {
    WebRtc,
    Srtp,
    Rtp,
}

#[derive(Clone, Copy, Debug, PartialEq, Eq, PartialOrd, Ord, Serialize, Deserialize)]
pub enum Media {
    Audio,
    AudioVideo,
    Dc,
    DcAudio,
    DcAudioVideo,
}

#[derive(Clone, Copy, Debug, PartialEq, Eq, PartialOrd, Ord, Serialize, Deserialize)]
pub enum Bundle {
    NotOffered,
    Offered,
}

#[derive(Clone, Copy, Debug, PartialEq, Eq, PartialOrd, Ord, Serialize, Deserialize)]
pub enum Mux {
    Require,
    Negotiate,
}

#[derive(Clone, Copy, Debug, PartialEq, Eq, PartialOrd, Ord, Serialize, Deserialize)]
pub enum IceOpt {
    Plain,
    /// `enable_ice_lite` on endpoint A only ("ice-lite on one side"); with `offerer` this gives
    /// lite-on-offerer and lite-on-answerer.
    LiteA,
    /// `ice_tcp_policy = Enabled` on both sides
    Tcp,
    /// `ice_udp_mux = true` on both sides, each endpoint with its own `ice_udp_mux_port`
    UdpMux,
}

#[derive(Clone, Copy, Debug, PartialEq, Eq, PartialOrd, Ord, Serialize, Deserialize)]
pub enum Latch {
    Off,
    On0,
    On3,
}

#[derive(Clone, Copy, Debug, PartialEq, Eq, PartialOrd, Ord, Serialize, Deserialize)]
pub enum Compat {
    Standard,
    LegacySip,
}

#[derive(Clone, Copy, Debug, PartialEq, Eq, PartialOrd, Ord, Serialize, Deserialize)]
pub enum Side {
    A,
    B,
}

impl Side {
    fn other(self) -> Side {
        match self {
            Side::A => Side::B,
            Side::B => Side::A,
        }
    }
}

#[derive(Clone, Copy, Debug, PartialEq, Eq, PartialOrd, Ord, Serialize, Deserialize)]
pub struct Point {
    pub mode: Mode,
    pub media: Media,
    pub bundle: Bundle,
    pub mux: Mux,
    pub ice: IceOpt,
    pub latch: Latch,
    pub compat: Compat,
    pub offerer: Side,
}

const MODES: [Mode; 3] = [Mode::WebRtc, Mode::Srtp, Mode::Rtp];
const MEDIAS: [Media; 5] = [Media::Audio, Media::AudioVideo, Media::Dc, Media::DcAudio, Media::DcAudioVideo];
const BUNDLES: [Bundle; 2] = [Bundle::NotOffered, Bundle::Offered];
const MUXES: [Mux; 2] = [Mux::Require, Mux::Negotiate];
const ICES: [IceOpt; 4] = [IceOpt::Plain, IceOpt::LiteA, IceOpt::Tcp, IceOpt::UdpMux];
const LATCHES: [Latch; 3] = [Latch::Off, Latch::On0, Latch::On3];
const COMPATS: [Compat; 2] = [Compat::Standard, Compat::LegacySip];
const SIDES: [Side; 2] = [Side::A, Side::B];

impl Media {
    fn has_dc(self) -> bool {
        matches!(self, Media::Dc | Media::DcAudio | Media::DcAudioVideo)
    }
    fn has_audio(self) -> bool {
        !matches!(self, Media::Dc)
    }
    fn has_video(self) -> bool {
        matches!(self, Media::AudioVideo | Media::DcAudioVideo)
    }
    fn sections(self) -> usize {
        self.has_dc() as usize + self.has_audio() as usize + self.has_video() as usize
    }
}

impl Point {
    pub const DEFAULT: Point = Point {
        mode: Mode::WebRtc,
        media: Media::Audio,
        bundle: Bundle::NotOffered,
        mux: Mux::Require,
        ice: IceOpt::Plain,
        latch: Latch::Off,
        compat: Compat::Standard,
        offerer: Side::A,
    };

    /// The constraint this point violates, if any. Each constraint is stated by rustrtc itself;
    /// the quotation is given next to it. A point is never excluded for failing.
    pub fn violated_constraint(&self) -> Option<&'static str> {
        // (1) Data channels only in WebRtc mode.
        //   src/sdp.rs:1125-1126          `self.protocol = "UDP/DTLS/SCTP".into(); self.formats = vec!["webrtc-datachannel".into()];`
        //                                 (a data channel section is SCTP over DTLS)
        //   src/peer_connection.rs:5197   "Only WebRTC uses DTLS-SRTP (a=fingerprint / a=setup). SDES-SRTP (TransportMode::Srtp)
        //                                  keys via a=crypto and must NOT advertise DTLS attributes"
        //   src/peer_connection.rs:815    "RTP / SDES-SRTP: skip ICE gathering/connectivity/DTLS loops."
        //   src/peer_connection.rs:3334   "Returns `None` when there is no SCTP transport (e.g. RTP-only sessions)."
        if self.media.has_dc() && self.mode != Mode::WebRtc {
            return Some("data channels only in WebRtc mode (no DTLS, hence no SCTP, in Srtp/Rtp mode)");
        }
        // (2) ICE options only where ICE runs.
        //   src/peer_connection.rs:738    "SDES-SRTP uses a direct transport like RTP (c-line address + a=crypto), NOT full ICE"
        //   src/peer_connection.rs:4819   "SDES-SRTP (TransportMode::Srtp) also uses a direct transport like RTP — it does NOT run ICE."
        //   src/peer_connection.rs:3908   "Simplified loop for RTP mode. ... No ICE gathering or STUN."
        //   src/transports/ice/mod.rs:1197 "Set up a direct UDP socket for RTP mode without any ICE gathering, STUN lookups, or connectivity checks."
        //   => no ICE option in Srtp mode; in Rtp mode only ICE-lite, which the code supports explicitly:
        //   src/peer_connection.rs:4866   "ICE-lite in RTP mode: include ICE attributes so remote full-ICE agents can perform
        //                                  connectivity checks against us."
        //   ICE-TCP needs candidate gathering and connectivity checks:
        //   src/config.rs:65,542          "Controls ICE TCP candidate support (RFC 6544)." / "only UDP candidates are gathered and used"
        //   UDP mux needs STUN binding requests to route:
        //   src/config.rs:549-551         "Incoming UDP packets are demultiplexed by the server ufrag embedded in the first STUN
        //                                  Binding Request's `USERNAME` attribute"
        match (self.mode, self.ice) {
            (_, IceOpt::Plain) | (Mode::WebRtc, _) | (Mode::Rtp, IceOpt::LiteA) => {}
            (Mode::Srtp, _) => return Some("ICE options only where ICE runs (Srtp mode does NOT run ICE)"),
            (Mode::Rtp, _) => {
                return Some("ICE options only where ICE runs (Rtp mode: no gathering, no STUN; only ICE-lite is supported there)");
            }
        }
        // (3) Latching only in Rtp mode.
        //   README.md:137                 "`enable_latching` — Enable dynamic remote address detection for RTP-only mode."
        //   src/peer_connection.rs:2086   `if self.config().transport_mode == TransportMode::Rtp && self.config().enable_latching {`
        if self.latch != Latch::Off && self.mode != Mode::Rtp {
            return Some("latching only in Rtp mode");
        }
        // (4) BUNDLE is offered exactly when the compatibility mode is Standard and there is more than one section
        //     (`bundle_policy` is not read anywhere in rustrtc; "not offered" is reachable through LegacySip or a single section).
        //   src/peer_connection.rs:4652   "For offers we only group when there is more than one section to stay compatible with
        //                                  plain-RTP/SIP peers."
        //   src/peer_connection.rs:4654   `let will_bundle = self.config.sdp_compatibility != SdpCompatibilityMode::LegacySip
        //                                  && match sdp_type { SdpType::Offer => ordered_transceivers.len() > 1, ..`
        //   src/config.rs:405             "Compatibility mode for legacy SIP endpoints (e.g. Linphone): omits `a=mid` unless BUNDLE is
        //                                  active, omits `a=rtcp-mux`."
        if self.bundle != Self::derived_bundle(self.media, self.compat) {
            return Some("BUNDLE is offered iff sdp_compatibility is Standard and the offer has more than one section");
        }
        // (5) UDP mux needs a port: the rig always supplies one per endpoint, so nothing is pruned.
        //   src/config.rs:553             "Requires `ice_udp_mux_port` to be set."
        None
    }

    fn derived_bundle(media: Media, compat: Compat) -> Bundle {
        if compat == Compat::Standard && media.sections() > 1 {
            Bundle::Offered
        } else {
            Bundle::NotOffered
        }
    }

    fn valid(&self) -> bool {
        self.violated_constraint().is_none()
    }

    fn coords(&self) -> [usize; 8] {
        [
            self.mode as usize,
            self.media as usize,
            self.bundle as usize,
            self.mux as usize,
            self.ice as usize,
            self.latch as usize,
            self.compat as usize,
            self.offerer as usize,
        ]
    }

    fn differs_from_default(&self) -> usize {
        let d = Point::DEFAULT.coords();
        self.coords().iter().zip(d.iter()).filter(|(a, b)| a != b).count()
    }

    fn tag(&self) -> String {
        format!(
            "mode={:?},media={:?},bundle={:?},mux={:?},ice={:?},latch={:?},compat={:?},offerer={:?}",
            self.mode, self.media, self.bundle, self.mux, self.ice, self.latch, self.compat, self.offerer
        )
    }
}

/// The full pruned product.
pub fn all_points() -> Vec<Point> {
    let mut v = Vec::new();
    for mode in MODES {
        for media in MEDIAS {
            for bundle in BUNDLES {
                for mux in MUXES {
                    for ice in ICES {
                        for latch in LATCHES {
                            for compat in COMPATS {
                                for offerer in SIDES {
                                    let p = Point { mode, media, bundle, mux, ice, latch, compat, offerer };
                                    if p.valid() {
                                        v.push(p);
                                    }
                                }
                            }
                        }
                    }
                }
            }
        }
    }
    v
}

/// Greedy pairwise-covering array over the pruned lattice: every pair of coordinate values that
/// occurs together in some valid point occurs together in some chosen point. `keys` (seeded) break ties.
pub fn pairwise(all: &[Point], keys: &[u32]) -> Vec<Point> {
    let mut uncovered: BTreeSet<(usize, usize, usize, usize)> = BTreeSet::new();
    let pairs_of = |p: &Point| {
        let c = p.coords();
        let mut out = Vec::with_capacity(28);
        for i in 0..c.len() {
            for j in (i + 1)..c.len() {
                out.push((i, c[i], j, c[j]));
            }
        }
        out
    };
    for p in all {
        uncovered.extend(pairs_of(p));
    }
    let mut chosen = Vec::new();
    while !uncovered.is_empty() {
        let mut best: Option<(usize, u32, usize)> = None; // (gain, key, index)
        for (idx, p) in all.iter().enumerate() {
            let gain = pairs_of(p).iter().filter(|q| uncovered.contains(q)).count();
            let key = keys.get(idx).copied().unwrap_or(idx as u32);
            let better = match best {
                None => gain > 0,
                Some((g, k, _)) => gain > g || (gain == g && gain > 0 && key < k),
            };
            if better {
                best = Some((gain, key, idx));
            }
        }
        let Some((_, _, idx)) = best else { break };
        for q in pairs_of(&all[idx]) {
            uncovered.remove(&q);
        }
        chosen.push(all[idx]);
    }
    chosen
}

/// Random valid point, built by construction: mode first, then only the values the mode allows.
fn random_point() -> impl Strategy<Value = Point> {
    (any::<[u16; 7]>()).prop_map(|r| {
        let pick = |x: u16, n: usize| crate::engine::pick(x, n);
        let mode = MODES[pick(r[0], 3)];
        let medias: &[Media] = if mode == Mode::WebRtc { &MEDIAS } else { &[Media::Audio, Media::AudioVideo] };
        let media = medias[pick(r[1], medias.len())];
        let ices: &[IceOpt] = match mode {
            Mode::WebRtc => &ICES,
            Mode::Srtp => &[IceOpt::Plain],
            Mode::Rtp => &[IceOpt::Plain, IceOpt::LiteA],
        };
        let ice = ices[pick(r[2], ices.len())];
        let latch = if mode == Mode::Rtp { LATCHES[pick(r[3], 3)] } else { Latch::Off };
        let compat = COMPATS[pick(r[4], 2)];
        let p = Point {
            mode,
            media,
            bundle: Point::derived_bundle(media, compat),
            mux: MUXES[pick(r[5], 2)],
            ice,
            latch,
            compat,
            offerer: SIDES[pick(r[6], 2)],
        };
        debug_assert!(p.valid());
        p
    })
}

// ---------------------------------------------------------------------------------------------
// Strategy that serves an explicit list (or random points) and shrinks one coordinate at a time
// ---------------------------------------------------------------------------------------------

struct PointSource {
    list: Option<Arc<Vec<Point>>>,
    next: Arc<AtomicUsize>,
    random: BoxedStrategy<Point>,
}

impl std::fmt::Debug for PointSource {
    fn fmt(&self, f: &mut std::fmt::Formatter<'_>) -> std::fmt::Result {
        write!(f, "PointSource(list={:?})", self.list.as_ref().map(|l| l.len()))
    }
}

impl PointSource {
    fn list(points: Vec<Point>) -> Self {
        Self { list: Some(Arc::new(points)), next: Arc::new(AtomicUsize::new(0)), random: random_point().boxed() }
    }
}

impl Strategy for PointSource {
    type Tree = PointTree;
    type Value = Point;
    fn new_tree(&self, runner: &mut TestRunner) -> NewTree<Self> {
        let p = match &self.list {
            Some(l) => l[self.next.fetch_add(1, Ordering::SeqCst) % l.len()],
            None => self.random.new_tree(runner)?.current(),
        };
        Ok(PointTree { cur: p, prev: None, next_coord: 0 })
    }
}

/// Shrinks towards `Point::DEFAULT` by resetting one coordinate at a time (the minimal failing
/// sub-configuration is the point where no single coordinate can be reset without the failure vanishing).
pub struct PointTree {
    cur: Point,
    prev: Option<Point>,
    next_coord: usize,
}

impl PointTree {
    /// candidate with coordinate `c` reset to its default (bundle is re-derived); None if unchanged or invalid
    fn reset(p: &Point, c: usize) -> Option<Point> {
        let mut q = *p;
        match c {
            0 => q.latch = Point::DEFAULT.latch,
            1 => q.ice = Point::DEFAULT.ice,
            2 => q.mux = Point::DEFAULT.mux,
            3 => q.offerer = Point::DEFAULT.offerer,
            4 => q.compat = Point::DEFAULT.compat,
            5 => q.media = if p.media.has_dc() && p.media != Media::Dc { Media::Dc } else { Point::DEFAULT.media },
            6 => q.media = if p.media.has_video() { if p.media.has_dc() { Media::DcAudio } else { Media::Audio } } else { p.media },
            7 => q.mode = Point::DEFAULT.mode,
            _ => return None,
        }
        q.bundle = Point::derived_bundle(q.media, q.compat);
        (q != *p && q.valid()).then_some(q)
    }
    fn advance(&mut self) -> bool {
        while self.next_coord < 8 {
            let c = self.next_coord;
            self.next_coord += 1;
            if let Some(q) = Self::reset(&self.cur, c) {
                self.prev = Some(self.cur);
                self.cur = q;
                return true;
            }
        }
        false
    }
}

impl ValueTree for PointTree {
    type Value = Point;
    fn current(&self) -> Point {
        self.cur
    }
    fn simplify(&mut self) -> bool {
        // the current value failed: keep it and try the next coordinate
        self.prev = None;
        self.advance()
    }
    fn complicate(&mut self) -> bool {
        // the current value passed: go back and try the next coordinate from the failing one
        match self.prev.take() {
            Some(p) => {
                self.cur = p;
                self.advance()
            }
            None => false,
        }
    }
}

// ---------------------------------------------------------------------------------------------
// The rig
// ---------------------------------------------------------------------------------------------

const STEP_TIMEOUT: Duration = Duration::from_secs(8);
/// `wait_for_connected()` has no deadline of its own; the configured ICE timeouts are stun_timeout 5 s,
/// nomination_timeout 10 s, ice_connection_timeout 120 s (defaults, left untouched). Loopback connects in
/// tens of milliseconds; 12 s is the harness bound for "within the configured timeouts".
const CONNECT_TIMEOUT: Duration = Duration::from_secs(12);
const EXCHANGE_TIMEOUT: Duration = Duration::from_secs(4);
const RTP_INTERVAL: Duration = Duration::from_millis(20);
/// SCTP recovers a lost INIT / DCEP message only after sctp_rto_initial (3 s by default, doubling), so the
/// data-channel clauses get a bound that covers several retransmissions.
const DC_TIMEOUT: Duration = Duration::from_secs(25);

static NEXT_PORT: AtomicU32 = AtomicU32::new(0);

/// A free UDP port on 127.0.0.1 for `ice_udp_mux_port` (a resource, not a decision). Taken from below the
/// ephemeral range (32768..) so that no other socket of a concurrently running point can grab it between the
/// probe and rustrtc's bind.
fn alloc_port() -> u16 {
    loop {
        let n = NEXT_PORT.fetch_add(1, Ordering::SeqCst);
        let port = (10000 + ((std::process::id() % 97) * 211 + n) % 20000) as u16;
        if std::net::UdpSocket::bind(("127.0.0.1", port)).is_ok() {
            return port;
        }
    }
}

fn config_for(p: &Point, side: Side, mux_port: Option<u16>) -> RtcConfiguration {
    let mut c = RtcConfiguration::default();
    c.transport_mode = match p.mode {
        Mode::WebRtc => TransportMode::WebRtc,
        Mode::Srtp => TransportMode::Srtp,
        Mode::Rtp => TransportMode::Rtp,
    };
    c.bind_ip = Some("127.0.0.1".to_string());
    c.rtcp_mux_policy = match p.mux {
        Mux::Require => rustrtc::config::RtcpMuxPolicy::Require,
        Mux::Negotiate => rustrtc::config::RtcpMuxPolicy::Negotiate,
    };
    c.sdp_compatibility = match p.compat {
        Compat::Standard => rustrtc::config::SdpCompatibilityMode::Standard,
        Compat::LegacySip => rustrtc::config::SdpCompatibilityMode::LegacySip,
    };
    match p.ice {
        IceOpt::Plain => {}
        IceOpt::LiteA => c.enable_ice_lite = side == Side::A,
        IceOpt::Tcp => c.ice_tcp_policy = rustrtc::config::IceTcpPolicy::Enabled,
        IceOpt::UdpMux => {
            c.ice_udp_mux = true;
            c.ice_udp_mux_port = mux_port;
        }
    }
    match p.latch {
        Latch::Off => {}
        Latch::On0 => {
            c.enable_latching = true;
            c.probation_max_packets = Some(0);
        }
        Latch::On3 => {
            c.enable_latching = true;
            c.probation_max_packets = Some(3);
        }
    }
    c.label = Some(format!("c10-{:?}", side));
    c
}

struct Closer(Vec<PeerConnection>);
impl Drop for Closer {
    fn drop(&mut self) {
        for pc in &self.0 {
            pc.close();
        }
    }
}

struct End {
    pc: PeerConnection,
    audio: Option<(Arc<SampleStreamSource>, Arc<SampleStreamTrack>)>,
    video: Option<(Arc<SampleStreamSource>, Arc<SampleStreamTrack>)>,
}

fn audio_params() -> RtpCodecParameters {
    RtpCodecParameters { payload_type: 111, name: "opus".into(), clock_rate: 48000, channels: 2 }
}
fn video_params() -> RtpCodecParameters {
    RtpCodecParameters { payload_type: 96, name: "VP8".into(), clock_rate: 90000, channels: 0 }
}

fn build_end(p: &Point, side: Side, mux_port: Option<u16>) -> Result<End, Fail> {
    let pc = PeerConnection::new(config_for(p, side, mux_port));
    let mut end = End { pc, audio: None, video: None };
    if p.media.has_audio() {
        let (src, track, _fb) = sample_track(FrameKind::Audio, 64);
        end.pc
            .add_track(track.clone(), audio_params())
            .map_err(|e| Fail::new("setup:add-track-error", format!("{side:?} add_track(audio): {e}")))?;
        end.audio = Some((Arc::new(src), track));
    }
    if p.media.has_video() {
        let (src, track, _fb) = sample_track(FrameKind::Video, 64);
        end.pc
            .add_track(track.clone(), video_params())
            .map_err(|e| Fail::new("setup:add-track-error", format!("{side:?} add_track(video): {e}")))?;
        end.video = Some((Arc::new(src), track));
    }
    Ok(end)
}

async fn step<T, E: std::fmt::Display>(
    name: &str,
    fut: impl std::future::Future<Output = Result<T, E>>,
) -> Result<T, Fail> {
    match tokio::time::timeout(STEP_TIMEOUT, fut).await {
        Ok(Ok(v)) => Ok(v),
        Ok(Err(e)) => Err(Fail::new(format!("signal:{name}-error"), format!("{name} returned an error: {e}"))),
        Err(_) => Err(Fail::timing(
            format!("signal:{name}-timeout"),
            format!("{name} did not return within {STEP_TIMEOUT:?}"),
        )),
    }
}

fn has_bundle(d: &SessionDescription) -> bool {
    d.session
        .attributes
        .iter()
        .any(|a| a.key == "group" && a.value.as_deref().is_some_and(|v| v.starts_with("BUNDLE")))
}

fn payload(p: &Point, from: Side, kind: &str, i: u32) -> Bytes {
    let head = format!("C10|{}|from={:?}|{}|#{:05}|", p.tag(), from, kind, i);
    let len = if kind == "video" { 900 } else { 200 };
    let mut v = head.into_bytes();
    let mut x = (i as u8).wrapping_mul(31).wrapping_add(from as u8);
    while v.len() < len {
        x = x.wrapping_mul(17).wrapping_add(43);
        v.push(x);
    }
    Bytes::from(v)
}

fn sample_data(s: &MediaSample) -> &Bytes {
    match s {
        MediaSample::Audio(f) => &f.data,
        MediaSample::Video(f) => &f.data,
    }
}

#[derive(Default)]
struct FlowObs {
    first_index: Option<u32>,
}

/// Send a packet every 20 ms on `src` until the peer's receiver `track` yielded one; the received payload must be
/// byte-equal to the payload the sender produced for the index it carries.
async fn rtp_flow(
    p: Point,
    from: Side,
    kind: &'static str,
    src: Arc<SampleStreamSource>,
    recv_track: Arc<SampleStreamTrack>,
) -> Result<FlowObs, Fail> {
    let done = Arc::new(tokio::sync::Notify::new());
    let done2 = done.clone();
    let sender = tokio::spawn(async move {
        let mut i = 0u32;
        loop {
            let data = payload(&p, from, kind, i);
            let sample = if kind == "video" {
                MediaSample::Video(VideoFrame {
                    rtp_timestamp: i.wrapping_mul(3000),
                    data,
                    is_last_packet: true,
                    ..Default::default()
                })
            } else {
                MediaSample::Audio(AudioFrame {
                    rtp_timestamp: i.wrapping_mul(960),
                    clock_rate: 48000,
                    data,
                    ..Default::default()
                })
            };
            if src.send(sample).is_err() {
                break;
            }
            i += 1;
            tokio::select! {
                _ = done2.notified() => break,
                _ = tokio::time::sleep(RTP_INTERVAL) => {}
            }
        }
        i
    });
    let got = tokio::time::timeout(EXCHANGE_TIMEOUT, recv_track.recv()).await;
    done.notify_one();
    let sent = sender.await.unwrap_or(0);
    let dir = format!("{:?}->{:?}", from, from.other());
    match got {
        Err(_) => Err(Fail::timing(
            format!("rtp-not-received:{kind}"),
            format!("{kind} RTP {dir}: no packet reached the receiver track within {EXCHANGE_TIMEOUT:?} ({sent} sent)"),
        )),
        Ok(Err(e)) => Err(Fail::new(
            format!("rtp-track-ended:{kind}"),
            format!("{kind} RTP {dir}: receiver track ended: {e:?}"),
        )),
        Ok(Ok(sample)) => {
            let data = sample_data(&sample).clone();
            let text = String::from_utf8_lossy(&data[..data.len().min(220)]).to_string();
            let want_kind = if kind == "video" { FrameKind::Video } else { FrameKind::Audio };
            if sample.kind() != want_kind {
                return Err(Fail::new(
                    format!("rtp-wrong-kind:{kind}"),
                    format!("{kind} RTP {dir}: receiver track of kind {kind} yielded a {:?} sample: {text}", sample.kind()),
                ));
            }
            // index carried in the payload
            let idx = text
                .split("|#")
                .nth(1)
                .and_then(|s| s.get(..5))
                .and_then(|s| s.parse::<u32>().ok());
            let Some(idx) = idx else {
                return Err(Fail::new(
                    format!("rtp-payload-corrupt:{kind}"),
                    format!("{kind} RTP {dir}: received payload is not one the peer sent: {text:?} ({} bytes)", data.len()),
                ));
            };
            let expect = payload(&p, from, kind, idx);
            if data != expect {
                // cross-delivery (other section / other direction) or corruption
                let other_kind = if kind == "video" { "audio" } else { "video" };
                let sig = if data == payload(&p, from, other_kind, idx) {
                    format!("rtp-cross-delivered:{kind}")
                } else if data == payload(&p, from.other(), kind, idx) {
                    format!("rtp-looped-back:{kind}")
                } else {
                    format!("rtp-payload-corrupt:{kind}")
                };
                return Err(Fail::new(
                    sig,
                    format!("{kind} RTP {dir}: received payload differs from the one sent with index {idx}: {text:?} ({} bytes, expected {})", data.len(), expect.len()),
                ));
            }
            Ok(FlowObs { first_index: Some(idx) })
        }
    }
}

fn dc_message(p: &Point, from: Side) -> Vec<u8> {
    let mut v = format!("C10-dc|{}|from={:?}|", p.tag(), from).into_bytes();
    let mut x = 7u8 + from as u8;
    while v.len() < 300 {
        x = x.wrapping_mul(13).wrapping_add(101);
        v.push(x);
    }
    v
}

async fn dc_wait_message(dc: &DataChannel, who: &str) -> Result<Bytes, Fail> {
    let deadline = tokio::time::Instant::now() + DC_TIMEOUT;
    loop {
        match tokio::time::timeout_at(deadline, dc.recv()).await {
            Err(_) => {
                return Err(Fail::timing(
                    "dc-message-not-received",
                    format!("{who}: no data-channel message within {DC_TIMEOUT:?}"),
                ));
            }
            Ok(None) => return Err(Fail::new("dc-closed", format!("{who}: data channel event stream ended"))),
            Ok(Some(DataChannelEvent::Message(b))) => return Ok(b),
            Ok(Some(DataChannelEvent::Open)) => continue,
            Ok(Some(DataChannelEvent::Close)) => {
                return Err(Fail::new("dc-closed", format!("{who}: data channel closed before the message arrived")));
            }
        }
    }
}

async fn dc_exchange(p: Point, offerer: PeerConnection, answerer: PeerConnection, dc_off: Arc<DataChannel>) -> Check {
    // the answerer learns the channel in-band (DCEP)
    let deadline = tokio::time::Instant::now() + DC_TIMEOUT;
    let dc_ans = loop {
        match tokio::time::timeout_at(deadline, answerer.recv()).await {
            Err(_) => {
                return Err(Fail::timing(
                    "dc-not-announced",
                    format!(
                        "answerer: no PeerConnectionEvent::DataChannel within {DC_TIMEOUT:?} after Connected; offerer channel state {} ; offerer sctp: {:?} ; answerer sctp: {:?}",
                        dc_off.state.load(Ordering::SeqCst),
                        offerer.sctp_diagnostic_info(),
                        answerer.sctp_diagnostic_info()
                    ),
                ));
            }
            Ok(None) => return Err(Fail::new("dc-event-stream-ended", "answerer: PeerConnection::recv() returned None")),
            Ok(Some(PeerConnectionEvent::DataChannel(dc))) => break dc,
            Ok(Some(_)) => continue,
        }
    };
    if dc_ans.label != "c10" {
        return Err(Fail::new("dc-label-mismatch", format!("announced channel has label {:?}", dc_ans.label)));
    }
    let off_side = p.offerer;
    let ans_side = p.offerer.other();
    let m_off = dc_message(&p, off_side);
    let m_ans = dc_message(&p, ans_side);
    // answerer -> offerer right away (the channel was announced, hence open on this side)
    match tokio::time::timeout(DC_TIMEOUT, answerer.send_data(dc_ans.id, &m_ans)).await {
        Ok(Ok(())) => {}
        Ok(Err(e)) => return Err(Fail::new("dc-send-error", format!("answerer send_data: {e}"))),
        Err(_) => return Err(Fail::timing("dc-send-timeout", "answerer send_data did not return")),
    }
    // offerer -> answerer once its channel is open: the first event on the offerer's channel is Open (or already the
    // peer's message, which also proves it is open)
    let first = {
        let deadline = tokio::time::Instant::now() + DC_TIMEOUT;
        match tokio::time::timeout_at(deadline, dc_off.recv()).await {
            Err(_) => {
                return Err(Fail::timing(
                    "dc-not-open",
                    format!("offerer: channel did not open within {DC_TIMEOUT:?} after Connected"),
                ));
            }
            Ok(None) => return Err(Fail::new("dc-closed", "offerer: data channel event stream ended")),
            Ok(Some(ev)) => ev,
        }
    };
    match tokio::time::timeout(DC_TIMEOUT, offerer.send_data(dc_off.id, &m_off)).await {
        Ok(Ok(())) => {}
        Ok(Err(e)) => return Err(Fail::new("dc-send-error", format!("offerer send_data: {e}"))),
        Err(_) => return Err(Fail::timing("dc-send-timeout", "offerer send_data did not return")),
    }
    let got_at_off = match first {
        DataChannelEvent::Message(b) => b,
        DataChannelEvent::Close => return Err(Fail::new("dc-closed", "offerer: channel closed right after connecting")),
        DataChannelEvent::Open => dc_wait_message(&dc_off, "offerer").await?,
    };
    let got_at_ans = dc_wait_message(&dc_ans, "answerer").await?;
    if got_at_off.as_ref() != m_ans.as_slice() {
        return Err(Fail::new(
            "dc-payload-mismatch",
            format!("offerer received {} bytes {:?}.., expected the answerer's {} byte message", got_at_off.len(), String::from_utf8_lossy(&got_at_off[..got_at_off.len().min(80)]), m_ans.len()),
        ));
    }
    if got_at_ans.as_ref() != m_off.as_slice() {
        return Err(Fail::new(
            "dc-payload-mismatch",
            format!("answerer received {} bytes {:?}.., expected the offerer's {} byte message", got_at_ans.len(), String::from_utf8_lossy(&got_at_ans[..got_at_ans.len().min(80)]), m_off.len()),
        ));
    }
    Ok(())
}

fn receiver_track(pc: &PeerConnection, kind: MediaKind, who: &str) -> Result<Arc<SampleStreamTrack>, Fail> {
    let ts: Vec<_> = pc.get_transceivers().into_iter().filter(|t| t.kind() == kind).collect();
    if ts.len() != 1 {
        return Err(Fail::new(
            "transceiver-count",
            format!("{who}: {} transceivers of kind {kind:?} after negotiation, expected 1", ts.len()),
        ));
    }
    let r = ts[0]
        .receiver()
        .ok_or_else(|| Fail::new("no-receiver", format!("{who}: {kind:?} transceiver has no receiver")))?;
    Ok(r.track())
}

/// Stage of a failure is the signature; `finish_signature` appends the coordinates of a known shape.
async fn run_point_inner(p: Point, rec: &CaseRec) -> Check {
    if let Some(c) = p.violated_constraint() {
        return Err(Fail::new("harness:point-outside-lattice", format!("{}: {c}", p.tag())));
    }
    let (port_a, port_b) = if p.ice == IceOpt::UdpMux { (Some(alloc_port()), Some(alloc_port())) } else { (None, None) };
    let a = build_end(&p, Side::A, port_a)?;
    let closer = Closer(vec![a.pc.clone()]);
    let b = build_end(&p, Side::B, port_b)?;
    let _closer = {
        let mut c = closer;
        c.0.push(b.pc.clone());
        c
    };
    let (off, ans) = if p.offerer == Side::A { (&a, &b) } else { (&b, &a) };

    let dc_off = if p.media.has_dc() {
        Some(
            off.pc
                .create_data_channel("c10", Some(DataChannelConfig { ordered: true, ..Default::default() }))
                .map_err(|e| Fail::new("setup:create-data-channel-error", format!("{e}")))?,
        )
    } else {
        None
    };

    // documented non-trickle exchange
    let _ = step("create_offer", off.pc.create_offer()).await?;
    step("offerer-gathering", async {
        off.pc.wait_for_gathering_complete().await;
        Ok::<_, String>(())
    })
    .await?;
    let offer = step("create_offer", off.pc.create_offer()).await?;
    if has_bundle(&offer) != (p.bundle == Bundle::Offered) {
        return Err(Fail::new(
            "sdp:bundle-coordinate-not-realised",
            format!("offer has BUNDLE group = {}, lattice point says {:?}:\n{}", has_bundle(&offer), p.bundle, offer.to_sdp_string()),
        ));
    }
    let offer_text = offer.to_sdp_string();
    off.pc
        .set_local_description(offer.clone())
        .map_err(|e| Fail::new("signal:set_local_offer-error", format!("{e}\n{offer_text}")))?;
    step("set_remote_offer", ans.pc.set_remote_description(offer.clone())).await.map_err(|mut f| {
        f.msg.push_str(&format!("\noffer:\n{offer_text}"));
        f
    })?;
    let _ = step("create_answer", ans.pc.create_answer()).await.map_err(|mut f| {
        f.msg.push_str(&format!("\noffer:\n{offer_text}"));
        f
    })?;
    step("answerer-gathering", async {
        ans.pc.wait_for_gathering_complete().await;
        Ok::<_, String>(())
    })
    .await?;
    let answer = step("create_answer", ans.pc.create_answer()).await?;
    let answer_text = answer.to_sdp_string();
    ans.pc
        .set_local_description(answer.clone())
        .map_err(|e| Fail::new("signal:set_local_answer-error", format!("{e}\n{answer_text}")))?;
    step("set_remote_answer", off.pc.set_remote_description(answer)).await.map_err(|mut f| {
        f.msg.push_str(&format!("\noffer:\n{offer_text}\nanswer:\n{answer_text}"));
        f
    })?;
    if offer.media_sections.len() != p.media.sections() || answer_sections(&answer_text) != p.media.sections() {
        return Err(Fail::new(
            "sdp:section-count",
            format!("offer has {} sections, answer {}, point has {}\noffer:\n{offer_text}\nanswer:\n{answer_text}", offer.media_sections.len(), answer_sections(&answer_text), p.media.sections()),
        ));
    }

    // both report Connected
    let t0 = tokio::time::Instant::now();
    let connect_timeout = std::env::var("C10_CONNECT_SECS").ok().and_then(|s| s.parse().ok()).map(Duration::from_secs).unwrap_or(CONNECT_TIMEOUT);
    let (ro, ra) = tokio::join!(
        tokio::time::timeout(connect_timeout, off.pc.wait_for_connected()),
        tokio::time::timeout(connect_timeout, ans.pc.wait_for_connected())
    );
    let describe = |r: &Result<Result<(), rustrtc::RtcError>, tokio::time::error::Elapsed>| match r {
        Ok(Ok(())) => "connected".to_string(),
        Ok(Err(e)) => format!("error({e})"),
        Err(_) => "timeout".to_string(),
    };
    let sdp_ctx = format!("offer:\n{offer_text}\nanswer:\n{answer_text}");
    match (&ro, &ra) {
        (Ok(Ok(())), Ok(Ok(()))) => {}
        _ => {
            let who = match (matches!(ro, Ok(Ok(()))), matches!(ra, Ok(Ok(())))) {
                (false, false) => "both",
                (false, true) => "offerer",
                (true, false) => "answerer",
                _ => unreachable!(),
            };
            let any_err = matches!(ro, Ok(Err(_))) || matches!(ra, Ok(Err(_)));
            let reasons = [off.pc.disconnect_reason(), ans.pc.disconnect_reason()];
            let msg = format!(
                "{}: offerer {} / answerer {} (bound {connect_timeout:?}; candidate lines: offer {}, answer {}); states: offerer {:?} reason {:?}, answerer {:?} reason {:?}\n{sdp_ctx}",
                p.tag(),
                describe(&ro),
                describe(&ra),
                offer_text.matches("a=candidate").count(),
                answer_text.matches("a=candidate").count(),
                *off.pc.subscribe_peer_state().borrow(),
                reasons[0],
                *ans.pc.subscribe_peer_state().borrow(),
                reasons[1],
            );
            return Err(if any_err {
                // the reason the endpoint itself gives names the failure; which side lost a race does not
                let why = reasons.iter().flatten().map(|r| slug(&format!("{r:?}"))).next();
                match why {
                    // DtlsFailed is what an endpoint reports when its handshake timed out waiting for the peer: a
                    // time-bounded clause (a wrong role / key / fingerprint fails every solo re-run as well)
                    Some(w) if w == "dtlsfailed" => Fail::timing(format!("connect:failed:{w}"), msg),
                    Some(w) => Fail::new(format!("connect:failed:{w}"), msg),
                    None => Fail::new(format!("connect:failed:{who}"), msg),
                }
            } else {
                Fail::timing(format!("connect:timeout:{who}"), msg)
            });
        }
    }
    let connect_ms = t0.elapsed().as_millis();
    if connect_ms > 1000 {
        rec.label("connect>1s");
        if crate::engine::progress() {
            eprintln!("[c10] slow connect {connect_ms} ms at {}", p.tag());
        }
    }

    // Connected with a negotiated data-channel section means the SCTP transport exists (it is created before the
    // DTLS handshake in start_dtls); without it no data channel can ever work. Not time-bounded.
    if p.media.has_dc() {
        for (who, pc) in [("offerer", &off.pc), ("answerer", &ans.pc)] {
            if pc.sctp_diagnostic_info().is_none() {
                return Err(Fail::new(
                    format!("no-sctp-transport-after-connected:{who}"),
                    format!("{}: {who} reports Connected, the negotiated SDP has an application section, but it has no SCTP transport (sctp_diagnostic_info() is None)\n{sdp_ctx}", p.tag()),
                ));
            }
        }
    }

    // exchange
    let mut flows = Vec::new();
    for (from_end, to_end, from_side) in [(&a, &b, Side::A), (&b, &a, Side::B)] {
        if let Some((src, _)) = &from_end.audio {
            let rt = receiver_track(&to_end.pc, MediaKind::Audio, &format!("{:?}", from_side.other()))?;
            flows.push(tokio::spawn(rtp_flow(p, from_side, "audio", src.clone(), rt)));
        }
        if let Some((src, _)) = &from_end.video {
            let rt = receiver_track(&to_end.pc, MediaKind::Video, &format!("{:?}", from_side.other()))?;
            flows.push(tokio::spawn(rtp_flow(p, from_side, "video", src.clone(), rt)));
        }
    }
    let dc_t0 = std::time::Instant::now();
    let dc_task = dc_off.map(|dc| tokio::spawn(dc_exchange(p, off.pc.clone(), ans.pc.clone(), dc)));

    let mut fails: Vec<Fail> = Vec::new();
    let mut late = false;
    for f in flows {
        match f.await {
            Ok(Ok(obs)) => {
                if obs.first_index.unwrap_or(0) > 0 {
                    late = true;
                }
            }
            Ok(Err(e)) => fails.push(e),
            Err(e) => fails.push(Fail::new("harness-task-panic", format!("flow task: {e}"))),
        }
    }
    if let Some(t) = dc_task {
        match t.await {
            Ok(Ok(())) => {
                let ms = dc_t0.elapsed().as_millis();
                if ms > 2500 {
                    rec.label("dc-exchange>2.5s(sctp-retransmission)");
                }
            }
            Ok(Err(e)) => fails.push(e),
            Err(e) => fails.push(Fail::new("harness-task-panic", format!("dc task: {e}"))),
        }
    }
    // a definite failure is reported in preference to a time-bounded one; otherwise flow order (A->B audio, video, B->A ...)
    let first_fail = {
        let all = fails.iter().map(|f| format!("[{}] {}", f.signature, f.msg)).collect::<Vec<_>>().join("\n");
        let pick = fails.iter().position(|f| !f.timing).unwrap_or(0);
        if fails.is_empty() {
            None
        } else {
            let mut f = fails.swap_remove(pick);
            f.msg = all;
            Some(f)
        }
    };
    if late {
        rec.label("rtp-first-received-is-not-first-sent");
    }
    // A media flow that never arrives in a direct (non-ICE) mode: look at the wiring. Each section's SDP advertises the
    // port of its own socket; `RtpSender::transport()` is "the per-media transport, set on negotiation" and the
    // transceiver's receiver is attached to the same transport. A transceiver wired to another section's socket can
    // never receive what its SDP section asks for - a definite defect, not a matter of waiting longer.
    let first_fail = match first_fail {
        Some(f) if f.signature.starts_with("rtp-not-received") && p.mode != Mode::WebRtc && p.bundle == Bundle::NotOffered => {
            let mut wrong = Vec::new();
            for (role, end, sdp) in [("offerer", off, &offer_text), ("answerer", ans, &answer_text)] {
                for t in end.pc.get_transceivers() {
                    let kind = match t.kind() {
                        MediaKind::Audio => "audio",
                        MediaKind::Video => "video",
                        _ => continue,
                    };
                    let advertised = sdp
                        .lines()
                        .find(|l| l.starts_with(&format!("m={kind} ")))
                        .and_then(|l| l.split_whitespace().nth(1))
                        .and_then(|x| x.parse::<u16>().ok());
                    let wired = t.sender().and_then(|s| s.transport()).map(|tr| tr.local_addr().port());
                    if let (Some(a), Some(w)) = (advertised, wired) {
                        if a != w {
                            wrong.push(format!("{role} {kind}: SDP advertises port {a}, transceiver is wired to the socket on port {w}"));
                        }
                    }
                }
            }
            if wrong.is_empty() {
                Some(f)
            } else {
                let kind = if wrong[0].contains(" video:") { "video" } else { "audio" };
                let role = if wrong[0].starts_with("offerer") { "offerer" } else { "answerer" };
                Some(Fail::new(
                    format!("transceiver-on-wrong-transport:{kind}:{role}"),
                    format!("{}\n{}", wrong.join("; "), f.msg),
                ))
            }
        }
        other => other,
    };
    if let Some(mut f) = first_fail {
        f.msg = format!("{}:\n{}\n{sdp_ctx}", p.tag(), f.msg);
        return Err(f);
    }
    Ok(())
}

/// lower-case alphanumerics joined by '-', for signatures
fn slug(x: &str) -> String {
    let mut out = String::new();
    for ch in x.chars() {
        if ch.is_ascii_alphanumeric() {
            out.push(ch.to_ascii_lowercase());
        } else if !out.ends_with('-') {
            out.push('-');
        }
    }
    out.trim_matches('-').chars().take(80).collect()
}

fn answer_sections(sdp: &str) -> usize {
    sdp.lines().filter(|l| l.starts_with("m=")).count()
}

/// Known failure shapes: (name, predicate over the point, failure stage prefix). When a failure of that stage
/// happens at a point of that shape, the signature names the coordinates that matter; any other failure keeps
/// the bare stage signature and alarms.
/// Signatures of known findings that are races (see `KnownRaces`).
const RACE_SIGNATURES: &[&str] = &[
    "connect:failed:transportstartfailed-internal-error-missing-crypto-attributes-for-sdes[mode=Srtp]",
    "no-sctp-transport-after-connected:offerer",
    "transceiver-on-wrong-transport:video:answerer[mode=Rtp,media=AudioVideo,bundle=NotOffered]",
];

const SRTP_NONBUNDLE_AV: &str = "transceiver-on-wrong-transport:video:offerer[mode=Srtp,media=AudioVideo,bundle=NotOffered]";

type Shape = (&'static str, fn(&Point) -> bool, &'static str);
const SHAPES: &[Shape] = &[
    // Srtp mode advertises one port (and one a=crypto) per non-BUNDLE section but only ever starts one transport.
    (
        "mode=Srtp,media=AudioVideo,bundle=NotOffered",
        |p| p.mode == Mode::Srtp && p.media == Media::AudioVideo && p.bundle == Bundle::NotOffered,
        "transceiver-on-wrong-transport:",
    ),
    // Rtp mode, non-BUNDLE: start_dtls (fired by the first section's socket) can wire the second section's transceiver
    // to the first section's transport.
    (
        "mode=Rtp,media=AudioVideo,bundle=NotOffered",
        |p| p.mode == Mode::Rtp && p.media == Media::AudioVideo && p.bundle == Bundle::NotOffered,
        "transceiver-on-wrong-transport:",
    ),
    (
        "mode=Srtp",
        |p| p.mode == Mode::Srtp,
        "connect:failed:transportstartfailed-internal-error-missing-crypto-attributes-for-sdes",
    ),
];

fn finish_signature(p: &Point, mut f: Fail) -> Fail {
    for (name, pred, stage) in SHAPES {
        if f.signature.starts_with(stage) && pred(p) {
            f.signature = format!("{}[{}]", f.signature, name);
            break;
        }
    }
    f
}

fn label_point(p: &Point, rec: &CaseRec) {
    rec.label(format!("mode={:?}", p.mode));
    rec.label(format!("media={:?}", p.media));
    rec.label(format!("bundle={:?}", p.bundle));
    rec.label(format!("mux={:?}", p.mux));
    rec.label(format!("ice={:?}", p.ice));
    rec.label(format!("latch={:?}", p.latch));
    rec.label(format!("compat={:?}", p.compat));
    rec.label(format!("offerer={:?}", p.offerer));
    rec.set_nontrivial(p.differs_from_default() >= 1);
}

/// Known findings that are lost races between rustrtc's own tasks (they need a multi-thread runtime): a point
/// that hits one is run once more on a private single-threaded runtime, where the harness task cannot be
/// overtaken between two awaits, so that the clauses behind the race are still checked. Every hit is counted.
#[derive(Default)]
struct KnownRaces {
    signatures: Vec<String>,
    hits: parking_lot::Mutex<BTreeMap<String, u64>>,
}

async fn run_point(p: Point) -> (CaseRec, Check) {
    let rec = CaseRec::default();
    label_point(&p, &rec);
    let res = run_point_inner(p, &rec).await.map_err(|f| finish_signature(&p, f));
    // let closed connections release their sockets before the slot is reused
    tokio::time::sleep(Duration::from_millis(20)).await;
    (rec, res)
}

async fn run_point_single_threaded(p: Point) -> (CaseRec, Check) {
    let (tx, rx) = tokio::sync::oneshot::channel();
    std::thread::spawn(move || {
        let rt = tokio::runtime::Builder::new_current_thread().enable_all().build().expect("runtime");
        let out = rt.block_on(run_point(p));
        let _ = tx.send(out);
    });
    match rx.await {
        Ok(out) => out,
        Err(_) => (
            CaseRec::default(),
            Err(Fail::new("harness-task-panic", format!("single-threaded run of {} died", p.tag()))),
        ),
    }
}

fn checker(races: Arc<KnownRaces>) -> AsyncCheck<Point> {
    Arc::new(move |p: Point| {
        let races = races.clone();
        Box::pin(async move {
            let (rec, res) = run_point(p).await;
            if let Err(f) = &res {
                if crate::engine::progress() && f.timing {
                    eprintln!("[c10] {} at {} :: {}", f.signature, p.tag(), f.msg.lines().take(4).collect::<Vec<_>>().join(" / ").chars().take(700).collect::<String>());
                }
                if races.signatures.iter().any(|s| s == &f.signature) {
                    *races.hits.lock().entry(f.signature.clone()).or_default() += 1;
                    let (rec2, res2) = run_point_single_threaded(p).await;
                    rec2.label("re-run-single-threaded-after-known-race");
                    return (rec2, res2);
                }
            }
            (rec, res)
        })
    })
}

/// Developer aid (C10_SURVEY=1): run every point of a list, print every failing point, stop at nothing.
fn survey(rt: &tokio::runtime::Runtime, points: &[Point], conc: usize) {
    let chk = checker(Arc::new(KnownRaces::default()));
    let results: Vec<(Point, Check, f64)> = rt.block_on(async {
        let sem = Arc::new(tokio::sync::Semaphore::new(conc));
        let mut hs = Vec::new();
        for p in points.iter().copied() {
            let sem = sem.clone();
            let chk = chk.clone();
            hs.push(tokio::spawn(async move {
                let _g = sem.acquire_owned().await.unwrap();
                let t = std::time::Instant::now();
                let (_rec, res) = chk(p).await;
                (p, res, t.elapsed().as_secs_f64())
            }));
        }
        let mut out = Vec::new();
        for h in hs {
            if let Ok(r) = h.await {
                out.push(r);
            }
        }
        out
    });
    let mut by_sig: BTreeMap<String, Vec<Point>> = BTreeMap::new();
    let mut total = 0.0;
    for (p, res, t) in &results {
        total += t;
        if let Err(f) = res {
            by_sig.entry(f.signature.clone()).or_default().push(*p);
        }
    }
    println!("survey: {} points, {} failing, mean {:.2}s", results.len(), by_sig.values().map(|v| v.len()).sum::<usize>(), total / results.len().max(1) as f64);
    for (sig, ps) in &by_sig {
        println!("== {sig}: {} points", ps.len());
        for p in ps {
            println!("   {}", p.tag());
        }
        if std::env::var("C10_VERBOSE").is_ok() {
            for (p, res, _) in &results {
                if let Err(f) = res {
                    if &f.signature == sig {
                        println!("--- {}\n{}", p.tag(), f.msg);
                        break;
                    }
                }
            }
        }
    }
}

pub fn run(ctx: &mut Ctx) {
    ctx.level = "exploration";
    let all = all_points();
    ctx.rule = format!(
        "lattice mode{{WebRtc,Srtp,Rtp}} x media{{audio,audio+video,dc,dc+audio,dc+audio+video}} x bundle{{offered,not}} x rtcp-mux{{Require,Negotiate}} x ice{{plain,ice-lite on A,ICE-TCP enabled,udp-mux}} x latching{{off,on/probation 0,on/probation 3}} x compat{{Standard,LegacySip}} x offerer{{A,B}}, pruned by the constraints rustrtc states itself (data channels only in WebRtc mode; ICE options only where ICE runs; latching only in Rtp mode; BUNDLE offered iff Standard and >1 section; udp-mux with a port) to {} points. Quick: a pairwise-covering array over the pruned lattice (seeded tie-breaks), 4 passes over the whole pruned product (minus the points of a deterministic known finding, which are counted under excluded_known) and 55 seeded random valid points; thorough: every point of the pruned product, then 39 more passes and 600 seeded random valid points (repeats are wanted: the known races are probabilistic). Each point: two PeerConnections on 127.0.0.1 with the same settings except role, documented non-trickle offer/answer, both Connected, one data-channel message and RTP per media section in each direction compared by payload equality. Non-trivial = the point differs from the default configuration (WebRtc, audio, Require, plain ICE, no latching, Standard, A offers) in >= 1 coordinate; distinct by point.",
        all.len()
    );
    ctx.assumptions = vec![
        "both endpoints run in one process on 127.0.0.1 (bind_ip set); with udp-mux each endpoint has its own mux port (two endpoints sharing one mux socket and talking to each other is not a deployment the option describes)".into(),
        "wait_for_connected() has no deadline of its own: 'within the configured timeouts' is checked as within 12 s (stun_timeout 5 s / nomination_timeout 10 s defaults untouched); exchange clauses within 6 s; all time-bounded clauses are subject to the 3x solo re-run rule".into(),
        "RTP is unreliable by design: the sender repeats a packet every 20 ms until the peer's receiver track yields one; that packet must be byte-identical to the one sent with the index it carries (the class rtp-first-received-is-not-first-sent counts points where an earlier packet was lost)".into(),
        "ice-lite 'on one side' is endpoint A; the data channel is created by the offerer and announced in-band (DCEP)".into(),
        "complementary DTLS roles and identical SRTP keys are witnessed by the successful DTLS handshake and by SRTP-protected payloads arriving intact in both directions, not read from the endpoints".into(),
    ];
    ctx.set_extra("lattice_points_after_pruning", json!(all.len()));

    let rt = tokio::runtime::Builder::new_multi_thread().worker_threads(8).enable_all().build().unwrap();
    let conc = 6;

    if std::env::var("C10_SURVEY").is_ok() {
        let pts: Vec<Point> = match std::env::var("C10_SURVEY").as_deref() {
            Ok("pairwise") => pairwise(&all, &[]),
            Ok(s) if s.starts_with('[') => serde_json::from_str(s).expect("C10_SURVEY json list of points"),
            _ => all.clone(),
        };
        survey(&rt, &pts, conc);
        return;
    }

    let races = Arc::new(KnownRaces {
        signatures: RACE_SIGNATURES.iter().filter(|s| ctx.is_known(s)).map(|s| s.to_string()).collect(),
        hits: Default::default(),
    });
    // seeded random valid points on top of the systematic part (repeats are wanted: the known races are probabilistic)
    let extra = ctx.scale(55usize, 600usize);
    let randoms: Vec<Point> = ctx.draw("random-points", extra, &random_point()).into_iter().map(|t| t.current()).collect();
    let known_det = ctx.is_known(SRTP_NONBUNDLE_AV);
    let in_known_shape = |p: &Point| p.mode == Mode::Srtp && p.media == Media::AudioVideo && p.bundle == Bundle::NotOffered;
    // A known finding that fails deterministically on every point of its shape costs 4 timed-out runs per point:
    // repeated passes and the quick tier steer away from the shape and count what they skipped; the first pass of the
    // thorough tier runs every point.
    let mut skipped = 0u64;
    let steer = |v: Vec<Point>, skipped: &mut u64| -> Vec<Point> {
        if !known_det {
            return v;
        }
        let before = v.len();
        let v: Vec<Point> = v.into_iter().filter(|p| !in_known_shape(p)).collect();
        *skipped += (before - v.len()) as u64;
        v
    };
    let mut list: Vec<Point> = Vec::new();
    if ctx.thorough() {
        list.extend(all.iter().copied());
        let passes = 39;
        for _ in 0..passes {
            list.extend(steer(all.clone(), &mut skipped));
        }
        ctx.set_extra("full_product_passes", json!(passes + 1));
    } else {
        // seeded tie-break keys for the greedy covering array
        let keys: Vec<u32> = ctx
            .draw("pairwise-keys", 1, &proptest::collection::vec(any::<u32>(), all.len()))
            .into_iter()
            .next()
            .map(|t| t.current())
            .unwrap_or_default();
        let arr = pairwise(&all, &keys);
        ctx.set_extra("pairwise_array_size", json!(arr.len()));
        list.extend(steer(arr, &mut skipped));
        // a point costs ~30 ms, so the quick tier can afford passes over the whole pruned product as well
        for _ in 0..4 {
            list.extend(steer(all.clone(), &mut skipped));
        }
        ctx.set_extra("full_product_passes", json!(4));
    }
    ctx.set_extra("systematic_points", json!(list.len()));
    ctx.set_extra("random_points", json!(randoms.len()));
    list.extend(steer(randoms, &mut skipped));
    if skipped > 0 {
        ctx.note_excluded(SRTP_NONBUNDLE_AV, skipped);
    }
    let n = list.len();
    ctx.sub_async(&rt, "lattice", n, conc, PointSource::list(list), checker(races.clone()));
    // thorough: every point of the pruned product was run (the systematic part comes first; a violation stops the batch)
    ctx.set_exhaustive(ctx.thorough() && !ctx.has_violation());
    for (sig, n) in races.hits.lock().iter() {
        ctx.note_excluded(sig, *n);
    }
}

#[cfg(test)]
mod tests {
    use super::*;
    #[test]
    fn lattice_size_and_pairwise_cover() {
        let all = all_points();
        assert_eq!(all.len(), 272);
        let arr = pairwise(&all, &[]);
        assert!(arr.len() < 80, "{}", arr.len());
    }
}
