//! C10 — any two compatibly configured endpoints connect and exchange data and media.
//!
//! E5 rig: two real `PeerConnection`s in one runtime on loopback, both built from the same lattice
//! point (same settings except role), the documented non-trickle offer/answer exchange, then one
//! data-channel message (if the point has a data channel) and RTP in each direction of every media
//! section, compared by payload equality at `DataChannel::recv()` / the receiver track.
//!
//! The lattice and the constraints that prune it are in `Point::violated_constraint`; every
//! constraint carries the line of rustrtc code or documentation that states it. No point is pruned
//! because it fails.

use crate::engine::{AsyncCheck, CaseRec, Check, Ctx, Fail};
use bytes::Bytes;
use proptest::prelude::*;
use proptest::strategy::{NewTree, ValueTree};
use proptest::test_runner::TestRunner;
use rustrtc::media::MediaStreamTrack;
use rustrtc::media::frame::{AudioFrame, MediaKind as FrameKind, MediaSample, VideoFrame};
use rustrtc::media::track::{SampleStreamSource, SampleStreamTrack, sample_track};
use rustrtc::transports::sctp::{DataChannel, DataChannelConfig};
use rustrtc::{
    DataChannelEvent, MediaKind, PeerConnection, PeerConnectionEvent, RtcConfiguration,
    RtpCodecParameters, SessionDescription, TransportMode,
};
use serde::{Deserialize, Serialize};
use serde_json::json;
use std::collections::{BTreeMap, BTreeSet};
use std::sync::Arc;
use std::sync::atomic::{AtomicU32, AtomicUsize, Ordering};
use std::time::Duration;

// ---------------------------------------------------------------------------------------------
// The lattice
// ---------------------------------------------------------------------------------------------

#[derive(Clone, Copy, Debug, PartialEq, Eq, PartialOrd, Ord, Serialize, Deserialize)]
pub enum Mode {
    WebRtc,
    Srtp,
    Rtp,
}

#[derive(Clone, Copy, Debug, PartialEq, Eq, PartialOrd, Ord, Serialize, Deserialize)]
pub enum Media {
    Audio,
    AudioVideo,
    Dc,
    DcAudio,
    DcAudioVideo,
}

#[derive(Clone, Copy, Debug, PartialEq, Eq, PartialOrd, Ord, Serialize, Deserialize)]
pub enum Bundle {
    NotOffered,
    Offered,
}

#[derive(Clone, Copy, Debug, PartialEq, Eq, PartialOrd, Ord, Serialize, Deserialize)]
pub enum Mux {
    Require,
    Negotiate,
}

#[derive(Clone, Copy, Debug, PartialEq, Eq, PartialOrd, Ord, Serialize, Deserialize)]
pub enum IceOpt {
    Plain,
    /// `enable_ice_lite` on endpoint A only ("ice-lite on one side"); with `offerer` this gives
    /// lite-on-offerer and lite-on-answerer.
    LiteA,
}

/// Which endpoint(s) use the process-wide shared UDP socket (`ice_udp_mux = true` with its own, fresh
/// `ice_udp_mux_port` per endpoint and point).
#[derive(Clone, Copy, Debug, PartialEq, Eq, PartialOrd, Ord, Serialize, Deserialize, Default)]
pub enum UMux {
    #[default]
    Off,
    Offerer,
    Answerer,
    Both,
}

impl UMux {
    fn on_offerer(self) -> bool {
        matches!(self, UMux::Offerer | UMux::Both)
    }
    fn on_answerer(self) -> bool {
        matches!(self, UMux::Answerer | UMux::Both)
    }
}

/// Which ICE transports one endpoint gathers (per side: `tr_off` for the offerer, `tr_ans` for the answerer).
#[derive(Clone, Copy, Debug, PartialEq, Eq, PartialOrd, Ord, Serialize, Deserialize, Default)]
pub enum Tr {
    /// UDP host candidates only (`ice_tcp_policy = Disabled`, the default)
    #[default]
    Udp,
    /// UDP hosts and passive TCP listeners (`ice_tcp_policy = Enabled`)
    UdpTcp,
    /// no UDP hosts, passive TCP listener in a configured port range
    /// (`ice_gather_udp_hosts = false`, `ice_tcp_policy = Enabled`, `tcp_port_range_*`)
    TcpPassive,
    /// no UDP hosts, no listen range: active TCP candidates only
    /// (`ice_gather_udp_hosts = false`, `ice_tcp_policy = Enabled`)
    TcpActive,
}

impl Tr {
    fn has_udp(self) -> bool {
        matches!(self, Tr::Udp | Tr::UdpTcp)
    }
    fn has_tcp(self) -> bool {
        !matches!(self, Tr::Udp)
    }
}

/// `rtp_start_port` / `rtp_end_port`, the same fresh range on both endpoints of a point (they share 127.0.0.1).
#[derive(Clone, Copy, Debug, PartialEq, Eq, PartialOrd, Ord, Serialize, Deserialize, Default)]
pub enum PortRange {
    /// not configured (ephemeral ports)
    #[default]
    Default,
    /// 100 ports
    Wide,
    /// exactly as many even ports as the two endpoints of the point bind RTP sockets: the last one to bind must find the
    /// single port that is left
    Tight,
    /// one even port more than needed
    TightPlus1,
}

#[derive(Clone, Copy, Debug, PartialEq, Eq, PartialOrd, Ord, Serialize, Deserialize)]
pub enum Latch {
    Off,
    On0,
    On3,
}

#[derive(Clone, Copy, Debug, PartialEq, Eq, PartialOrd, Ord, Serialize, Deserialize)]
pub enum Compat {
    Standard,
    LegacySip,
}

#[derive(Clone, Copy, Debug, PartialEq, Eq, PartialOrd, Ord, Serialize, Deserialize)]
pub enum Side {
    A,
    B,
}

impl Side {
    fn other(self) -> Side {
        match self {
            Side::A => Side::B,
            Side::B => Side::A,
        }
    }
}

#[derive(Clone, Copy, Debug, PartialEq, Eq, PartialOrd, Ord, Serialize, Deserialize)]
pub struct Point {
    pub mode: Mode,
    pub media: Media,
    pub bundle: Bundle,
    pub mux: Mux,
    pub ice: IceOpt,
    #[serde(default)]
    pub tr_off: Tr,
    #[serde(default)]
    pub tr_ans: Tr,
    #[serde(default)]
    pub umux: UMux,
    pub latch: Latch,
    pub compat: Compat,
    pub offerer: Side,
    #[serde(default)]
    pub range: PortRange,
}

const MODES: [Mode; 3] = [Mode::WebRtc, Mode::Srtp, Mode::Rtp];
const MEDIAS: [Media; 5] = [Media::Audio, Media::AudioVideo, Media::Dc, Media::DcAudio, Media::DcAudioVideo];
const BUNDLES: [Bundle; 2] = [Bundle::NotOffered, Bundle::Offered];
const MUXES: [Mux; 2] = [Mux::Require, Mux::Negotiate];
const ICES: [IceOpt; 2] = [IceOpt::Plain, IceOpt::LiteA];
const RANGES: [PortRange; 4] = [PortRange::Default, PortRange::Wide, PortRange::Tight, PortRange::TightPlus1];
const UMUXES: [UMux; 4] = [UMux::Off, UMux::Offerer, UMux::Answerer, UMux::Both];
const TRS: [Tr; 4] = [Tr::Udp, Tr::UdpTcp, Tr::TcpPassive, Tr::TcpActive];
const LATCHES: [Latch; 3] = [Latch::Off, Latch::On0, Latch::On3];
const COMPATS: [Compat; 2] = [Compat::Standard, Compat::LegacySip];
const SIDES: [Side; 2] = [Side::A, Side::B];

impl Media {
    fn has_dc(self) -> bool {
        matches!(self, Media::Dc | Media::DcAudio | Media::DcAudioVideo)
    }
    fn has_audio(self) -> bool {
        !matches!(self, Media::Dc)
    }
    fn has_video(self) -> bool {
        matches!(self, Media::AudioVideo | Media::DcAudioVideo)
    }
    fn sections(self) -> usize {
        self.has_dc() as usize + self.has_audio() as usize + self.has_video() as usize
    }
}

impl Point {
    pub const DEFAULT: Point = Point {
        mode: Mode::WebRtc,
        media: Media::Audio,
        bundle: Bundle::NotOffered,
        mux: Mux::Require,
        ice: IceOpt::Plain,
        tr_off: Tr::Udp,
        tr_ans: Tr::Udp,
        umux: UMux::Off,
        latch: Latch::Off,
        compat: Compat::Standard,
        offerer: Side::A,
        range: PortRange::Default,
    };

    /// The constraint this point violates, if any. Each constraint is stated by rustrtc itself;
    /// the quotation is given next to it. A point is never excluded for failing.
    pub fn violated_constraint(&self) -> Option<&'static str> {
        // (1) Data channels only in WebRtc mode.
        //   src/sdp.rs:1125-1126          `self.protocol = "UDP/DTLS/SCTP".into(); self.formats = vec!["webrtc-datachannel".into()];`
        //                                 (a data channel section is SCTP over DTLS)
        //   src/peer_connection.rs:5197   "Only WebRTC uses DTLS-SRTP (a=fingerprint / a=setup). SDES-SRTP (TransportMode::Srtp)
        //                                  keys via a=crypto and must NOT advertise DTLS attributes"
        //   src/peer_connection.rs:815    "RTP / SDES-SRTP: skip ICE gathering/connectivity/DTLS loops."
        //   src/peer_connection.rs:3334   "Returns `None` when there is no SCTP transport (e.g. RTP-only sessions)."
        if self.media.has_dc() && self.mode != Mode::WebRtc {
            return Some("data channels only in WebRtc mode (no DTLS, hence no SCTP, in Srtp/Rtp mode)");
        }
        // (2) ICE options only where ICE runs.
        //   src/peer_connection.rs:738    "SDES-SRTP uses a direct transport like RTP (c-line address + a=crypto), NOT full ICE"
        //   src/peer_connection.rs:4819   "SDES-SRTP (TransportMode::Srtp) also uses a direct transport like RTP — it does NOT run ICE."
        //   src/peer_connection.rs:3908   "Simplified loop for RTP mode. ... No ICE gathering or STUN."
        //   src/transports/ice/mod.rs:1197 "Set up a direct UDP socket for RTP mode without any ICE gathering, STUN lookups, or connectivity checks."
        //   => no ICE option in Srtp mode; in Rtp mode only ICE-lite, which the code supports explicitly:
        //   src/peer_connection.rs:4866   "ICE-lite in RTP mode: include ICE attributes so remote full-ICE agents can perform
        //                                  connectivity checks against us."
        //   ICE-TCP needs candidate gathering and connectivity checks:
        //   src/config.rs:65,542          "Controls ICE TCP candidate support (RFC 6544)." / "only UDP candidates are gathered and used"
        //   The shared UDP mux socket is NOT restricted to ICE: packets are also routed by the destinations a session sent to
        //   (src/transports/ice/shared_udp.rs:10-14 "Outbound sends through a [`SharedUdpHandle`] also record their destination"),
        //   and resolve_socket() hands the mux handle to the direct (Srtp) path as well, so it is a coordinate in every mode.
        match (self.mode, self.ice) {
            (_, IceOpt::Plain) | (Mode::WebRtc, _) | (Mode::Rtp, IceOpt::LiteA) => {}
            (Mode::Srtp, _) => return Some("ICE options only where ICE runs (Srtp mode does NOT run ICE)"),
        }
        if let Some(c) = self.tr_constraint() {
            return Some(c);
        }
        // (3) Latching only in Rtp mode.
        //   README.md:137                 "`enable_latching` — Enable dynamic remote address detection for RTP-only mode."
        //   src/peer_connection.rs:2086   `if self.config().transport_mode == TransportMode::Rtp && self.config().enable_latching {`
        if self.latch != Latch::Off && self.mode != Mode::Rtp {
            return Some("latching only in Rtp mode");
        }
        // (4) BUNDLE is offered exactly when the compatibility mode is Standard and there is more than one section
        //     (`bundle_policy` is not read anywhere in rustrtc; "not offered" is reachable through LegacySip or a single section).
        //   src/peer_connection.rs:4652   "For offers we only group when there is more than one section to stay compatible with
        //                                  plain-RTP/SIP peers."
        //   src/peer_connection.rs:4654   `let will_bundle = self.config.sdp_compatibility != SdpCompatibilityMode::LegacySip
        //                                  && match sdp_type { SdpType::Offer => ordered_transceivers.len() > 1, ..`
        //   src/config.rs:405             "Compatibility mode for legacy SIP endpoints (e.g. Linphone): omits `a=mid` unless BUNDLE is
        //                                  active, omits `a=rtcp-mux`."
        if self.bundle != Self::derived_bundle(self.media, self.compat) {
            return Some("BUNDLE is offered iff sdp_compatibility is Standard and the offer has more than one section");
        }
        // (5) UDP mux needs a port: the rig always supplies one per endpoint, so nothing is pruned.
        //   src/config.rs:553             "Requires `ice_udp_mux_port` to be set."
        None
    }

    fn tr_constraint(&self) -> Option<&'static str> {
        // (2b) Per-side ICE transports {UDP, UDP+TCP, TCP only} are ICE candidate gathering options: only where ICE gathers
        //      and checks candidates (same quotations as (2)), i.e. WebRtc mode.
        if (self.tr_off != Tr::Udp || self.tr_ans != Tr::Udp) && self.mode != Mode::WebRtc {
            return Some("ICE-TCP / host gathering options only where ICE runs (WebRtc mode)");
        }
        // (2c) "compatibly configured": the two ends must share at least one transport protocol.
        if !((self.tr_off.has_udp() && self.tr_ans.has_udp()) || (self.tr_off.has_tcp() && self.tr_ans.has_tcp())) {
            return Some("not compatibly configured: the endpoints share no ICE transport protocol");
        }
        // (2c') An endpoint that gathers only *active* TCP candidates (no UDP hosts, no listen range) is the offerer:
        //   src/transports/ice/mod.rs:3674 "Outbound controlling peers with no TCP listen range advertise active locals.
        //                                   WHEP/answerer setups configure tcp_port_range_* for passive listeners"
        //   src/transports/ice/mod.rs:3930 "Advertise ICE-TCP active host candidates for controlling clients (no UDP gather)."
        //   (active/active also shares no usable pair: RFC 6544 pairs active only with passive)
        if self.tr_ans == Tr::TcpActive {
            return Some("active-only TCP candidates are for the controlling (offering) side; answerers configure a listen range");
        }
        // (2d) The shared mux socket is a UDP host candidate: where ICE gathers (WebRtc) it only exists on a side that gathers
        //      UDP hosts.
        //   src/transports/ice/mod.rs:3669 `if self.config.ice_gather_udp_hosts { ... self.gather_host_candidates() ...`
        //   src/transports/ice/mod.rs:3839 (inside gather_host_candidates) `if self.config.ice_udp_mux && let Err(e) =
        //                                   self.gather_shared_udp_host_candidate().await`
        if (self.umux.on_offerer() && !self.tr_off.has_udp()) || (self.umux.on_answerer() && !self.tr_ans.has_udp()) {
            return Some("udp-mux is a UDP host candidate: needs UDP host gathering on that side");
        }
        None
    }

    fn derived_bundle(media: Media, compat: Compat) -> Bundle {
        if compat == Compat::Standard && media.sections() > 1 {
            Bundle::Offered
        } else {
            Bundle::NotOffered
        }
    }

    fn valid(&self) -> bool {
        self.violated_constraint().is_none()
    }

    fn coords(&self) -> [usize; 12] {
        [
            self.mode as usize,
            self.media as usize,
            self.bundle as usize,
            self.mux as usize,
            self.ice as usize,
            self.tr_off as usize,
            self.tr_ans as usize,
            self.umux as usize,
            self.latch as usize,
            self.compat as usize,
            self.offerer as usize,
            self.range as usize,
        ]
    }

    fn differs_from_default(&self) -> usize {
        let d = Point::DEFAULT.coords();
        self.coords().iter().zip(d.iter()).filter(|(a, b)| a != b).count()
    }

    fn tag(&self) -> String {
        format!(
            "mode={:?},media={:?},bundle={:?},mux={:?},ice={:?},tr={:?}/{:?},umux={:?},latch={:?},compat={:?},offerer={:?},range={:?}",
            self.mode, self.media, self.bundle, self.mux, self.ice, self.tr_off, self.tr_ans, self.umux, self.latch, self.compat, self.offerer, self.range
        )
    }
}

/// The full pruned product.
pub fn all_points() -> Vec<Point> {
    let mut v = Vec::new();
    for mode in MODES {
        for media in MEDIAS {
            for bundle in BUNDLES {
                for mux in MUXES {
                    for ice in ICES {
                        for tr_off in TRS {
                            for tr_ans in TRS {
                                for umux in UMUXES {
                                    for latch in LATCHES {
                                        for compat in COMPATS {
                                            for offerer in SIDES {
                                                for range in RANGES {
                                                    let p = Point { mode, media, bundle, mux, ice, tr_off, tr_ans, umux, latch, compat, offerer, range };
                                                    if p.valid() {
                                                        v.push(p);
                                                    }
                                                }
                                            }
                                        }
                                    }
                                }
                            }
                        }
                    }
                }
            }
        }
    }
    v
}

/// Greedy pairwise-covering array over the pruned lattice: every pair of coordinate values that
/// occurs together in some valid point occurs together in some chosen point. `keys` (seeded) break ties.
pub fn pairwise(all: &[Point], keys: &[u32]) -> Vec<Point> {
    let mut uncovered: BTreeSet<(usize, usize, usize, usize)> = BTreeSet::new();
    let pairs_of = |p: &Point| {
        // the per-side transports enter as one compound coordinate, so that every (tr_off, tr_ans) combination is
        // crossed with every value of every other coordinate
        let c0 = p.coords();
        let c = [c0[0], c0[1], c0[2], c0[3], c0[4], c0[5] * 4 + c0[6], c0[7], c0[8], c0[9], c0[10], c0[11]];
        let mut out = Vec::with_capacity(28);
        for i in 0..c.len() {
            for j in (i + 1)..c.len() {
                out.push((i, c[i], j, c[j]));
            }
        }
        out
    };
    for p in all {
        uncovered.extend(pairs_of(p));
    }
    let mut chosen = Vec::new();
    while !uncovered.is_empty() {
        let mut best: Option<(usize, u32, usize)> = None; // (gain, key, index)
        for (idx, p) in all.iter().enumerate() {
            let gain = pairs_of(p).iter().filter(|q| uncovered.contains(q)).count();
            let key = keys.get(idx).copied().unwrap_or(idx as u32);
            let better = match best {
                None => gain > 0,
                Some((g, k, _)) => gain > g || (gain == g && gain > 0 && key < k),
            };
            if better {
                best = Some((gain, key, idx));
            }
        }
        let Some((_, _, idx)) = best else { break };
        for q in pairs_of(&all[idx]) {
            uncovered.remove(&q);
        }
        chosen.push(all[idx]);
    }
    chosen
}

/// The per-side transport pairs the constraints allow for a mode and ICE option.
fn tr_pairs(mode: Mode, ice: IceOpt) -> Vec<(Tr, Tr)> {
    let mut v = Vec::new();
    for a in TRS {
        for b in TRS {
            let p = Point { mode, ice, tr_off: a, tr_ans: b, media: Media::Audio, latch: Latch::Off, ..Point::DEFAULT };
            let ok_mode = mode == Mode::WebRtc || (a == Tr::Udp && b == Tr::Udp);
            if ok_mode && p.tr_constraint().is_none() {
                v.push((a, b));
            }
        }
    }
    v
}

/// Random valid point, built by construction: mode first, then only the values the mode allows.
fn random_point() -> impl Strategy<Value = Point> {
    (any::<[u16; 10]>()).prop_map(|r| {
        let pick = |x: u16, n: usize| crate::engine::pick(x, n);
        // WebRtc carries most of the lattice (all transport combinations): weight it accordingly
        const MODE_W: [Mode; 10] = [Mode::WebRtc, Mode::WebRtc, Mode::WebRtc, Mode::WebRtc, Mode::WebRtc, Mode::WebRtc, Mode::Srtp, Mode::Srtp, Mode::Rtp, Mode::Rtp];
        let mode = MODE_W[pick(r[0], 10)];
        let medias: &[Media] = if mode == Mode::WebRtc { &MEDIAS } else { &[Media::Audio, Media::AudioVideo] };
        let media = medias[pick(r[1], medias.len())];
        let ices: &[IceOpt] = match mode {
            Mode::WebRtc => &ICES,
            Mode::Srtp => &[IceOpt::Plain],
            Mode::Rtp => &[IceOpt::Plain, IceOpt::LiteA],
        };
        let ice = ices[pick(r[2], ices.len())];
        let latch = if mode == Mode::Rtp { LATCHES[pick(r[3], 3)] } else { Latch::Off };
        let compat = COMPATS[pick(r[4], 2)];
        let trs = tr_pairs(mode, ice);
        let (tr_off, tr_ans) = trs[pick(r[7], trs.len())];
        // the mux only on sides that gather UDP hosts (by construction)
        let umuxes: Vec<UMux> = UMUXES
            .iter()
            .copied()
            .filter(|u| (!u.on_offerer() || tr_off.has_udp()) && (!u.on_answerer() || tr_ans.has_udp()))
            .collect();
        let umux = umuxes[pick(r[8], umuxes.len())];
        let p = Point {
            mode,
            media,
            bundle: Point::derived_bundle(media, compat),
            mux: MUXES[pick(r[5], 2)],
            ice,
            tr_off,
            tr_ans,
            umux,
            latch,
            compat,
            offerer: SIDES[pick(r[6], 2)],
            // the tight ranges are the interesting ones (the start index inside rustrtc is random: repeats wanted)
            range: [PortRange::Default, PortRange::Default, PortRange::Wide, PortRange::Tight, PortRange::Tight, PortRange::Tight, PortRange::TightPlus1, PortRange::TightPlus1][pick(r[9], 8)],
        };
        debug_assert!(p.valid());
        p
    })
}

// ---------------------------------------------------------------------------------------------
// Strategy that serves an explicit list (or random points) and shrinks one coordinate at a time
// ---------------------------------------------------------------------------------------------

struct PointSource {
    list: Option<Arc<Vec<Point>>>,
    next: Arc<AtomicUsize>,
    random: BoxedStrategy<Point>,
}

impl std::fmt::Debug for PointSource {
    fn fmt(&self, f: &mut std::fmt::Formatter<'_>) -> std::fmt::Result {
        write!(f, "PointSource(list={:?})", self.list.as_ref().map(|l| l.len()))
    }
}

impl PointSource {
    fn list(points: Vec<Point>) -> Self {
        Self { list: Some(Arc::new(points)), next: Arc::new(AtomicUsize::new(0)), random: random_point().boxed() }
    }
}

impl Strategy for PointSource {
    type Tree = PointTree;
    type Value = Point;
    fn new_tree(&self, runner: &mut TestRunner) -> NewTree<Self> {
        let p = match &self.list {
            Some(l) => l[self.next.fetch_add(1, Ordering::SeqCst) % l.len()],
            None => self.random.new_tree(runner)?.current(),
        };
        Ok(PointTree { cur: p, prev: None, next_coord: 0 })
    }
}

/// Shrinks towards `Point::DEFAULT` by resetting one coordinate at a time (the minimal failing
/// sub-configuration is the point where no single coordinate can be reset without the failure vanishing).
pub struct PointTree {
    cur: Point,
    prev: Option<Point>,
    next_coord: usize,
}

impl PointTree {
    /// candidate with coordinate `c` reset to its default (bundle is re-derived); None if unchanged or invalid
    fn reset(p: &Point, c: usize) -> Option<Point> {
        // order of attempts: latch, ice, udp-mux (off, one side), then the rest
        const ORDER: [usize; 17] = [0, 1, 16, 13, 14, 15, 2, 3, 4, 5, 6, 7, 8, 9, 10, 11, 12];
        let c = ORDER[c];
        let mut q = *p;
        match c {
            0 => q.latch = Point::DEFAULT.latch,
            1 => q.ice = Point::DEFAULT.ice,
            2 => q.mux = Point::DEFAULT.mux,
            3 => q.offerer = Point::DEFAULT.offerer,
            4 => q.compat = Point::DEFAULT.compat,
            5 => q.media = if p.media.has_dc() && p.media != Media::Dc { Media::Dc } else { Point::DEFAULT.media },
            6 => q.media = if p.media.has_video() { if p.media.has_dc() { Media::DcAudio } else { Media::Audio } } else { p.media },
            7 => q.tr_ans = Tr::Udp,
            8 => q.tr_off = Tr::Udp,
            9 => {
                q.tr_off = Tr::Udp;
                q.tr_ans = Tr::Udp;
            }
            10 => q.tr_ans = if p.tr_ans.has_udp() { p.tr_ans } else { Tr::UdpTcp },
            11 => q.tr_off = if p.tr_off.has_udp() { p.tr_off } else { Tr::UdpTcp },
            12 => q.mode = Point::DEFAULT.mode,
            13 => q.umux = UMux::Off,
            14 => q.umux = if p.umux == UMux::Both { UMux::Offerer } else { p.umux },
            15 => q.umux = if p.umux == UMux::Both { UMux::Answerer } else { p.umux },
            16 => q.range = PortRange::Default,
            _ => return None,
        }
        q.bundle = Point::derived_bundle(q.media, q.compat);
        (q != *p && q.valid()).then_some(q)
    }
    fn advance(&mut self) -> bool {
        while self.next_coord < 17 {
            let c = self.next_coord;
            self.next_coord += 1;
            if let Some(q) = Self::reset(&self.cur, c) {
                self.prev = Some(self.cur);
                self.cur = q;
                return true;
            }
        }
        false
    }
}

impl ValueTree for PointTree {
    type Value = Point;
    fn current(&self) -> Point {
        self.cur
    }
    fn simplify(&mut self) -> bool {
        // the current value failed: keep it and try the next coordinate
        self.prev = None;
        self.advance()
    }
    fn complicate(&mut self) -> bool {
        // the current value passed: go back and try the next coordinate from the failing one
        match self.prev.take() {
            Some(p) => {
                self.cur = p;
                self.advance()
            }
            None => false,
        }
    }
}

// ---------------------------------------------------------------------------------------------
// The rig
// ---------------------------------------------------------------------------------------------

const STEP_TIMEOUT: Duration = Duration::from_secs(8);
/// `wait_for_connected()` has no deadline of its own; the configured ICE timeouts are stun_timeout 5 s,
/// nomination_timeout 10 s, ice_connection_timeout 120 s (defaults, left untouched). Loopback connects in
/// tens of milliseconds; 12 s is the harness bound for "within the configured timeouts".
const CONNECT_TIMEOUT: Duration = Duration::from_secs(12);
/// hard bound for one RTP flow (burst + tail take ~0.2 s)
const EXCHANGE_TIMEOUT: Duration = Duration::from_secs(8);
/// SCTP recovers a lost INIT / DCEP message only after sctp_rto_initial (3 s by default, doubling), so the
/// data-channel clauses get a bound that covers several retransmissions.
const DC_TIMEOUT: Duration = Duration::from_secs(12);

static NEXT_PORT: AtomicU32 = AtomicU32::new(0);

/// `n` consecutive ports on 127.0.0.1, free for UDP and TCP (a resource, not a decision), for `ice_udp_mux_port` and
/// `tcp_port_range_*`. Taken from below the ephemeral range (32768..) so that no other socket of a concurrently
/// running point can grab them between the probe and rustrtc's bind.
fn alloc_ports(n: u16) -> u16 {
    loop {
        let k = NEXT_PORT.fetch_add(n as u32, Ordering::SeqCst);
        let port = (10000 + ((std::process::id() % 97) * 211 + k) % 20000) as u16;
        let free = (0..n).all(|i| {
            std::net::UdpSocket::bind(("127.0.0.1", port + i)).is_ok()
                && std::net::TcpListener::bind(("127.0.0.1", port + i)).is_ok()
        });
        if free {
            return port;
        }
    }
}

#[derive(Clone, Copy, Default)]
struct Ports {
    rtp_range: Option<(u16, u16)>,
    mux: Option<u16>,
    tcp_range: Option<(u16, u16)>,
}

impl Point {
    /// Number of RTP sockets (even ports of the configured range) the endpoint in the given role binds.
    fn rtp_sockets(&self, offerer_side: bool) -> u16 {
        let (tr, muxed) = if offerer_side { (self.tr_off, self.umux.on_offerer()) } else { (self.tr_ans, self.umux.on_answerer()) };
        let sections = (self.media.has_audio() as u16) + (self.media.has_video() as u16);
        let per_section = if self.bundle == Bundle::NotOffered { sections.max(1) } else { 1 };
        match self.mode {
            // one UDP host socket, unless the shared mux socket (its own port) or no UDP host at all
            Mode::WebRtc => (tr.has_udp() && !muxed) as u16,
            // one socket per non-BUNDLE section; Rtp mode ignores the mux
            Mode::Rtp => per_section,
            // the first section's socket is the gathered host candidate (the mux socket if muxed), the others are direct
            Mode::Srtp => per_section - (muxed as u16),
        }
    }
}

/// The point's RTP port range: fresh and disjoint from every other point's (counter-based, below the ephemeral range).
fn rtp_range_for(p: &Point) -> Option<(u16, u16)> {
    let need = (p.rtp_sockets(true) + p.rtp_sockets(false)).max(1);
    let even_ports = match p.range {
        PortRange::Default => return None,
        PortRange::Wide => 50,
        PortRange::Tight => need,
        PortRange::TightPlus1 => need + 1,
    };
    // 2 * even_ports ports, starting on an even one (RTCP of a non-muxed section sits on the odd port above)
    let base = alloc_ports(2 * even_ports + 1);
    let start = base + (base % 2);
    Some((start, start + 2 * (even_ports - 1)))
}

fn ports_for(p: &Point, side: Side) -> Ports {
    let tr = if side == p.offerer { p.tr_off } else { p.tr_ans };
    Ports {
        rtp_range: None,
        // a fresh port per endpoint and point: re-binding a mux port right after its last session closed fails for up to
        // 250 ms on the unchanged tree (the old demux task still holds the socket)
        mux: (if side == p.offerer { p.umux.on_offerer() } else { p.umux.on_answerer() }).then(|| alloc_ports(1)),
        tcp_range: (tr == Tr::TcpPassive).then(|| {
            let base = alloc_ports(3);
            (base, base + 2)
        }),
    }
}

fn config_for(p: &Point, side: Side, ports: Ports) -> RtcConfiguration {
    let mut c = RtcConfiguration::default();
    c.transport_mode = match p.mode {
        Mode::WebRtc => TransportMode::WebRtc,
        Mode::Srtp => TransportMode::Srtp,
        Mode::Rtp => TransportMode::Rtp,
    };
    c.bind_ip = Some("127.0.0.1".to_string());
    c.rtcp_mux_policy = match p.mux {
        Mux::Require => rustrtc::config::RtcpMuxPolicy::Require,
        Mux::Negotiate => rustrtc::config::RtcpMuxPolicy::Negotiate,
    };
    c.sdp_compatibility = match p.compat {
        Compat::Standard => rustrtc::config::SdpCompatibilityMode::Standard,
        Compat::LegacySip => rustrtc::config::SdpCompatibilityMode::LegacySip,
    };
    match p.ice {
        IceOpt::Plain => {}
        IceOpt::LiteA => c.enable_ice_lite = side == Side::A,
    }
    if let Some((start, end)) = ports.rtp_range {
        c.rtp_start_port = Some(start);
        c.rtp_end_port = Some(end);
    }
    if let Some(port) = ports.mux {
        c.ice_udp_mux = true;
        c.ice_udp_mux_port = Some(port);
    }
    let tr = if side == p.offerer { p.tr_off } else { p.tr_ans };
    match tr {
        Tr::Udp => {}
        Tr::UdpTcp => c.ice_tcp_policy = rustrtc::config::IceTcpPolicy::Enabled,
        Tr::TcpPassive => {
            c.ice_gather_udp_hosts = false;
            c.ice_tcp_policy = rustrtc::config::IceTcpPolicy::Enabled;
            if let Some((s, e)) = ports.tcp_range {
                c.tcp_port_range_start = Some(s);
                c.tcp_port_range_end = Some(e);
            }
        }
        Tr::TcpActive => {
            c.ice_gather_udp_hosts = false;
            c.ice_tcp_policy = rustrtc::config::IceTcpPolicy::Enabled;
        }
    }
    match p.latch {
        Latch::Off => {}
        Latch::On0 => {
            c.enable_latching = true;
            c.probation_max_packets = Some(0);
        }
        Latch::On3 => {
            c.enable_latching = true;
            c.probation_max_packets = Some(3);
        }
    }
    // the whole burst fits the per-SSRC receive buffer, so a slow reader task cannot make the receiver drop packets
    c.rtp_buffer_capacity = 1024;
    c.label = Some(format!("c10-{:?}", side));
    c
}

struct Closer(Vec<PeerConnection>);
impl Drop for Closer {
    fn drop(&mut self) {
        for pc in &self.0 {
            pc.close();
        }
    }
}

struct End {
    pc: PeerConnection,
    audio: Option<(Arc<SampleStreamSource>, Arc<SampleStreamTrack>)>,
    video: Option<(Arc<SampleStreamSource>, Arc<SampleStreamTrack>)>,
    mux_port: Option<u16>,
}

fn audio_params() -> RtpCodecParameters {
    RtpCodecParameters { payload_type: 111, name: "opus".into(), clock_rate: 48000, channels: 2 }
}
fn video_params() -> RtpCodecParameters {
    RtpCodecParameters { payload_type: 96, name: "VP8".into(), clock_rate: 90000, channels: 0 }
}

fn build_end(p: &Point, side: Side, rtp_range: Option<(u16, u16)>) -> Result<End, Fail> {
    let ports = Ports { rtp_range, ..ports_for(p, side) };
    let pc = PeerConnection::new(config_for(p, side, ports));
    let mut end = End { pc, audio: None, video: None, mux_port: ports.mux };
    if p.media.has_audio() {
        let (src, track, _fb) = sample_track(FrameKind::Audio, (RTP_TOTAL + 32) as usize);
        end.pc
            .add_track(track.clone(), audio_params())
            .map_err(|e| Fail::new("setup:add-track-error", format!("{side:?} add_track(audio): {e}")))?;
        end.audio = Some((Arc::new(src), track));
    }
    if p.media.has_video() {
        let (src, track, _fb) = sample_track(FrameKind::Video, (RTP_TOTAL + 32) as usize);
        end.pc
            .add_track(track.clone(), video_params())
            .map_err(|e| Fail::new("setup:add-track-error", format!("{side:?} add_track(video): {e}")))?;
        end.video = Some((Arc::new(src), track));
    }
    Ok(end)
}

async fn step<T, E: std::fmt::Display>(
    name: &str,
    fut: impl std::future::Future<Output = Result<T, E>>,
) -> Result<T, Fail> {
    match tokio::time::timeout(STEP_TIMEOUT, fut).await {
        Ok(Ok(v)) => Ok(v),
        Ok(Err(e)) => Err(Fail::new(format!("signal:{name}-error"), format!("{name} returned an error: {e}"))),
        Err(_) => Err(Fail::timing(
            format!("signal:{name}-timeout"),
            format!("{name} did not return within {STEP_TIMEOUT:?}"),
        )),
    }
}

fn has_bundle(d: &SessionDescription) -> bool {
    d.session
        .attributes
        .iter()
        .any(|a| a.key == "group" && a.value.as_deref().is_some_and(|v| v.starts_with("BUNDLE")))
}

/// Unpaced packets per RTP burst, followed by `TAIL` paced packets (a burst may legitimately overflow a UDP socket
/// buffer and lose its end; the paced tail shows whether the direction is still alive afterwards).
const BURST: u32 = 300;
const TAIL: u32 = 6;
const TAIL_INTERVAL: Duration = Duration::from_millis(15);
const TAIL_GAP: Duration = Duration::from_millis(300);
const RTP_TOTAL: u32 = BURST + TAIL;
/// how long a reader keeps listening after the senders finished before the flow is judged
const RTP_GRACE: Duration = Duration::from_millis(1500);
/// data-channel message sizes per direction: below and above one SCTP DATA chunk (1200), above the MTU (several
/// DTLS records per message), tiny ones in between
/// (fragment payload = 1172 bytes, sctp.rs DEFAULT_MAX_PAYLOAD_SIZE): the fragmentation boundaries - exact multiples of
/// the fragment payload and +-1 around them, 1200 (the channel's own max_payload_size), 1, and the 64 KiB boundary.
const DC_SIZES: [usize; 29] = [
    1, 1171, 1172, 1173, 17, 1200, 1201, 2343, 2344, 2345, 40, 3516, 9000, 3515, 64, 3517, 11720, 5, 11719, 11721, 16000, 33,
    65535, 65536, 65537, 1172, 700, 2344, 0,
];

fn point_digest(p: &Point) -> u64 {
    let mut h: u64 = 0xcbf29ce484222325;
    for b in p.tag().bytes() {
        h ^= b as u64;
        h = h.wrapping_mul(0x100000001b3);
    }
    h
}

/// RTP payload number `i` of a flow: 96 bytes, the flow identity and the index in clear, then keyed filler.
fn payload(p: &Point, from: Side, kind: &str, i: u32) -> Bytes {
    let head = format!("C10|{:016x}|{:?}|{}|#{:05}|", point_digest(p), from, &kind[..1], i);
    let mut v = head.into_bytes();
    let mut x = (i as u8).wrapping_mul(31).wrapping_add(from as u8).wrapping_add(kind.len() as u8);
    while v.len() < 96 {
        x = x.wrapping_mul(17).wrapping_add(43);
        v.push(x);
    }
    Bytes::from(v)
}

fn sample_data(s: &MediaSample) -> &Bytes {
    match s {
        MediaSample::Audio(f) => &f.data,
        MediaSample::Video(f) => &f.data,
    }
}

fn dc_message(p: &Point, from: Side, i: usize) -> Vec<u8> {
    let size = DC_SIZES[i];
    let mut v = format!("C10dc|{:016x}|{:?}|#{:02}|", point_digest(p), from, i).into_bytes();
    let mut x = (i as u8).wrapping_mul(29).wrapping_add(7 + from as u8);
    while v.len() < size {
        x = x.wrapping_mul(13).wrapping_add(101);
        v.push(x);
    }
    if v.len() > size {
        // too short for the header: keyed bytes only
        v = (0..size).map(|k| (k as u8).wrapping_mul(37).wrapping_add(x)).collect();
    }
    v
}

/// Push the whole burst without pacing, then the paced tail.
async fn rtp_send(p: Point, from: Side, kind: &'static str, src: Arc<SampleStreamSource>) -> Result<(), Fail> {
    // In the direct modes a udp-mux endpoint learns its peer from its own outbound traffic (by design, see the
    // report): packets towards it are lost until it has sent something. A sender facing such an endpoint that is
    // not muxed itself therefore starts a little later, so that "the mux endpoint has sent first" does not depend
    // on how fast the machine schedules the two sender tasks.
    let mux_on = |side: Side| if side == p.offerer { p.umux.on_offerer() } else { p.umux.on_answerer() };
    if p.mode != Mode::WebRtc && mux_on(from.other()) && !mux_on(from) {
        tokio::time::sleep(Duration::from_millis(400)).await;
    }
    for i in 0..RTP_TOTAL {
        let data = payload(&p, from, kind, i);
        let sample = if kind == "video" {
            MediaSample::Video(VideoFrame { rtp_timestamp: i.wrapping_mul(3000), data, is_last_packet: true, ..Default::default() })
        } else {
            MediaSample::Audio(AudioFrame { rtp_timestamp: i.wrapping_mul(960), clock_rate: 48000, data, ..Default::default() })
        };
        src.send(sample).map_err(|e| Fail::new(format!("rtp-source-rejected:{kind}"), format!("{kind} {from:?}: sample source refused packet {i}: {e:?}")))?;
        if i >= BURST {
            tokio::time::sleep(TAIL_INTERVAL).await;
        } else if i == BURST - 1 {
            // let the receiver work off the burst before the paced packets start
            tokio::time::sleep(TAIL_GAP).await;
        } else if i % 64 == 63 {
            // let the sender task drain the sample queue (it holds the whole burst, nothing is dropped here)
            tokio::task::yield_now().await;
        }
    }
    Ok(())
}

#[derive(Default, Debug)]
struct FlowObs {
    distinct: u32,
    duplicates: u32,
    tail_seen: u32,
    last_seen: bool,
    highest: Option<u32>,
    out_of_order: u32,
}

/// Read the peer's receiver track until the flow is complete, or the last packet arrived (UDP), or the senders have
/// been done for `RTP_GRACE`. Every sample must be bit-identical to the packet sent with the index it carries.
async fn rtp_read(
    p: Point,
    from: Side,
    kind: &'static str,
    track: Arc<SampleStreamTrack>,
    path_tcp: bool,
    mut senders_done: tokio::sync::watch::Receiver<bool>,
) -> Result<FlowObs, Fail> {
    let dir = format!("{:?}->{:?}", from, from.other());
    let mut seen = vec![false; RTP_TOTAL as usize];
    let mut obs = FlowObs::default();
    let mut grace_until: Option<tokio::time::Instant> = None;
    let hard = tokio::time::Instant::now() + EXCHANGE_TIMEOUT;
    loop {
        if obs.distinct == RTP_TOTAL || obs.last_seen {
            break;
        }
        let deadline = grace_until.unwrap_or(hard).min(hard);
        let sample = tokio::select! {
            r = tokio::time::timeout_at(deadline, track.recv()) => match r {
                Err(_) => break,
                Ok(Err(e)) => {
                    return Err(Fail::new(format!("rtp-track-ended:{kind}"), format!("{kind} RTP {dir}: receiver track ended: {e:?}")));
                }
                Ok(Ok(s)) => s,
            },
            _ = senders_done.changed(), if grace_until.is_none() => {
                grace_until = Some(tokio::time::Instant::now() + RTP_GRACE);
                continue;
            }
        };
        let data = sample_data(&sample).clone();
        let text = String::from_utf8_lossy(&data[..data.len().min(48)]).to_string();
        let want_kind = if kind == "video" { FrameKind::Video } else { FrameKind::Audio };
        if sample.kind() != want_kind {
            return Err(Fail::new(format!("rtp-wrong-kind:{kind}"), format!("{kind} RTP {dir}: receiver track yielded a {:?} sample: {text}", sample.kind())));
        }
        let idx = text.split("|#").nth(1).and_then(|s| s.get(..5)).and_then(|s| s.parse::<u32>().ok()).filter(|i| *i < RTP_TOTAL);
        let Some(idx) = idx else {
            return Err(Fail::new(
                format!("rtp-payload-corrupt:{kind}"),
                format!("{kind} RTP {dir}: received payload is not one the peer sent: {text:?} ({} bytes) after {} good packets", data.len(), obs.distinct),
            ));
        };
        if data != payload(&p, from, kind, idx) {
            let other_kind = if kind == "video" { "audio" } else { "video" };
            let sig = if data == payload(&p, from, other_kind, idx) {
                format!("rtp-cross-delivered:{kind}")
            } else if data == payload(&p, from.other(), kind, idx) {
                format!("rtp-looped-back:{kind}")
            } else {
                format!("rtp-payload-corrupt:{kind}")
            };
            return Err(Fail::new(sig, format!("{kind} RTP {dir}: received payload differs from the one sent with index {idx}: {text:?} ({} bytes) after {} good packets", data.len(), obs.distinct)));
        }
        if seen[idx as usize] {
            obs.duplicates += 1;
        } else {
            seen[idx as usize] = true;
            obs.distinct += 1;
            if idx >= BURST {
                obs.tail_seen += 1;
            }
            if idx == RTP_TOTAL - 1 {
                obs.last_seen = true;
            }
            match obs.highest {
                Some(h) if idx < h => obs.out_of_order += 1,
                _ => obs.highest = Some(idx),
            }
        }
    }
    // judgement
    if obs.distinct == 0 {
        return Err(Fail::stall(
            format!("rtp-not-received:{kind}"),
            format!("{kind} RTP {dir}: none of the {RTP_TOTAL} packets reached the receiver track"),
        ));
    }
    if obs.tail_seen == 0 {
        return Err(Fail::stall(
            format!("rtp-direction-died:{kind}"),
            format!("{kind} RTP {dir}: {} of {BURST} burst packets arrived (highest index {:?}) and then nothing: none of the {TAIL} paced packets sent after the burst", obs.distinct, obs.highest),
        ));
    }
    // The unpaced burst may overrun the receiver's own bounded queue whatever the transport (peer_connection.rs:236
    // `RTP_RECEIVER_PACKET_CAPACITY: usize = 64`, transports/rtp.rs:1168 `try_send_dropping` - `Full(_) => {}`), so burst
    // completeness is not demanded even on TCP. The paced tail cannot overrun anything: on a TCP-selected pair (a
    // reliable byte stream) every tail packet must arrive.
    if path_tcp && obs.tail_seen < TAIL {
        let missing: Vec<usize> = seen.iter().enumerate().skip(BURST as usize).filter(|(_, s)| !**s).map(|(i, _)| i).collect();
        // Bunched arrival (large data-channel messages share the TCP stream) can still overrun the receiver's
        // 64-slot queue when many points run at once, so this counts only if it repeats when the point runs
        // alone (Fail::timing, three solo re-runs) - not under the ">= 3 stalled cases in one run" rule.
        return Err(Fail::timing(
            format!("rtp-tail-lost-on-tcp:{kind}"),
            format!("{kind} RTP {dir}: the selected pair is TCP, yet only {} of the {TAIL} paced packets after the burst arrived (missing {:?}; {} of {RTP_TOTAL} overall)", obs.tail_seen, missing, obs.distinct),
        ));
    }
    Ok(obs)
}

async fn dc_send_all(p: Point, from: Side, pc: PeerConnection, id: u16) -> Result<(), Fail> {
    for i in 0..DC_SIZES.len() {
        let m = dc_message(&p, from, i);
        match tokio::time::timeout(DC_TIMEOUT, pc.send_data(id, &m)).await {
            Ok(Ok(())) => {}
            Ok(Err(e)) => return Err(Fail::new("dc-send-error", format!("{from:?} send_data of message {i} ({} bytes): {e}", m.len()))),
            Err(_) => return Err(Fail::stall("dc-send-stalled", format!("{from:?} send_data of message {i} ({} bytes) did not return within {DC_TIMEOUT:?}", m.len()))),
        }
    }
    Ok(())
}

/// Everything the peer submitted on the (ordered, reliable) channel arrives intact and in order.
async fn dc_read_all(p: Point, from: Side, dc: Arc<DataChannel>, who: &'static str) -> Result<(), Fail> {
    let deadline = tokio::time::Instant::now() + DC_TIMEOUT;
    let mut next = 0usize;
    while next < DC_SIZES.len() {
        match tokio::time::timeout_at(deadline, dc.recv()).await {
            Err(_) => {
                return Err(Fail::stall(
                    "dc-messages-missing",
                    format!("{who}: only {next} of {} data-channel messages from {from:?} arrived within {DC_TIMEOUT:?}", DC_SIZES.len()),
                ));
            }
            Ok(None) => return Err(Fail::new("dc-closed", format!("{who}: data channel event stream ended after {next} messages"))),
            Ok(Some(DataChannelEvent::Open)) => continue,
            Ok(Some(DataChannelEvent::Close)) => {
                return Err(Fail::new("dc-closed", format!("{who}: data channel closed after {next} of {} messages", DC_SIZES.len())));
            }
            Ok(Some(DataChannelEvent::Message(b))) => {
                let want = dc_message(&p, from, next);
                if b.as_ref() != want.as_slice() {
                    // a later message of the same sender: order violated; anything else: corrupted
                    let later = (next + 1..DC_SIZES.len()).find(|k| dc_message(&p, from, *k).as_slice() == b.as_ref());
                    let sig = if later.is_some() { "dc-out-of-order" } else { "dc-payload-mismatch" };
                    return Err(Fail::new(
                        sig,
                        format!("{who}: message {next} from {from:?}: got {} bytes {:?}.. (matches later message {:?}), expected {} bytes", b.len(), String::from_utf8_lossy(&b[..b.len().min(40)]), later, want.len()),
                    ));
                }
                next += 1;
            }
        }
    }
    Ok(())
}

/// The answerer learns the channel in-band; the offerer's channel opens (DCEP ACK). Returns the answerer's handle.
async fn dc_setup(answerer: &PeerConnection, dc_off: &DataChannel) -> Result<Arc<DataChannel>, Fail> {
    let deadline = tokio::time::Instant::now() + DC_TIMEOUT;
    let dc_ans = loop {
        match tokio::time::timeout_at(deadline, answerer.recv()).await {
            Err(_) => {
                return Err(Fail::stall(
                    "dc-not-announced",
                    format!("answerer: no PeerConnectionEvent::DataChannel within {DC_TIMEOUT:?} after Connected; offerer channel state {}", dc_off.state.load(Ordering::SeqCst)),
                ));
            }
            Ok(None) => return Err(Fail::new("dc-event-stream-ended", "answerer: PeerConnection::recv() returned None")),
            Ok(Some(PeerConnectionEvent::DataChannel(dc))) => break dc,
            Ok(Some(_)) => continue,
        }
    };
    if dc_ans.label != "c10" {
        return Err(Fail::new("dc-label-mismatch", format!("announced channel has label {:?}", dc_ans.label)));
    }
    // nothing has been sent to the offerer yet, so the first event on its channel is Open
    match tokio::time::timeout_at(deadline, dc_off.recv()).await {
        Err(_) => Err(Fail::stall("dc-not-open", format!("offerer: channel did not open within {DC_TIMEOUT:?} after Connected"))),
        Ok(Some(DataChannelEvent::Open)) => Ok(dc_ans),
        Ok(other) => Err(Fail::new("dc-unexpected-first-event", format!("offerer: first event on the channel is {other:?}, expected Open"))),
    }
}

fn receiver_track(pc: &PeerConnection, kind: MediaKind, who: &str) -> Result<Arc<SampleStreamTrack>, Fail> {
    let ts: Vec<_> = pc.get_transceivers().into_iter().filter(|t| t.kind() == kind).collect();
    if ts.len() != 1 {
        return Err(Fail::new(
            "transceiver-count",
            format!("{who}: {} transceivers of kind {kind:?} after negotiation, expected 1", ts.len()),
        ));
    }
    let r = ts[0]
        .receiver()
        .ok_or_else(|| Fail::new("no-receiver", format!("{who}: {kind:?} transceiver has no receiver")))?;
    Ok(r.track())
}

/// Stage of a failure is the signature; `finish_signature` appends the coordinates of a known shape.
async fn run_point_inner(p: Point, rec: &CaseRec) -> Check {
    if let Some(c) = p.violated_constraint() {
        return Err(Fail::new("harness:point-outside-lattice", format!("{}: {c}", p.tag())));
    }
    let rtp_range = rtp_range_for(&p);
    let a = build_end(&p, Side::A, rtp_range)?;
    let closer = Closer(vec![a.pc.clone()]);
    let b = build_end(&p, Side::B, rtp_range)?;
    let _closer = {
        let mut c = closer;
        c.0.push(b.pc.clone());
        c
    };
    let (off, ans) = if p.offerer == Side::A { (&a, &b) } else { (&b, &a) };

    let dc_off = if p.media.has_dc() {
        Some(
            off.pc
                .create_data_channel("c10", Some(DataChannelConfig { ordered: true, ..Default::default() }))
                .map_err(|e| Fail::new("setup:create-data-channel-error", format!("{e}")))?,
        )
    } else {
        None
    };

    // documented non-trickle exchange
    let _ = step("create_offer", off.pc.create_offer()).await?;
    step("offerer-gathering", async {
        off.pc.wait_for_gathering_complete().await;
        Ok::<_, String>(())
    })
    .await?;
    let offer = step("create_offer", off.pc.create_offer()).await?;
    if has_bundle(&offer) != (p.bundle == Bundle::Offered) {
        return Err(Fail::new(
            "sdp:bundle-coordinate-not-realised",
            format!("offer has BUNDLE group = {}, lattice point says {:?}:\n{}", has_bundle(&offer), p.bundle, offer.to_sdp_string()),
        ));
    }
    let offer_text = offer.to_sdp_string();
    off.pc
        .set_local_description(offer.clone())
        .map_err(|e| Fail::new("signal:set_local_offer-error", format!("{e}\n{offer_text}")))?;
    step("set_remote_offer", ans.pc.set_remote_description(offer.clone())).await.map_err(|mut f| {
        f.msg.push_str(&format!("\noffer:\n{offer_text}"));
        f
    })?;
    let _ = step("create_answer", ans.pc.create_answer()).await.map_err(|mut f| {
        f.msg.push_str(&format!("\noffer:\n{offer_text}"));
        f
    })?;
    step("answerer-gathering", async {
        ans.pc.wait_for_gathering_complete().await;
        Ok::<_, String>(())
    })
    .await?;
    let answer = step("create_answer", ans.pc.create_answer()).await?;
    let answer_text = answer.to_sdp_string();
    ans.pc
        .set_local_description(answer.clone())
        .map_err(|e| Fail::new("signal:set_local_answer-error", format!("{e}\n{answer_text}")))?;
    step("set_remote_answer", off.pc.set_remote_description(answer)).await.map_err(|mut f| {
        f.msg.push_str(&format!("\noffer:\n{offer_text}\nanswer:\n{answer_text}"));
        f
    })?;
    // is the shared mux socket really what the endpoint advertises? (Rtp mode binds its own socket and never gathers, so
    // the option has no effect there; measured, not demanded)
    for (end, sdp) in [(off, &offer_text), (ans, &answer_text)] {
        if let Some(port) = end.mux_port {
            let advertised = sdp.contains(&format!(" {port} typ host")) || sdp.lines().any(|l| l.starts_with("m=") && l.split_whitespace().nth(1) == Some(&port.to_string()));
            rec.label(if advertised { "udp-mux-port-advertised" } else { "udp-mux-configured-but-not-used" });
        }
    }
    if offer.media_sections.len() != p.media.sections() || answer_sections(&answer_text) != p.media.sections() {
        return Err(Fail::new(
            "sdp:section-count",
            format!("offer has {} sections, answer {}, point has {}\noffer:\n{offer_text}\nanswer:\n{answer_text}", offer.media_sections.len(), answer_sections(&answer_text), p.media.sections()),
        ));
    }

    // both report Connected
    let t0 = tokio::time::Instant::now();
    let connect_timeout = std::env::var("C10_CONNECT_SECS").ok().and_then(|s| s.parse().ok()).map(Duration::from_secs).unwrap_or(CONNECT_TIMEOUT);
    let (ro, ra) = tokio::join!(
        tokio::time::timeout(connect_timeout, off.pc.wait_for_connected()),
        tokio::time::timeout(connect_timeout, ans.pc.wait_for_connected())
    );
    let describe = |r: &Result<Result<(), rustrtc::RtcError>, tokio::time::error::Elapsed>| match r {
        Ok(Ok(())) => "connected".to_string(),
        Ok(Err(e)) => format!("error({e})"),
        Err(_) => "timeout".to_string(),
    };
    let sdp_ctx = format!("offer:\n{offer_text}\nanswer:\n{answer_text}");
    match (&ro, &ra) {
        (Ok(Ok(())), Ok(Ok(()))) => {}
        _ => {
            let who = match (matches!(ro, Ok(Ok(()))), matches!(ra, Ok(Ok(())))) {
                (false, false) => "both",
                (false, true) => "offerer",
                (true, false) => "answerer",
                _ => unreachable!(),
            };
            let any_err = matches!(ro, Ok(Err(_))) || matches!(ra, Ok(Err(_)));
            let reasons = [off.pc.disconnect_reason(), ans.pc.disconnect_reason()];
            let msg = format!(
                "{}: offerer {} / answerer {} (bound {connect_timeout:?}; candidate lines: offer {}, answer {}); states: offerer {:?} reason {:?}, answerer {:?} reason {:?}\n{sdp_ctx}",
                p.tag(),
                describe(&ro),
                describe(&ra),
                offer_text.matches("a=candidate").count(),
                answer_text.matches("a=candidate").count(),
                *off.pc.subscribe_peer_state().borrow(),
                reasons[0],
                *ans.pc.subscribe_peer_state().borrow(),
                reasons[1],
            );
            return Err(if any_err {
                // the reason the endpoint itself gives names the failure; which side lost a race does not
                let why = reasons.iter().flatten().map(|r| slug(&format!("{r:?}"))).next();
                match why {
                    // DtlsFailed is what an endpoint reports when its handshake timed out waiting for the peer: a
                    // time-bounded clause (a wrong role / key / fingerprint fails every solo re-run as well)
                    Some(w) if w == "dtlsfailed" => Fail::timing(format!("connect:failed:{w}"), msg),
                    Some(w) => Fail::new(format!("connect:failed:{w}"), msg),
                    None => Fail::new(format!("connect:failed:{who}"), msg),
                }
            } else {
                Fail::timing(format!("connect:timeout:{who}"), msg)
            });
        }
    }
    let connect_ms = t0.elapsed().as_millis();
    if connect_ms > 1000 {
        rec.label("connect>1s");
        if crate::engine::progress() {
            eprintln!("[c10] slow connect {connect_ms} ms at {}", p.tag());
        }
    }

    // Connected with a negotiated data-channel section means the SCTP transport exists (it is created before the
    // DTLS handshake in start_dtls); without it no data channel can ever work. Not time-bounded.
    if p.media.has_dc() {
        for (who, pc) in [("offerer", &off.pc), ("answerer", &ans.pc)] {
            if pc.sctp_diagnostic_info().is_none() {
                return Err(Fail::new(
                    format!("no-sctp-transport-after-connected:{who}"),
                    format!("{}: {who} reports Connected, the negotiated SDP has an application section, but it has no SCTP transport (sctp_diagnostic_info() is None)\n{sdp_ctx}", p.tag()),
                ));
            }
        }
    }

    // does the tight range really leave nothing free? (measures the socket-count model; not demanded)
    if let (Some((start, end)), PortRange::Tight) = (rtp_range, p.range) {
        let free = (start..=end).step_by(2).filter(|port| std::net::UdpSocket::bind(("127.0.0.1", *port)).is_ok()).count();
        let need = p.rtp_sockets(true) + p.rtp_sockets(false);
        rec.label(format!("{}/mode={:?}{}", if free == 0 { "tight-range-exhausted" } else { "tight-range-not-exhausted" }, p.mode, if need == 0 { "/no-rtp-socket-needed" } else { "" }));
        if free != 0 && need != 0 && crate::engine::progress() {
            eprintln!("[c10] tight range {start}..={end} has {free} free even port(s), model says {need} needed: {}", p.tag());
        }
    }

    // which transport carries the media: on a TCP-selected pair nothing may be lost
    let on_tcp = |pc: &PeerConnection| {
        p.mode == Mode::WebRtc
            && pc.ice_transport().get_selected_pair().is_some_and(|pr| pr.local.transport.eq_ignore_ascii_case("tcp"))
    };
    let path_tcp = on_tcp(&off.pc) && on_tcp(&ans.pc);
    rec.label(if path_tcp { "path=tcp" } else { "path=udp" });
    if !(p.tr_off.has_udp() && p.tr_ans.has_udp()) && !path_tcp {
        return Err(Fail::new(
            "selected-pair-not-tcp",
            format!("{}: the endpoints share only TCP, but the selected pairs are offerer {:?} / answerer {:?}", p.tag(), off.pc.ice_transport().get_selected_pair(), ans.pc.ice_transport().get_selected_pair()),
        ));
    }

    // data channel: announced to the answerer, open at the offerer, before the concurrent phase starts
    let dcs = match &dc_off {
        Some(dc) => {
            let dc_ans = dc_setup(&ans.pc, dc).await.map_err(|mut f| {
                f.msg = format!("{}: {}\n{sdp_ctx}", p.tag(), f.msg);
                f
            })?;
            Some((dc.clone(), dc_ans))
        }
        None => None,
    };

    // concurrent exchange: every sender in its own task, all started together, both directions at once - audio and
    // video bursts without pacing while data-channel messages of mixed sizes are written from a third task
    let (done_tx, done_rx) = tokio::sync::watch::channel(false);
    let mut readers = Vec::new();
    let mut senders = Vec::new();
    for (from_end, to_end, from_side) in [(&a, &b, Side::A), (&b, &a, Side::B)] {
        if let Some((src, _)) = &from_end.audio {
            let rt = receiver_track(&to_end.pc, MediaKind::Audio, &format!("{:?}", from_side.other()))?;
            readers.push(tokio::spawn(rtp_read(p, from_side, "audio", rt, path_tcp, done_rx.clone())));
            senders.push(tokio::spawn(rtp_send(p, from_side, "audio", src.clone())));
        }
        if let Some((src, _)) = &from_end.video {
            let rt = receiver_track(&to_end.pc, MediaKind::Video, &format!("{:?}", from_side.other()))?;
            readers.push(tokio::spawn(rtp_read(p, from_side, "video", rt, path_tcp, done_rx.clone())));
            senders.push(tokio::spawn(rtp_send(p, from_side, "video", src.clone())));
        }
    }
    let dc_t0 = std::time::Instant::now();
    let mut dc_tasks = Vec::new();
    if let Some((dc_o, dc_a)) = &dcs {
        let (off_side, ans_side) = (p.offerer, p.offerer.other());
        dc_tasks.push(tokio::spawn(dc_read_all(p, ans_side, dc_o.clone(), "offerer")));
        dc_tasks.push(tokio::spawn(dc_read_all(p, off_side, dc_a.clone(), "answerer")));
        dc_tasks.push(tokio::spawn(dc_send_all(p, off_side, off.pc.clone(), dc_o.id)));
        dc_tasks.push(tokio::spawn(dc_send_all(p, ans_side, ans.pc.clone(), dc_a.id)));
    }

    let mut fails: Vec<Fail> = Vec::new();
    for t in senders {
        match t.await {
            Ok(Ok(())) => {}
            Ok(Err(e)) => fails.push(e),
            Err(e) => fails.push(Fail::new("harness-task-panic", format!("sender task: {e}"))),
        }
    }
    let _ = done_tx.send(true);
    let mut udp_loss = false;
    let loss_label = if path_tcp { "rtp-burst-loss-on-tcp(receiver-queue,tolerated)" } else { "rtp-burst-loss-on-udp(tolerated)" };
    let mut reordered = false;
    for t in readers {
        match t.await {
            Ok(Ok(obs)) => {
                udp_loss |= obs.distinct < RTP_TOTAL;
                reordered |= obs.out_of_order > 0;
                if obs.duplicates > 0 {
                    rec.label("rtp-duplicates-seen");
                }
            }
            Ok(Err(e)) => fails.push(e),
            Err(e) => fails.push(Fail::new("harness-task-panic", format!("reader task: {e}"))),
        }
    }
    for t in dc_tasks {
        match t.await {
            Ok(Ok(())) => {}
            Ok(Err(e)) => fails.push(e),
            Err(e) => fails.push(Fail::new("harness-task-panic", format!("dc task: {e}"))),
        }
    }
    if dcs.is_some() && dc_t0.elapsed().as_millis() > 2500 {
        rec.label("dc-exchange>2.5s(sctp-retransmission)");
    }
    if udp_loss {
        rec.label(loss_label);
    }
    if reordered {
        rec.label("rtp-reordered");
    }
    // a definite failure is reported in preference to a stall / time-bounded one; otherwise task order
    let first_fail = {
        let all = fails.iter().map(|f| format!("[{}] {}", f.signature, f.msg)).collect::<Vec<_>>().join("\n");
        let pick = fails.iter().position(|f| !f.timing && !f.stall).unwrap_or(0);
        if fails.is_empty() {
            None
        } else {
            let mut f = fails.swap_remove(pick);
            f.msg = all;
            Some(f)
        }
    };
    // A media flow that never arrives in a direct (non-ICE) mode: look at the wiring. Each section's SDP advertises the
    // port of its own socket; `RtpSender::transport()` is "the per-media transport, set on negotiation" and the
    // transceiver's receiver is attached to the same transport. A transceiver wired to another section's socket can
    // never receive what its SDP section asks for - a definite defect, not a matter of waiting longer.
    let first_fail = match first_fail {
        Some(f) if f.signature.starts_with("rtp-not-received") && p.mode != Mode::WebRtc && p.bundle == Bundle::NotOffered => {
            let mut wrong = Vec::new();
            for (role, end, sdp) in [("offerer", off, &offer_text), ("answerer", ans, &answer_text)] {
                for t in end.pc.get_transceivers() {
                    let kind = match t.kind() {
                        MediaKind::Audio => "audio",
                        MediaKind::Video => "video",
                        _ => continue,
                    };
                    let advertised = sdp
                        .lines()
                        .find(|l| l.starts_with(&format!("m={kind} ")))
                        .and_then(|l| l.split_whitespace().nth(1))
                        .and_then(|x| x.parse::<u16>().ok());
                    let wired = t.sender().and_then(|s| s.transport()).map(|tr| tr.local_addr().port());
                    if let (Some(a), Some(w)) = (advertised, wired) {
                        if a != w {
                            wrong.push(format!("{role} {kind}: SDP advertises port {a}, transceiver is wired to the socket on port {w}"));
                        }
                    }
                }
            }
            if wrong.is_empty() {
                Some(f)
            } else {
                let kind = if wrong[0].contains(" video:") { "video" } else { "audio" };
                let role = if wrong[0].starts_with("offerer") { "offerer" } else { "answerer" };
                // a diagnosis of the failure found above: it keeps that failure's class (definite / timing / stall)
                let mut g = Fail::new(
                    format!("transceiver-on-wrong-transport:{kind}:{role}"),
                    format!("{}\n{}", wrong.join("; "), f.msg),
                );
                g.timing = f.timing;
                g.stall = f.stall;
                Some(g)
            }
        }
        other => other,
    };
    if let Some(mut f) = first_fail {
        f.msg = format!("{}:\n{}\n{sdp_ctx}", p.tag(), f.msg);
        return Err(f);
    }
    Ok(())
}

/// lower-case alphanumerics joined by '-', for signatures
fn slug(x: &str) -> String {
    let mut out = String::new();
    for ch in x.chars() {
        if ch.is_ascii_alphanumeric() {
            out.push(ch.to_ascii_lowercase());
        } else if !out.ends_with('-') {
            out.push('-');
        }
    }
    out.trim_matches('-').chars().take(80).collect()
}

fn answer_sections(sdp: &str) -> usize {
    sdp.lines().filter(|l| l.starts_with("m=")).count()
}

/// Known failure shapes: (name, predicate over the point, failure stage prefix). When a failure of that stage
/// happens at a point of that shape, the signature names the coordinates that matter; any other failure keeps
/// the bare stage signature and alarms.
/// Signatures of known findings that are races (see `KnownRaces`).
const RACE_SIGNATURES: &[&str] = &[
    "connect:failed:transportstartfailed-internal-error-missing-crypto-attributes-for-sdes[mode=Srtp]",
    "no-sctp-transport-after-connected:offerer",
    "transceiver-on-wrong-transport:video:answerer[mode=Rtp,media=AudioVideo,bundle=NotOffered]",
];

const SRTP_NONBUNDLE_AV: &str = "transceiver-on-wrong-transport:video:offerer[mode=Srtp,media=AudioVideo,bundle=NotOffered]";

type Shape = (&'static str, fn(&Point) -> bool, &'static str);
const SHAPES: &[Shape] = &[
    // Srtp mode advertises one port (and one a=crypto) per non-BUNDLE section but only ever starts one transport.
    (
        "mode=Srtp,media=AudioVideo,bundle=NotOffered",
        |p| p.mode == Mode::Srtp && p.media == Media::AudioVideo && p.bundle == Bundle::NotOffered,
        "transceiver-on-wrong-transport:",
    ),
    // Rtp mode, non-BUNDLE: start_dtls (fired by the first section's socket) can wire the second section's transceiver
    // to the first section's transport.
    (
        "mode=Rtp,media=AudioVideo,bundle=NotOffered",
        |p| p.mode == Mode::Rtp && p.media == Media::AudioVideo && p.bundle == Bundle::NotOffered,
        "transceiver-on-wrong-transport:",
    ),
    (
        "mode=Srtp",
        |p| p.mode == Mode::Srtp,
        "connect:failed:transportstartfailed-internal-error-missing-crypto-attributes-for-sdes",
    ),
];

fn finish_signature(p: &Point, mut f: Fail) -> Fail {
    for (name, pred, stage) in SHAPES {
        if f.signature.starts_with(stage) && pred(p) {
            f.signature = format!("{}[{}]", f.signature, name);
            break;
        }
    }
    f
}

fn label_point(p: &Point, rec: &CaseRec) {
    rec.label(format!("mode={:?}", p.mode));
    rec.label(format!("media={:?}", p.media));
    rec.label(format!("bundle={:?}", p.bundle));
    rec.label(format!("mux={:?}", p.mux));
    rec.label(format!("ice={:?}", p.ice));
    rec.label(format!("tr={:?}/{:?}", p.tr_off, p.tr_ans));
    rec.label(format!("mode={:?}/umux={:?}", p.mode, p.umux));
    rec.label(format!("mode={:?}/range={:?}", p.mode, p.range));
    rec.label(format!("latch={:?}", p.latch));
    rec.label(format!("compat={:?}", p.compat));
    rec.label(format!("offerer={:?}", p.offerer));
    rec.set_nontrivial(p.differs_from_default() >= 1);
}

/// Known findings that are lost races between rustrtc's own tasks (they need a multi-thread runtime): a point
/// that hits one is run once more on a private single-threaded runtime, where the harness task cannot be
/// overtaken between two awaits, so that the clauses behind the race are still checked. Every hit is counted.
#[derive(Default)]
struct KnownRaces {
    signatures: Vec<String>,
    hits: parking_lot::Mutex<BTreeMap<String, u64>>,
}

async fn run_point(p: Point) -> (CaseRec, Check) {
    let rec = CaseRec::default();
    label_point(&p, &rec);
    let res = run_point_inner(p, &rec).await.map_err(|f| finish_signature(&p, f));
    // let closed connections release their sockets before the slot is reused
    tokio::time::sleep(Duration::from_millis(20)).await;
    (rec, res)
}

async fn run_point_single_threaded(p: Point) -> (CaseRec, Check) {
    let (tx, rx) = tokio::sync::oneshot::channel();
    std::thread::spawn(move || {
        let rt = tokio::runtime::Builder::new_current_thread().enable_all().build().expect("runtime");
        let out = rt.block_on(run_point(p));
        let _ = tx.send(out);
    });
    match rx.await {
        Ok(out) => out,
        Err(_) => (
            CaseRec::default(),
            Err(Fail::new("harness-task-panic", format!("single-threaded run of {} died", p.tag()))),
        ),
    }
}

fn checker(races: Arc<KnownRaces>) -> AsyncCheck<Point> {
    Arc::new(move |p: Point| {
        let races = races.clone();
        Box::pin(async move {
            let (rec, res) = run_point(p).await;
            if let Err(f) = &res {
                if crate::engine::progress() && f.timing {
                    eprintln!("[c10] {} at {} :: {}", f.signature, p.tag(), f.msg.lines().take(4).collect::<Vec<_>>().join(" / ").chars().take(700).collect::<String>());
                }
                if races.signatures.iter().any(|s| s == &f.signature) {
                    *races.hits.lock().entry(f.signature.clone()).or_default() += 1;
                    let (rec2, res2) = run_point_single_threaded(p).await;
                    rec2.label("re-run-single-threaded-after-known-race");
                    return (rec2, res2);
                }
            }
            (rec, res)
        })
    })
}

/// Developer aid (C10_SURVEY=1): run every point of a list, print every failing point, stop at nothing.
fn survey(rt: &tokio::runtime::Runtime, points: &[Point], conc: usize) {
    let chk = checker(Arc::new(KnownRaces::default()));
    let results: Vec<(Point, Check, f64)> = rt.block_on(async {
        let sem = Arc::new(tokio::sync::Semaphore::new(conc));
        let mut hs = Vec::new();
        for p in points.iter().copied() {
            let sem = sem.clone();
            let chk = chk.clone();
            hs.push(tokio::spawn(async move {
                let _g = sem.acquire_owned().await.unwrap();
                let t = std::time::Instant::now();
                let (_rec, res) = chk(p).await;
                (p, res, t.elapsed().as_secs_f64())
            }));
        }
        let mut out = Vec::new();
        for h in hs {
            if let Ok(r) = h.await {
                out.push(r);
            }
        }
        out
    });
    let mut by_sig: BTreeMap<String, Vec<Point>> = BTreeMap::new();
    let mut total = 0.0;
    for (p, res, t) in &results {
        total += t;
        if let Err(f) = res {
            by_sig.entry(f.signature.clone()).or_default().push(*p);
        }
    }
    println!("survey: {} points, {} failing, mean {:.2}s", results.len(), by_sig.values().map(|v| v.len()).sum::<usize>(), total / results.len().max(1) as f64);
    for (sig, ps) in &by_sig {
        println!("== {sig}: {} points", ps.len());
        for p in ps {
            println!("   {}", p.tag());
        }
        if std::env::var("C10_VERBOSE").is_ok() {
            for (p, res, _) in &results {
                if let Err(f) = res {
                    if &f.signature == sig {
                        println!("--- {}\n{}", p.tag(), f.msg);
                        break;
                    }
                }
            }
        }
    }
}

pub fn run(ctx: &mut Ctx) {
    ctx.level = "exploration";
    let all = all_points();
    ctx.rule = format!(
        "lattice mode{{WebRtc,Srtp,Rtp}} x media{{audio,audio+video,dc,dc+audio,dc+audio+video}} x bundle{{offered,not}} x rtcp-mux{{Require,Negotiate}} x ice option{{plain,ice-lite on A}} x udp-mux side{{off,offerer,answerer,both}} x offerer transports x answerer transports (each of {{UDP, UDP+TCP, TCP passive listener only, TCP active only}}) x latching{{off,on/probation 0,on/probation 3}} x compat{{Standard,LegacySip}} x offerer{{A,B}} x RTP port range{{default, 100 ports, tight = exactly the even ports the two endpoints need, tight+1; a fresh range per point shared by both endpoints}}, pruned by the constraints rustrtc states itself (data channels only in WebRtc mode; ICE options and ICE-TCP only where ICE runs; the two ends share a transport protocol; active-only TCP is for the offering side; udp-mux (a fresh port per endpoint and point) only on a side that gathers UDP hosts, in every mode; latching only in Rtp mode; BUNDLE offered iff Standard and >1 section) to {} points. Quick: a covering array in which the (offerer transports, answerer transports) combination is one compound coordinate, so every transport combination meets every value of every other coordinate and all other value pairs meet too (seeded tie-breaks), plus 580 seeded random valid points (mode weighted 6:2:2); thorough: every point of the pruned product and 1500 seeded random valid points. Tight-range cells of the array run 3 times and make up 5/8 of the random points (the port probe inside rustrtc starts at a random index). Each point: two PeerConnections on 127.0.0.1 with the same settings except role and per-side transports, documented non-trickle offer/answer, both Connected, then a concurrent exchange on a multi-thread runtime: per direction and media section an unpaced burst of {} RTP packets plus {} paced ones from its own task, and (if dc) 29 data-channel messages of 0..65537 bytes (fragmentation boundaries k*1172 and +-1, 1200, 64 KiB +-1) from a third task, both directions at once. Non-trivial = the point differs from the default configuration in >= 1 coordinate; distinct by point.",
        all.len(), BURST, TAIL
    );
    ctx.assumptions = vec![
        "both endpoints run in one process on 127.0.0.1 (bind_ip set); with udp-mux each endpoint has its own mux port; TCP listen ranges are 3 free ports per endpoint below the ephemeral range".into(),
        "wait_for_connected() has no deadline of its own: 'within the configured timeouts' is checked as within 12 s (stun_timeout 5 s / nomination_timeout 10 s defaults untouched), subject to the 3x solo re-run rule".into(),
        "data channel (ordered, reliable): every submitted message arrives intact and in order; missing messages after 12 s are a stall (counts when reproduced alone or seen in >= 3 cases)".into(),
        "RTP: every received packet is bit-identical to the packet sent with the index it carries; at least one of the paced packets sent after the burst arrives (no dead direction); on a TCP-selected pair all of them arrive. Completeness of the unpaced burst is NOT demanded, not even on TCP: rustrtc's receiver drops by design when its 64-slot packet queue is full (peer_connection.rs RTP_RECEIVER_PACKET_CAPACITY, transports/rtp.rs try_send_dropping) - measured on the unchanged tree: up to half of an unpaced 300-packet burst on TCP".into(),
        "ice-lite 'on one side' is endpoint A; the data channel is created by the offerer and announced in-band (DCEP); transports with only active TCP candidates are configured on the offerer only".into(),
        "complementary DTLS roles and identical SRTP keys are witnessed by the successful DTLS handshake and by SRTP-protected payloads arriving intact in both directions, not read from the endpoints".into(),
    ];
    ctx.set_extra("lattice_points_after_pruning", json!(all.len()));

    let rt = tokio::runtime::Builder::new_multi_thread().worker_threads(8).enable_all().build().unwrap();
    let conc = 8;

    if std::env::var("C10_SURVEY").is_ok() {
        let pts: Vec<Point> = match std::env::var("C10_SURVEY").as_deref() {
            Ok("pairwise") => pairwise(&all, &[]),
            Ok(s) if s.starts_with('[') => serde_json::from_str(s).expect("C10_SURVEY json list of points"),
            _ => all.clone(),
        };
        survey(&rt, &pts, conc);
        return;
    }

    let races = Arc::new(KnownRaces {
        signatures: RACE_SIGNATURES.iter().filter(|s| ctx.is_known(s)).map(|s| s.to_string()).collect(),
        hits: Default::default(),
    });
    // seeded random valid points on top of the systematic part (repeats are wanted: the known races are probabilistic)
    let extra = ctx.scale(580usize, 1500usize);
    let randoms: Vec<Point> = ctx.draw("random-points", extra, &random_point()).into_iter().map(|t| t.current()).collect();
    let known_det = ctx.is_known(SRTP_NONBUNDLE_AV);
    let in_known_shape = |p: &Point| p.mode == Mode::Srtp && p.media == Media::AudioVideo && p.bundle == Bundle::NotOffered;
    // A known finding that fails deterministically on every point of its shape costs 4 timed-out runs per point:
    // repeated passes and the quick tier steer away from the shape and count what they skipped; the first pass of the
    // thorough tier runs every point.
    let mut skipped = 0u64;
    let steer = |v: Vec<Point>, skipped: &mut u64| -> Vec<Point> {
        if !known_det {
            return v;
        }
        let before = v.len();
        let v: Vec<Point> = v.into_iter().filter(|p| !in_known_shape(p)).collect();
        *skipped += (before - v.len()) as u64;
        v
    };
    let mut list: Vec<Point> = Vec::new();
    if ctx.thorough() {
        list.extend(all.iter().copied());
        let passes = 0;
        for _ in 0..passes {
            list.extend(steer(all.clone(), &mut skipped));
        }
        ctx.set_extra("full_product_passes", json!(passes + 1));
    } else {
        // seeded tie-break keys for the greedy covering array
        let keys: Vec<u32> = ctx
            .draw("pairwise-keys", 1, &proptest::collection::vec(any::<u32>(), all.len()))
            .into_iter()
            .next()
            .map(|t| t.current())
            .unwrap_or_default();
        let arr = pairwise(&all, &keys);
        ctx.set_extra("pairwise_array_size", json!(arr.len()));
        // the start index of rustrtc's port probe is random: the tight-range cells of the array run three times
        let repeats: Vec<Point> = arr.iter().copied().filter(|p| matches!(p.range, PortRange::Tight | PortRange::TightPlus1)).collect();
        let arr: Vec<Point> = arr.into_iter().chain(repeats.iter().copied()).chain(repeats.iter().copied()).collect();
        list.extend(steer(arr, &mut skipped));
        ctx.set_extra("full_product_passes", json!(0));
    }
    ctx.set_extra("systematic_points", json!(list.len()));
    ctx.set_extra("random_points", json!(randoms.len()));
    list.extend(steer(randoms, &mut skipped));
    if skipped > 0 {
        ctx.note_excluded(SRTP_NONBUNDLE_AV, skipped);
    }
    let n = list.len();
    ctx.sub_async(&rt, "lattice", n, conc, PointSource::list(list), checker(races.clone()));
    // thorough: every point of the pruned product was run (the systematic part comes first; a violation stops the batch)
    ctx.set_exhaustive(ctx.thorough() && !ctx.has_violation());
    for (sig, n) in races.hits.lock().iter() {
        ctx.note_excluded(sig, *n);
    }
}

#[cfg(test)]
mod tests {
    use super::*;
    #[test]
    fn lattice_size_and_pairwise_cover() {
        let all = all_points();
        assert_eq!(all.len(), 9472);
        let arr = pairwise(&all, &[]);
        assert!(arr.len() < 80, "{}", arr.len());
    }
}
