//! C09 — signaling state follows the JSEP state machine; rejected calls change nothing.
//!
//! Model-based check. A generated program (`Vec<Op>`) is interpreted against a real
//! `PeerConnection` ("A") and, in lock step, against the four-state reference machine
//! the API documents (Stable / HaveLocalOffer / HaveRemoteOffer / Closed; provisional
//! answers leave the state unchanged; rollback is always refused). A second real
//! `PeerConnection` ("B", replaced when it is stuck) plays the remote party so that the
//! remote offers and answers fed to A are real descriptions.
//!
//! After every op:
//!   * a call the machine forbids returned `Err`;
//!   * `signaling_state()` equals the model state (the model advances only on `Ok`);
//!   * after every `Err`, the snapshot (signaling state, local/remote description text,
//!     transceiver count, per transceiver mid / direction / payload map / extmap) equals
//!     the snapshot taken immediately before the call.

use crate::engine::{CaseRec, Check, Ctx, Fail, guarded};
use proptest::prelude::*;
use proptest::strategy::ValueTree;
use rustrtc::{
    Attribute, Direction, MediaKind, MediaSection, PeerConnection, RtcConfiguration, RtcError,
    SdpType, SessionDescription, SignalingState, TransceiverDirection, TransportMode,
};
use serde::{Deserialize, Serialize};
use serde_json::json;
use std::collections::BTreeMap;
use std::sync::Arc;
use std::sync::atomic::{AtomicUsize, Ordering};
use std::time::Duration;

// ---------------------------------------------------------------- case description

#[derive(Clone, Copy, Debug, PartialEq, Eq, Serialize, Deserialize)]
pub enum Mode {
    WebRtc,
    Srtp,
    Rtp,
}

/// What is pre-added to a connection before the sequence starts.
#[derive(Clone, Copy, Debug, PartialEq, Eq, Serialize, Deserialize)]
pub enum Media {
    Dc,
    Audio,
    Video,
    AudioVideo,
    DcAudio,
    /// three RTP sections
    AudioVideoAudio,
    /// data channel + two RTP sections (WebRtc); three RTP sections in the direct modes
    DcAudioVideo,
}

/// What an earlier section changes in a staged (renegotiation) description.
#[derive(Clone, Copy, Debug, PartialEq, Eq, Serialize, Deserialize)]
pub enum Change {
    CodecSubset,
    RemapPt,
    AddCodec,
    Direction,
    Ssrc,
    ExtmapIds,
}

/// The element a later section (or the same section, after its changed lines) carries and
/// that the stack may refuse. Whether it is refused is not prescribed.
#[derive(Clone, Copy, Debug, PartialEq, Eq, Serialize, Deserialize)]
pub enum Poison {
    Extmap0,
    Extmap15,
    Extmap256,
    ExtmapDuplicate,
    ExtmapNonNumeric,
    BadRtpmap,
    DuplicateRtpmap,
    BadFmtp,
    UnknownMid,
    DuplicateMid,
    EmptyMid,
    Fingerprint,
    BadIce,
    BadProto,
    PortZero,
    SwapSections,
    DropSection,
    ExtraSection,
    SetupHoldconn,
    NoFormats,
}

#[derive(Clone, Copy, Debug, PartialEq, Eq, Serialize, Deserialize)]
pub enum Kind {
    Offer,
    Answer,
    Pranswer,
    Rollback,
}

/// Where the description carried by a set_* call comes from.
#[derive(Clone, Copy, Debug, PartialEq, Eq, Serialize, Deserialize)]
pub enum Source {
    /// the value most recently returned by this connection's create_offer/create_answer
    Own,
    /// the partner connection's matching description (its offer, or its answer to our offer)
    Partner,
}

#[derive(Clone, Copy, Debug, PartialEq, Eq, Serialize, Deserialize)]
pub enum Edit {
    Keep,
    /// well-formed but changed
    Codecs { alt: bool },
    Direction,
    AddSection { video: bool },
    Fingerprint,
    Extmap,
    /// malformed
    NoFingerprint,
    ConflictingFingerprints,
    UnsupportedHash,
    BadHexFingerprint,
    /// renegotiation shape: the first RTP section changes media parameters (`change`), and the
    /// last RTP section (or, with `same_section`, the changed section itself, after its changed
    /// lines) carries `poison`; `via_text` sends the result through print + parse like a real
    /// signaling path (kept as built when the parser refuses it)
    Staged { change: Change, poison: Poison, same_section: bool, via_text: bool },
}

#[derive(Clone, Copy, Debug, PartialEq, Eq, Serialize, Deserialize)]
pub enum Op {
    CreateOffer,
    CreateAnswer,
    SetLocal { kind: Kind, src: Source, edit: Edit },
    SetRemote { kind: Kind, src: Source, edit: Edit },
    Close,
    /// auxiliary application action (never judged): adds a transceiver mid-sequence
    AddTransceiver { video: bool },
}

#[derive(Clone, Copy, Debug, PartialEq, Eq, Serialize, Deserialize)]
pub enum Start {
    Fresh,
    /// one complete offer/answer was exchanged with the partner first
    Negotiated { a_offers: bool, wait_connected: bool },
}

#[derive(Clone, Debug, Serialize, Deserialize)]
pub struct Case {
    pub mode: Mode,
    pub media_a: Media,
    pub media_b: Media,
    pub start: Start,
    /// audio/video transceivers are created with add_track (a sender exists) on both sides
    #[serde(default)]
    pub tracks: bool,
    pub ops: Vec<Op>,
}

// ---------------------------------------------------------------- reference machine

#[derive(Clone, Copy, Debug, PartialEq, Eq)]
enum M {
    Stable,
    HaveLocalOffer,
    HaveRemoteOffer,
    Closed,
}

impl M {
    fn name(self) -> &'static str {
        match self {
            M::Stable => "Stable",
            M::HaveLocalOffer => "HaveLocalOffer",
            M::HaveRemoteOffer => "HaveRemoteOffer",
            M::Closed => "Closed",
        }
    }
    fn of(s: SignalingState) -> M {
        match s {
            SignalingState::Stable => M::Stable,
            SignalingState::HaveLocalOffer => M::HaveLocalOffer,
            SignalingState::HaveRemoteOffer => M::HaveRemoteOffer,
            SignalingState::Closed => M::Closed,
        }
    }
}

/// `Some(next)` when the machine allows the call in `s` (next = state after success),
/// `None` when the machine forbids it.
fn machine(s: M, op: &Op) -> Option<M> {
    if s == M::Closed {
        return match op {
            Op::Close => Some(M::Closed),
            _ => None,
        };
    }
    match *op {
        Op::CreateOffer => (s == M::Stable).then_some(s),
        Op::CreateAnswer => (s == M::HaveRemoteOffer).then_some(s),
        Op::SetLocal { kind, .. } => match (kind, s) {
            (Kind::Offer, M::Stable) => Some(M::HaveLocalOffer),
            (Kind::Answer, M::HaveRemoteOffer) => Some(M::Stable),
            (Kind::Pranswer, M::HaveRemoteOffer) => Some(M::HaveRemoteOffer),
            _ => None,
        },
        Op::SetRemote { kind, .. } => match (kind, s) {
            (Kind::Offer, M::Stable) => Some(M::HaveRemoteOffer),
            (Kind::Answer, M::HaveLocalOffer) => Some(M::Stable),
            (Kind::Pranswer, M::HaveLocalOffer) => Some(M::HaveLocalOffer),
            _ => None,
        },
        Op::Close => Some(M::Closed),
        Op::AddTransceiver { .. } => Some(s),
    }
}

fn kind_name(k: Kind) -> &'static str {
    match k {
        Kind::Offer => "offer",
        Kind::Answer => "answer",
        Kind::Pranswer => "pranswer",
        Kind::Rollback => "rollback",
    }
}

fn call_name(op: &Op) -> String {
    match op {
        Op::CreateOffer => "create_offer".into(),
        Op::CreateAnswer => "create_answer".into(),
        Op::SetLocal { kind, .. } => format!("set_local_description({})", kind_name(*kind)),
        Op::SetRemote { kind, .. } => format!("set_remote_description({})", kind_name(*kind)),
        Op::Close => "close".into(),
        Op::AddTransceiver { .. } => "add_transceiver".into(),
    }
}

fn sdp_type(k: Kind) -> SdpType {
    match k {
        Kind::Offer => SdpType::Offer,
        Kind::Answer => SdpType::Answer,
        Kind::Pranswer => SdpType::Pranswer,
        Kind::Rollback => SdpType::Rollback,
    }
}

fn err_variant(e: &RtcError) -> &'static str {
    match e {
        RtcError::InvalidConfiguration(_) => "InvalidConfiguration",
        RtcError::InvalidState(_) => "InvalidState",
        RtcError::NotImplemented(_) => "NotImplemented",
        RtcError::Protocol(_) => "Protocol",
        RtcError::Transport(_) => "Transport",
        RtcError::Internal(_) => "Internal",
    }
}

// ---------------------------------------------------------------- snapshot

#[derive(Clone, Debug, PartialEq)]
struct TSnap {
    id: u64,
    kind: String,
    mid: Option<String>,
    direction: TransceiverDirection,
    payload_map: BTreeMap<u8, (String, u32, u8)>,
    extmap: BTreeMap<u8, String>,
    /// sender_ssrc / sender_rtx_ssrc / sender_stream_id / sender_track_id of the transceiver
    sender_identity: (Option<u32>, Option<u32>, Option<String>, Option<String>),
    /// RtpSender: (ssrc, track id, stream id, cname)
    sender: Option<(u32, String, String, String)>,
    /// RtpSender::params(): (payload type, name, clock, channels)
    sender_params: Option<(u8, String, u32, u8)>,
    sender_sdes_mid: Option<(u8, String)>,
    has_receiver: bool,
    receiver_ssrc: Option<u32>,
    receiver_rtx_ssrc: Option<u32>,
    receiver_rids: Vec<String>,
    has_udtl: bool,
}

#[derive(Clone, Debug, PartialEq)]
struct Snap {
    state: SignalingState,
    local: Option<(SdpType, String)>,
    remote: Option<(SdpType, String)>,
    trans: Vec<TSnap>,
}

fn snapshot(pc: &PeerConnection) -> Snap {
    let d = |x: Option<SessionDescription>| x.map(|d| (d.sdp_type, d.to_sdp_string()));
    // The ICE gathering task appends a=candidate / a=end-of-candidates lines to the stored
    // local description in the background (peer_connection.rs run_gathering_loop); those
    // lines are not an effect of the call under test, so they are left out of the comparison.
    let local = d(pc.local_description()).map(|(t, text)| {
        let kept: Vec<&str> = text
            .lines()
            .filter(|l| !l.starts_with("a=candidate:") && !l.starts_with("a=end-of-candidates"))
            .collect();
        (t, kept.join("\n"))
    });
    Snap {
        state: pc.signaling_state(),
        local,
        remote: d(pc.remote_description()),
        trans: pc
            .get_transceivers()
            .iter()
            .map(|t| {
                let sender = t.sender();
                let receiver = t.receiver();
                TSnap {
                    id: t.id(),
                    kind: format!("{:?}", t.kind()),
                    mid: t.mid(),
                    direction: t.direction(),
                    payload_map: t
                        .get_payload_map()
                        .into_iter()
                        .map(|(k, v)| (k, (v.name, v.clock_rate, v.channels)))
                        .collect(),
                    extmap: t.get_extmap().into_iter().collect(),
                    sender_identity: (
                        t.sender_ssrc(),
                        t.sender_rtx_ssrc(),
                        t.sender_stream_id(),
                        t.sender_track_id(),
                    ),
                    sender: sender.as_ref().map(|s| {
                        (
                            s.ssrc(),
                            s.track_id().to_string(),
                            s.stream_id().to_string(),
                            s.cname().to_string(),
                        )
                    }),
                    sender_params: sender.as_ref().map(|s| {
                        let p = s.params();
                        (p.payload_type, p.name, p.clock_rate, p.channels)
                    }),
                    sender_sdes_mid: sender
                        .as_ref()
                        .and_then(|s| s.sdes_mid())
                        .map(|(id, m)| (id, m.to_string())),
                    has_receiver: receiver.is_some(),
                    receiver_ssrc: receiver.as_ref().map(|r| r.ssrc()),
                    receiver_rtx_ssrc: receiver.as_ref().and_then(|r| r.rtx_ssrc()),
                    receiver_rids: receiver
                        .as_ref()
                        .map(|r| {
                            let mut v = r.get_simulcast_rids();
                            v.sort();
                            v
                        })
                        .unwrap_or_default(),
                    has_udtl: t.udtl_transport().is_some(),
                }
            })
            .collect(),
    }
}

fn first_diff(a: &str, b: &str) -> String {
    let la: Vec<&str> = a.lines().collect();
    let lb: Vec<&str> = b.lines().collect();
    for i in 0..la.len().max(lb.len()) {
        let x = la.get(i).copied().unwrap_or("<end>");
        let y = lb.get(i).copied().unwrap_or("<end>");
        if x != y {
            return format!("line {}: '{}' -> '{}'", i + 1, x, y);
        }
    }
    "identical text".into()
}

/// (field name, detail) for every snapshot field that differs.
/// Snapshot fields that a background task of the connection may move on its own (receiver SSRC
/// learned from or reset by the media path).
const BACKGROUND_FIELDS: [&str; 2] = ["receiver_ssrc", "receiver_rtx_ssrc"];

fn snap_diff(before: &Snap, after: &Snap) -> Vec<(&'static str, String)> {
    let mut out = Vec::new();
    if before.state != after.state {
        out.push(("signaling_state", format!("{:?} -> {:?}", before.state, after.state)));
    }
    let dd = |a: &Option<(SdpType, String)>, b: &Option<(SdpType, String)>| -> String {
        match (a, b) {
            (None, Some((t, _))) => format!("None -> Some({:?})", t),
            (Some((t, _)), None) => format!("Some({:?}) -> None", t),
            (Some((ta, a)), Some((tb, b))) => {
                format!("type {:?} -> {:?}; {}", ta, tb, first_diff(a, b))
            }
            _ => String::new(),
        }
    };
    if before.local != after.local {
        out.push(("local_description", dd(&before.local, &after.local)));
    }
    if before.remote != after.remote {
        out.push(("remote_description", dd(&before.remote, &after.remote)));
    }
    if before.trans.len() != after.trans.len() {
        out.push((
            "transceiver_count",
            format!("{} -> {}", before.trans.len(), after.trans.len()),
        ));
    }
    let ids = |v: &Vec<TSnap>| v.iter().map(|t| t.id).collect::<Vec<_>>();
    if before.trans.len() == after.trans.len() && ids(&before.trans) != ids(&after.trans) {
        out.push((
            "transceiver_order",
            format!("{:?} -> {:?}", ids(&before.trans), ids(&after.trans)),
        ));
    }
    // one entry per field: the first transceiver (in list order) whose value differs
    let mut seen: Vec<&'static str> = Vec::new();
    for (x, y) in before.trans.iter().zip(after.trans.iter()) {
        if x.id != y.id {
            continue;
        }
        let mut field = |name: &'static str, a: String, b: String| {
            if a != b && !seen.contains(&name) {
                seen.push(name);
                out.push((
                    name,
                    format!("transceiver#{} ({} mid {:?}) {} {} -> {}", x.id, x.kind, x.mid, name, a, b),
                ));
            }
        };
        field("kind", x.kind.clone(), y.kind.clone());
        field("mid", format!("{:?}", x.mid), format!("{:?}", y.mid));
        field("direction", format!("{:?}", x.direction), format!("{:?}", y.direction));
        field("payload_map", format!("{:?}", x.payload_map), format!("{:?}", y.payload_map));
        field("extmap", format!("{:?}", x.extmap), format!("{:?}", y.extmap));
        field("sender_identity", format!("{:?}", x.sender_identity), format!("{:?}", y.sender_identity));
        field("sender", format!("{:?}", x.sender), format!("{:?}", y.sender));
        field("sender_params", format!("{:?}", x.sender_params), format!("{:?}", y.sender_params));
        field("sender_sdes_mid", format!("{:?}", x.sender_sdes_mid), format!("{:?}", y.sender_sdes_mid));
        field("receiver_presence", format!("{:?}", x.has_receiver), format!("{:?}", y.has_receiver));
        field("receiver_ssrc", format!("{:?}", x.receiver_ssrc), format!("{:?}", y.receiver_ssrc));
        field("receiver_rtx_ssrc", format!("{:?}", x.receiver_rtx_ssrc), format!("{:?}", y.receiver_rtx_ssrc));
        field("receiver_rids", format!("{:?}", x.receiver_rids), format!("{:?}", y.receiver_rids));
        field("udtl_presence", format!("{:?}", x.has_udtl), format!("{:?}", y.has_udtl));
    }
    out
}

// ---------------------------------------------------------------- description edits

fn is_rtp_section(s: &MediaSection) -> bool {
    matches!(s.kind, MediaKind::Audio | MediaKind::Video)
}

const ZERO_FP: &str = "00:11:22:33:44:55:66:77:88:99:AA:BB:CC:DD:EE:FF:00:11:22:33:44:55:66:77:88:99:AA:BB:CC:DD:EE:FF";

fn for_each_fingerprint(d: &mut SessionDescription, mut f: impl FnMut(&mut Attribute)) -> usize {
    let mut n = 0;
    for a in d.session.attributes.iter_mut() {
        if a.key == "fingerprint" {
            f(a);
            n += 1;
        }
    }
    for s in d.media_sections.iter_mut() {
        for a in s.attributes.iter_mut() {
            if a.key == "fingerprint" {
                f(a);
                n += 1;
            }
        }
    }
    n
}

/// What a staged edit did (for labels and the non-trivial rule of the `reneg` sub-check).
#[derive(Clone, Copy, Debug, Default)]
struct StagedInfo {
    /// index (after the edit) of the section that carries the refusable element
    poison_idx: Option<usize>,
    /// Some(true): went through print + parse; Some(false): the parser refused the text
    via_text: Option<bool>,
}

fn pt_of(v: &str) -> Option<&str> {
    v.split_whitespace().next()
}

fn set_attr(s: &mut MediaSection, key: &str, value: &str) {
    s.attributes.retain(|a| a.key != key);
    s.attributes.push(Attribute::new(key, Some(value.to_string())));
}

fn apply_change(s: &mut MediaSection, change: Change) {
    match change {
        Change::CodecSubset if s.formats.len() >= 2 => {
            let pt = s.formats.remove(0);
            s.attributes.retain(|a| {
                !(matches!(a.key.as_str(), "rtpmap" | "fmtp" | "rtcp-fb")
                    && a.value.as_deref().and_then(pt_of) == Some(pt.as_str()))
            });
        }
        Change::CodecSubset | Change::RemapPt => {
            let Some(old) = s.formats.first().cloned() else {
                return;
            };
            let new = if old == "121" { "122" } else { "121" };
            s.formats[0] = new.to_string();
            for a in s.attributes.iter_mut() {
                if matches!(a.key.as_str(), "rtpmap" | "fmtp" | "rtcp-fb")
                    && let Some(v) = a.value.as_mut()
                    && pt_of(v) == Some(old.as_str())
                {
                    *v = format!("{}{}", new, &v[old.len()..]);
                }
            }
            if !s.attributes.iter().any(|a| a.key == "rtpmap"
                && a.value.as_deref().and_then(pt_of) == Some(new))
            {
                // static payload type without rtpmap: describe the renumbered one explicitly
                let codec = if s.kind == MediaKind::Video { "VP8/90000" } else { "PCMU/8000" };
                s.attributes
                    .push(Attribute::new("rtpmap", Some(format!("{} {}", new, codec))));
            }
        }
        Change::AddCodec => {
            s.formats.push("120".into());
            s.attributes
                .push(Attribute::new("rtpmap", Some("120 X-VERIF/16000".into())));
        }
        Change::Direction => {
            s.direction = match s.direction {
                Direction::SendRecv => Direction::SendOnly,
                Direction::SendOnly => Direction::RecvOnly,
                Direction::RecvOnly => Direction::Inactive,
                Direction::Inactive => Direction::SendRecv,
            };
        }
        Change::Ssrc => {
            let had: Option<u32> = s
                .attributes
                .iter()
                .find(|a| a.key == "ssrc")
                .and_then(|a| a.value.as_deref())
                .and_then(pt_of)
                .and_then(|x| x.parse().ok());
            let new = if had == Some(1_592_590_001) { 1_592_590_002u32 } else { 1_592_590_001u32 };
            s.attributes
                .retain(|a| a.key != "ssrc" && a.key != "ssrc-group" && a.key != "msid");
            s.attributes
                .push(Attribute::new("ssrc", Some(format!("{} cname:verif", new))));
        }
        Change::ExtmapIds => {
            let mut any = false;
            for a in s.attributes.iter_mut() {
                if a.key == "extmap"
                    && let Some(v) = a.value.as_mut()
                    && let Some(id) = pt_of(v).and_then(|x| x.parse::<u8>().ok())
                {
                    let rest = v[pt_of(v).unwrap().len()..].to_string();
                    *v = format!("{}{}", (id % 14) + 1, rest); // cyclic shift inside 1..=14
                    any = true;
                }
            }
            if !any {
                s.attributes.push(Attribute::new(
                    "extmap",
                    Some("5 urn:ietf:params:rtp-hdrext:ssrc-audio-level".into()),
                ));
            }
        }
    }
}

/// Put `poison` into section `p` (`c` is the changed section); returns the index of the
/// section carrying it after the edit.
fn apply_poison(d: &mut SessionDescription, c: usize, p: usize, poison: Poison) -> usize {
    let push = |d: &mut SessionDescription, k: &str, v: &str| {
        d.media_sections[p]
            .attributes
            .push(Attribute::new(k, Some(v.to_string())));
    };
    match poison {
        Poison::Extmap0 => push(d, "extmap", "0 urn:verif:params:rtp-hdrext:zero"),
        Poison::Extmap15 => push(d, "extmap", "15 urn:verif:params:rtp-hdrext:fifteen"),
        Poison::Extmap256 => push(d, "extmap", "256 urn:verif:params:rtp-hdrext:wide"),
        Poison::ExtmapDuplicate => {
            push(d, "extmap", "6 urn:verif:params:rtp-hdrext:one");
            push(d, "extmap", "6 urn:verif:params:rtp-hdrext:two");
        }
        Poison::ExtmapNonNumeric => push(d, "extmap", "x urn:verif:params:rtp-hdrext:nan"),
        Poison::BadRtpmap => {
            push(d, "rtpmap", "notanumber opus/48000/2");
            push(d, "rtpmap", "119");
        }
        Poison::DuplicateRtpmap => {
            let pt = d.media_sections[p].formats.first().cloned().unwrap_or("96".into());
            push(d, "rtpmap", &format!("{} X-TWICE/32000", pt));
        }
        Poison::BadFmtp => {
            push(d, "fmtp", "999 ;;==;");
            push(d, "fmtp", "");
        }
        Poison::UnknownMid => d.media_sections[p].mid = "zz9".into(),
        Poison::DuplicateMid => {
            let other = if p != c { Some(c) } else { (0..d.media_sections.len()).find(|i| *i != p) };
            if let Some(o) = other {
                d.media_sections[p].mid = d.media_sections[o].mid.clone();
            } else {
                d.media_sections[p].mid = "zz9".into();
            }
        }
        Poison::EmptyMid => d.media_sections[p].mid = String::new(),
        Poison::Fingerprint => {
            let flip = |a: &mut Attribute| {
                if let Some(v) = a.value.as_mut()
                    && let Some(last) = v.pop()
                {
                    v.push(if last == 'A' { 'B' } else { 'A' });
                }
            };
            let mut n = 0;
            for a in d.media_sections[p].attributes.iter_mut() {
                if a.key == "fingerprint" {
                    flip(a);
                    n += 1;
                }
            }
            if n == 0 {
                for_each_fingerprint(d, flip);
            }
        }
        Poison::BadIce => {
            set_attr(&mut d.media_sections[p], "ice-ufrag", "");
            set_attr(&mut d.media_sections[p], "ice-pwd", "x");
        }
        Poison::BadProto => d.media_sections[p].protocol = "RTP/VERIF".into(),
        Poison::PortZero => d.media_sections[p].port = 0,
        Poison::SwapSections => {
            let o = if p != c { c } else { (p + 1) % d.media_sections.len() };
            d.media_sections.swap(p, o);
            return p.max(o);
        }
        Poison::DropSection => {
            if d.media_sections.len() > 1 {
                let victim = if p != c { p } else { d.media_sections.len() - 1 };
                d.media_sections.remove(victim);
                return victim.min(d.media_sections.len() - 1);
            }
        }
        Poison::ExtraSection => {
            apply_edit(d, Edit::AddSection { video: d.media_sections[p].kind != MediaKind::Video });
            return d.media_sections.len() - 1;
        }
        Poison::SetupHoldconn => set_attr(&mut d.media_sections[p], "setup", "holdconn"),
        Poison::NoFormats => {
            d.media_sections[p].formats.clear();
            d.media_sections[p]
                .attributes
                .retain(|a| !matches!(a.key.as_str(), "rtpmap" | "fmtp" | "rtcp-fb"));
        }
    }
    p
}

fn apply_staged(
    d: &mut SessionDescription,
    change: Change,
    poison: Poison,
    same_section: bool,
    via_text: bool,
) -> (bool, StagedInfo) {
    let rtp: Vec<usize> = d
        .media_sections
        .iter()
        .enumerate()
        .filter(|(_, s)| is_rtp_section(s))
        .map(|(i, _)| i)
        .collect();
    let Some(&c) = rtp.first() else {
        return (false, StagedInfo::default());
    };
    let p = if same_section { c } else { *rtp.last().unwrap() };
    apply_change(&mut d.media_sections[c], change);
    let poison_idx = apply_poison(d, c, p, poison);
    let mut info = StagedInfo { poison_idx: Some(poison_idx), via_text: None };
    if via_text {
        match SessionDescription::parse(d.sdp_type, &d.to_sdp_string()) {
            Ok(parsed) => {
                *d = parsed;
                info.via_text = Some(true);
            }
            Err(_) => info.via_text = Some(false),
        }
    }
    (true, info)
}

/// Index of the first media section in which `d` differs from `applied` (None: no difference
/// in the sections; a different section count counts from the shorter length).
fn first_differing_section(d: &SessionDescription, applied: &SessionDescription) -> Option<usize> {
    let n = d.media_sections.len().min(applied.media_sections.len());
    for i in 0..n {
        if d.media_sections[i] != applied.media_sections[i] {
            return Some(i);
        }
    }
    (d.media_sections.len() != applied.media_sections.len()).then_some(n)
}

/// Apply `edit`; returns false when the edit had nothing to act on (description unchanged).
fn apply_edit(d: &mut SessionDescription, edit: Edit) -> bool {
    apply_edit_info(d, edit).0
}

fn apply_edit_info(d: &mut SessionDescription, edit: Edit) -> (bool, StagedInfo) {
    if let Edit::Staged { change, poison, same_section, via_text } = edit {
        return apply_staged(d, change, poison, same_section, via_text);
    }
    (apply_edit_plain(d, edit), StagedInfo::default())
}

fn apply_edit_plain(d: &mut SessionDescription, edit: Edit) -> bool {
    match edit {
        Edit::Keep => true,
        Edit::Staged { .. } => false,
        Edit::Codecs { alt } => {
            let Some(s) = d.media_sections.iter_mut().find(|s| is_rtp_section(s)) else {
                return false;
            };
            if alt {
                // re-describe the first payload type as another codec
                let Some(pt) = s.formats.first().cloned() else {
                    return false;
                };
                s.attributes.retain(|a| {
                    !(matches!(a.key.as_str(), "rtpmap" | "fmtp" | "rtcp-fb")
                        && a.value.as_deref().is_some_and(|v| {
                            v.split_whitespace().next() == Some(pt.as_str())
                        }))
                });
                s.attributes
                    .push(Attribute::new("rtpmap", Some(format!("{} X-ALT/16000", pt))));
            } else {
                s.formats.push("120".into());
                s.attributes
                    .push(Attribute::new("rtpmap", Some("120 X-VERIF/16000".into())));
            }
            true
        }
        Edit::Direction => {
            let Some(s) = d.media_sections.iter_mut().find(|s| is_rtp_section(s)) else {
                return false;
            };
            s.direction = match s.direction {
                Direction::SendRecv => Direction::SendOnly,
                Direction::SendOnly => Direction::RecvOnly,
                Direction::RecvOnly => Direction::Inactive,
                Direction::Inactive => Direction::SendRecv,
            };
            true
        }
        Edit::AddSection { video } => {
            let kind = if video { MediaKind::Video } else { MediaKind::Audio };
            let mid = "7".to_string();
            let mut s = MediaSection::new(kind, mid.clone());
            if let Some(first) = d.media_sections.first() {
                s.port = first.port;
                s.connection = first.connection.clone();
                if let Some(r) = d.media_sections.iter().find(|x| is_rtp_section(x)) {
                    s.protocol = r.protocol.clone();
                }
                for a in &first.attributes {
                    if matches!(
                        a.key.as_str(),
                        "ice-ufrag" | "ice-pwd" | "ice-options" | "fingerprint" | "setup"
                            | "rtcp-mux" | "crypto" | "candidate"
                    ) {
                        s.attributes.push(a.clone());
                    }
                }
            }
            if video {
                s.formats = vec!["96".into()];
                s.attributes
                    .push(Attribute::new("rtpmap", Some("96 VP8/90000".into())));
            } else {
                s.formats = vec!["0".into()];
                s.attributes
                    .push(Attribute::new("rtpmap", Some("0 PCMU/8000".into())));
            }
            for a in d.session.attributes.iter_mut() {
                if a.key == "group"
                    && let Some(v) = a.value.as_mut()
                    && v.starts_with("BUNDLE")
                {
                    v.push(' ');
                    v.push_str(&mid);
                }
            }
            d.media_sections.push(s);
            true
        }
        Edit::Fingerprint => {
            for_each_fingerprint(d, |a| {
                if let Some(v) = a.value.as_mut()
                    && let Some(last) = v.pop()
                {
                    v.push(if last == 'A' { 'B' } else { 'A' });
                }
            }) > 0
        }
        Edit::Extmap => {
            let Some(s) = d.media_sections.iter_mut().find(|s| is_rtp_section(s)) else {
                return false;
            };
            s.attributes.push(Attribute::new(
                "extmap",
                Some("9 urn:verif:params:rtp-hdrext:probe".into()),
            ));
            true
        }
        Edit::NoFingerprint => {
            let before = for_each_fingerprint(d, |_| {});
            d.session.attributes.retain(|a| a.key != "fingerprint");
            for s in d.media_sections.iter_mut() {
                s.attributes.retain(|a| a.key != "fingerprint");
            }
            before > 0
        }
        Edit::ConflictingFingerprints => {
            if for_each_fingerprint(d, |_| {}) == 0 {
                d.session.attributes.push(Attribute::new(
                    "fingerprint",
                    Some(format!("sha-256 {}", ZERO_FP.replace("00", "01"))),
                ));
            }
            d.session
                .attributes
                .push(Attribute::new("fingerprint", Some(format!("sha-256 {}", ZERO_FP))));
            true
        }
        Edit::UnsupportedHash => {
            let v = format!("sha-1 {}", &ZERO_FP[..59]);
            if for_each_fingerprint(d, |a| a.value = Some(v.clone())) == 0 {
                d.session
                    .attributes
                    .push(Attribute::new("fingerprint", Some(v.clone())));
            }
            true
        }
        Edit::BadHexFingerprint => {
            let v = format!("sha-256 {}", ZERO_FP.replace("00", "ZZ"));
            if for_each_fingerprint(d, |a| a.value = Some(v.clone())) == 0 {
                d.session
                    .attributes
                    .push(Attribute::new("fingerprint", Some(v.clone())));
            }
            true
        }
    }
}

fn edit_label(e: Edit) -> &'static str {
    match e {
        Edit::Keep => "keep",
        Edit::Codecs { .. } => "mut-codecs",
        Edit::Direction => "mut-direction",
        Edit::AddSection { .. } => "mut-add-section",
        Edit::Fingerprint => "mut-fingerprint",
        Edit::Extmap => "mut-extmap",
        Edit::NoFingerprint => "bad-no-fingerprint",
        Edit::ConflictingFingerprints => "bad-conflicting-fingerprints",
        Edit::UnsupportedHash => "bad-unsupported-hash",
        Edit::BadHexFingerprint => "bad-hex-fingerprint",
        Edit::Staged { .. } => "staged",
    }
}

// ---------------------------------------------------------------- the world (A + partner)

fn config(mode: Mode) -> RtcConfiguration {
    let mut c = RtcConfiguration::default();
    c.transport_mode = match mode {
        Mode::WebRtc => TransportMode::WebRtc,
        Mode::Srtp => TransportMode::Srtp,
        Mode::Rtp => TransportMode::Rtp,
    };
    c.bind_ip = Some("127.0.0.1".into());
    c.disable_ipv6 = true;
    c
}

type Dc = Arc<rustrtc::transports::sctp::DataChannel>;

/// Things that must stay alive for the duration of a case.
#[derive(Default)]
struct Keep {
    dcs: Vec<Dc>,
    sources: Vec<rustrtc::media::SampleStreamSource>,
}

fn add_media(pc: &PeerConnection, kind: MediaKind, tracks: bool, keep: &mut Keep) {
    if tracks {
        let (fk, params) = match kind {
            MediaKind::Video => (
                rustrtc::media::MediaKind::Video,
                rustrtc::RtpCodecParameters {
                    payload_type: 96,
                    name: "VP8".into(),
                    clock_rate: 90000,
                    channels: 0,
                },
            ),
            _ => (
                rustrtc::media::MediaKind::Audio,
                rustrtc::RtpCodecParameters {
                    payload_type: 111,
                    name: "opus".into(),
                    clock_rate: 48000,
                    channels: 2,
                },
            ),
        };
        let (source, track, _fb) = rustrtc::media::sample_track(fk, 8);
        // add_track reuses a mid-carrying, sender-less transceiver; on a fresh connection it
        // always creates a new sendrecv transceiver
        if pc.add_track(track, params).is_ok() {
            keep.sources.push(source);
            return;
        }
    }
    pc.add_transceiver(kind, TransceiverDirection::SendRecv);
}

fn populate(pc: &PeerConnection, mode: Mode, media: Media, tracks: bool, keep: &mut Keep) {
    // data channels only exist in WebRTC mode; the direct modes get audio/video instead
    let media = match (mode, media) {
        (Mode::WebRtc, m) => m,
        (_, Media::Dc) => Media::Audio,
        (_, Media::DcAudio) => Media::AudioVideo,
        (_, Media::DcAudioVideo) => Media::AudioVideoAudio,
        (_, m) => m,
    };
    let dc = |keep: &mut Keep| {
        if let Ok(d) = pc.create_data_channel("verif", None) {
            keep.dcs.push(d);
        }
    };
    let (a, v) = (MediaKind::Audio, MediaKind::Video);
    match media {
        Media::Dc => dc(keep),
        Media::Audio => add_media(pc, a, tracks, keep),
        Media::Video => add_media(pc, v, tracks, keep),
        Media::AudioVideo => {
            add_media(pc, a, tracks, keep);
            add_media(pc, v, tracks, keep);
        }
        Media::DcAudio => {
            dc(keep);
            add_media(pc, a, tracks, keep);
        }
        Media::AudioVideoAudio => {
            add_media(pc, a, tracks, keep);
            add_media(pc, v, tracks, keep);
            add_media(pc, a, tracks, keep);
        }
        Media::DcAudioVideo => {
            dc(keep);
            add_media(pc, a, tracks, keep);
            add_media(pc, v, tracks, keep);
        }
    }
}

/// Shared between a case thread and its watchdog: which API call is in flight.
#[derive(Clone, Default)]
pub struct Marker(Arc<parking_lot::Mutex<(String, String)>>);

impl Marker {
    fn set(&self, who: &str, f: &str) {
        let mut g = self.0.lock();
        g.0 = who.to_string();
        g.1 = f.to_string();
    }
    fn get(&self) -> (String, String) {
        self.0.lock().clone()
    }
}

#[derive(Clone, Copy, Default)]
pub struct Opts {
    /// known finding `call-never-returned:create_offer[Srtp]`: let the SDES transport start
    /// finish after every accepted remote description before the next call is made
    pub settle_srtp: bool,
    /// non-trivial rule of the `reneg` sub-check (an Err on a call whose description differs
    /// from the applied one at or before the section carrying the refusable element)
    pub rule_reneg: bool,
}

struct World {
    mode: Mode,
    media_b: Media,
    a: PeerConnection,
    b: PeerConnection,
    retired: Vec<PeerConnection>,
    keep: Keep,
    tracks: bool,
    /// most recent value returned by A.create_offer / A.create_answer
    a_last_created: Option<SessionDescription>,
    /// most recent offer returned by A.create_offer
    a_last_offer: Option<SessionDescription>,
    partners_made: u32,
    marker: Marker,
    opts: Opts,
    settles: u32,
}

#[derive(Clone, Copy, PartialEq)]
enum Who {
    A,
    B,
}

impl World {
    fn new(case: &Case, marker: Marker, opts: Opts) -> World {
        let mut keep = Keep::default();
        marker.set("A", "new");
        let a = PeerConnection::new(config(case.mode));
        populate(&a, case.mode, case.media_a, case.tracks, &mut keep);
        marker.set("B", "new");
        let b = PeerConnection::new(config(case.mode));
        populate(&b, case.mode, case.media_b, case.tracks, &mut keep);
        World {
            mode: case.mode,
            media_b: case.media_b,
            a,
            b,
            retired: Vec::new(),
            keep,
            tracks: case.tracks,
            a_last_created: None,
            a_last_offer: None,
            partners_made: 1,
            marker,
            opts,
            settles: 0,
        }
    }

    fn pc(&self, who: Who) -> &PeerConnection {
        match who {
            Who::A => &self.a,
            Who::B => &self.b,
        }
    }

    fn mark(&self, who: Who, f: &str) {
        self.marker.set(if who == Who::A { "A" } else { "B" }, f);
    }

    // Every API call goes through these wrappers so that the watchdog can name the call
    // that never returned.
    async fn create_offer(&mut self, who: Who) -> Result<SessionDescription, RtcError> {
        self.mark(who, "create_offer");
        let r = self.pc(who).create_offer().await;
        self.mark(who, "-");
        r
    }

    async fn create_answer(&mut self, who: Who) -> Result<SessionDescription, RtcError> {
        self.mark(who, "create_answer");
        let r = self.pc(who).create_answer().await;
        self.mark(who, "-");
        r
    }

    fn set_local(&mut self, who: Who, d: SessionDescription) -> Result<(), RtcError> {
        self.mark(who, "set_local_description");
        let r = self.pc(who).set_local_description(d);
        self.mark(who, "-");
        r
    }

    async fn set_remote(&mut self, who: Who, d: SessionDescription) -> Result<(), RtcError> {
        self.mark(who, "set_remote_description");
        let r = self.pc(who).set_remote_description(d).await;
        self.mark(who, "-");
        if r.is_ok() && self.opts.settle_srtp && self.mode == Mode::Srtp {
            // steer away from the create_offer / setup_sdes lock-order inversion
            self.mark(who, "settle");
            let _ = self
                .pc(who)
                .wait_for_rtp_transport_ready(Duration::from_millis(100))
                .await;
            tokio::time::sleep(Duration::from_millis(15)).await;
            self.settles += 1;
            self.mark(who, "-");
        }
        r
    }

    fn fresh_partner(&mut self) {
        self.mark(Who::B, "new");
        let nb = PeerConnection::new(config(self.mode));
        populate(&nb, self.mode, self.media_b, self.tracks, &mut self.keep);
        let old = std::mem::replace(&mut self.b, nb);
        self.mark(Who::B, "close");
        old.close();
        self.mark(Who::B, "-");
        self.retired.push(old);
        self.partners_made += 1;
    }

    /// A real offer from the partner (it applies it locally, like a real remote party).
    async fn partner_offer(&mut self) -> Option<SessionDescription> {
        for _ in 0..2 {
            match self.b.signaling_state() {
                SignalingState::Stable => {
                    if let Ok(o) = self.create_offer(Who::B).await {
                        if self.set_local(Who::B, o.clone()).is_ok() {
                            return Some(o);
                        }
                    }
                }
                SignalingState::HaveLocalOffer => {
                    if let Some(o) = self.b.local_description() {
                        return Some(o);
                    }
                }
                _ => {}
            }
            self.fresh_partner();
        }
        None
    }

    /// A real answer from the partner to A's most recent offer. Falls back to a partner
    /// offer when A never produced an offer (the caller re-types it anyway).
    async fn partner_answer(&mut self) -> Option<SessionDescription> {
        let offer = match self.a.local_description() {
            Some(d) if d.sdp_type == SdpType::Offer => Some(d),
            _ => self.a_last_offer.clone(),
        };
        let Some(mut offer) = offer else {
            return self.partner_offer().await;
        };
        offer.sdp_type = SdpType::Offer;
        for _ in 0..2 {
            if self.b.signaling_state() != SignalingState::Stable {
                self.fresh_partner();
            }
            if self.set_remote(Who::B, offer.clone()).await.is_ok()
                && let Ok(ans) = self.create_answer(Who::B).await
                && self.set_local(Who::B, ans.clone()).is_ok()
            {
                return Some(ans);
            }
            self.fresh_partner();
        }
        self.partner_offer().await
    }

    async fn describe(&mut self, local: bool, kind: Kind, src: Source) -> Option<SessionDescription> {
        let own = self.a_last_created.clone();
        let d = match (src, own) {
            (Source::Own, Some(d)) => Some(d),
            _ => {
                // partner's matching description; for set_local this is a cross-wired input
                let want_offer = match kind {
                    Kind::Offer => true,
                    Kind::Answer | Kind::Pranswer => false,
                    Kind::Rollback => local,
                };
                if want_offer {
                    self.partner_offer().await
                } else {
                    self.partner_answer().await
                }
            }
        };
        d.map(|mut d| {
            d.sdp_type = sdp_type(kind);
            d
        })
    }

    fn close_all(&mut self) {
        self.marker.set("*", "close");
        self.a.close();
        self.b.close();
        for p in &self.retired {
            p.close();
        }
        self.keep.dcs.clear();
        self.keep.sources.clear();
        self.marker.set("*", "-");
    }
}

// ---------------------------------------------------------------- interpreter

/// Everything one program produced: labels, every oracle failure (the interpreter
/// continues behind a failure from the state the implementation is really in, so that a
/// known finding does not hide a different one later in the same program).
pub struct Outcome {
    pub rec: CaseRec,
    pub fails: Vec<Fail>,
    pub settles: u32,
}

async fn run_case(case: &Case, rec: &CaseRec, marker: Marker, opts: Opts) -> (Vec<Fail>, u32) {
    let mut w = World::new(case, marker, opts);
    let mut fails = Vec::new();
    if let Err(f) = run_inner(case, rec, &mut w, &mut fails).await {
        fails.push(f);
    }
    w.close_all();
    (fails, w.settles)
}

async fn prelude(case: &Case, rec: &CaseRec, w: &mut World) -> Result<u32, Fail> {
    let Start::Negotiated { a_offers, wait_connected } = case.start else {
        return Ok(0);
    };
    let step = |what: &str, e: RtcError| {
        Fail::new(
            "prelude-negotiation-failed",
            format!("happy-path negotiation failed at {}: {}", what, e),
        )
    };
    if wait_connected && case.mode == Mode::WebRtc {
        // descriptions only carry candidates once gathering has produced them; a pair that
        // is meant to connect exchanges complete descriptions (no trickle channel here)
        w.marker.set("*", "wait_for_gathering_complete");
        let _ = tokio::time::timeout(Duration::from_secs(5), async {
            tokio::join!(w.a.wait_for_gathering_complete(), w.b.wait_for_gathering_complete())
        })
        .await;
    }
    let (x, y) = if a_offers { (Who::A, Who::B) } else { (Who::B, Who::A) };
    let n = |w: Who| if w == Who::A { "A" } else { "B" };
    let o = w.create_offer(x).await.map_err(|e| step(&format!("{}.create_offer", n(x)), e))?;
    if x == Who::A {
        w.a_last_created = Some(o.clone());
        w.a_last_offer = Some(o.clone());
    }
    w.set_local(x, o.clone()).map_err(|e| step(&format!("{}.set_local(offer)", n(x)), e))?;
    w.set_remote(y, o).await.map_err(|e| step(&format!("{}.set_remote(offer)", n(y)), e))?;
    let ans = w.create_answer(y).await.map_err(|e| step(&format!("{}.create_answer", n(y)), e))?;
    if y == Who::A {
        w.a_last_created = Some(ans.clone());
    }
    w.set_local(y, ans.clone()).map_err(|e| step(&format!("{}.set_local(answer)", n(y)), e))?;
    w.set_remote(x, ans).await.map_err(|e| step(&format!("{}.set_remote(answer)", n(x)), e))?;
    if w.a.signaling_state() != SignalingState::Stable {
        return Err(Fail::new(
            "prelude-not-stable",
            format!("after a complete offer/answer A reports {:?}", w.a.signaling_state()),
        ));
    }
    if wait_connected && case.mode == Mode::WebRtc {
        w.marker.set("A", "wait_for_connected");
        match tokio::time::timeout(Duration::from_secs(10), w.a.wait_for_connected()).await {
            Ok(Ok(())) => rec.label("start:connected"),
            _ => {
                rec.label("start:connect-wait-missed");
                rec.inconclusive_timing();
            }
        }
    }
    Ok(3)
}

async fn run_inner(case: &Case, rec: &CaseRec, w: &mut World, all_fails: &mut Vec<Fail>) -> Check {
    rec.label(format!("mode={:?}", case.mode));
    rec.label(match case.start {
        Start::Fresh => "start=fresh",
        Start::Negotiated { wait_connected: true, .. } => "start=negotiated+connected",
        Start::Negotiated { .. } => "start=negotiated",
    });
    let mut accepted: u32 = prelude(case, rec, w).await?;
    let mut model = M::of(w.a.signaling_state());
    let mut rejected_after_accepted = false;
    let mut rejected_midway = false;
    let mut renegotiated = false;

    for (i, op) in case.ops.iter().enumerate() {
        let call = call_name(op);
        let allowed = machine(model, op);
        let mut before = snapshot(&w.a);

        // ---- perform the call
        let mut edit_used: Option<(Edit, bool)> = None;
        let mut differs_before_poison = false;
        let mut staged_call = false;
        let ice_role_before = format!("{:?}", w.a.ice_transport().role());
        let result: Result<(), RtcError> = match *op {
            Op::AddTransceiver { video } => {
                let kind = if video { MediaKind::Video } else { MediaKind::Audio };
                w.a.add_transceiver(kind, TransceiverDirection::SendRecv);
                continue;
            }
            Op::Close => {
                w.mark(Who::A, "close");
                w.a.close();
                w.mark(Who::A, "-");
                Ok(())
            }
            Op::CreateOffer => match w.create_offer(Who::A).await {
                Ok(d) => {
                    w.a_last_created = Some(d.clone());
                    w.a_last_offer = Some(d);
                    Ok(())
                }
                Err(e) => Err(e),
            },
            Op::CreateAnswer => match w.create_answer(Who::A).await {
                Ok(d) => {
                    w.a_last_created = Some(d);
                    Ok(())
                }
                Err(e) => Err(e),
            },
            Op::SetLocal { kind, src, edit } | Op::SetRemote { kind, src, edit } => {
                let local = matches!(op, Op::SetLocal { .. });
                let Some(mut d) = w.describe(local, kind, src).await else {
                    rec.label("no-description-available");
                    continue;
                };
                // the partner may have been driven meanwhile; A must not have moved
                let before2 = snapshot(&w.a);
                // The media path learns / resets a receiver's SSRC in the background (an asynchronous
                // effect of an earlier accepted call, e.g. once the direct transport has started):
                // that is not the partner disturbing A; take the later snapshot as the baseline.
                if before2 != before
                    && snap_diff(&before, &before2).iter().all(|(f, _)| BACKGROUND_FIELDS.contains(f))
                {
                    rec.label("background:receiver-ssrc-moved-between-steps");
                    before = before2.clone();
                }
                if before2 != before {
                    return Err(Fail::new(
                        "harness-partner-disturbed-a",
                        format!(
                            "step {i}: preparing the partner description changed A: {:?}",
                            snap_diff(&before, &before2)
                        ),
                    ));
                }
                let (acted, sinfo) = apply_edit_info(&mut d, edit);
                edit_used = Some((edit, acted));
                if let Edit::Staged { change, poison, same_section, .. } = edit {
                    rec.label(format!("staged:change={:?}", change));
                    rec.label(format!("staged:poison={:?}", poison));
                    rec.label(if same_section { "staged:same-section" } else { "staged:later-section" });
                    match sinfo.via_text {
                        Some(true) => rec.label("staged:via-text"),
                        Some(false) => rec.label("staged:via-text-unparsable(struct-used)"),
                        None => rec.label("staged:struct"),
                    }
                }
                // does the carried description differ from the applied one in a section at or
                // before the one carrying the refusable element?
                let applied = if local { w.a.local_description() } else { w.a.remote_description() };
                differs_before_poison = match (&applied, sinfo.poison_idx) {
                    (Some(ap), Some(pi)) => {
                        first_differing_section(&d, ap).is_some_and(|fd| fd <= pi)
                    }
                    _ => false,
                };
                staged_call = matches!(edit, Edit::Staged { .. });
                if local {
                    let r = w.set_local(Who::A, d.clone());
                    if r.is_ok()
                        && kind == Kind::Answer
                        && w.b.signaling_state() == SignalingState::HaveLocalOffer
                    {
                        // deliver A's answer to the partner like a signaling channel would
                        let _ = w.set_remote(Who::B, d).await;
                    }
                    r
                } else {
                    w.set_remote(Who::A, d).await
                }
            }
        };

        let after = snapshot(&w.a);
        let at = model.name();
        let outcome = match (&result, allowed) {
            (Ok(()), _) => "ok",
            (Err(_), None) => "err-forbidden",
            (Err(_), Some(_)) => "err-content",
        };
        rec.label(format!("t:{}@{}={}", call, at, outcome));
        if staged_call {
            rec.label(format!("staged-call:{}@{}={}", call, at, outcome));
            if result.is_err() && differs_before_poison {
                // the unchanged tree refused a description that differs from the applied one in
                // an earlier (or the same) section than the refusable element
                rejected_midway = true;
                rec.label(format!("rejected-midway:{}@{}", call, at));
                if allowed.is_some() {
                    // the machine allows the call: the refusal is about the description content
                    rec.label("rejected-midway-content");
                    if let Some((Edit::Staged { poison, .. }, _)) = edit_used {
                        rec.label(format!("rejected-midway-content:poison={:?}", poison));
                    }
                }
            }
        }
        if result.is_err() && format!("{:?}", w.a.ice_transport().role()) != ice_role_before {
            // not part of the statement (not judged): the ICE role moved although the call erred
            rec.label(format!("soft:ice-role-changed-on-err:{}@{}", call, at));
        }
        if let Some((e, acted)) = edit_used {
            if e != Edit::Keep {
                rec.label(format!("edit:{}{}", edit_label(e), if acted { "" } else { "(no-op)" }));
            }
        }
        let ctxmsg = |what: &str| -> String {
            format!(
                "step {} {:?} in model state {}: {} (result {}; reported state {:?} -> {:?}); mode {:?}, start {:?}, program so far {:?}",
                i,
                op,
                at,
                what,
                match &result {
                    Ok(()) => "Ok".to_string(),
                    Err(e) => format!("Err({})", e),
                },
                before.state,
                after.state,
                case.mode,
                case.start,
                &case.ops[..=i]
            )
        };

        let mut fails: Vec<Fail> = Vec::new();
        match &result {
            Ok(()) => {
                match allowed {
                    None => fails.push(Fail::new(
                        format!("forbidden-accepted:{}@{}", call, at),
                        ctxmsg("the state machine forbids this call but it returned Ok"),
                    )),
                    Some(next) => {
                        if M::of(after.state) != next {
                            fails.push(Fail::new(
                                format!(
                                    "state-mismatch:{}@{}:reported={}",
                                    call,
                                    at,
                                    M::of(after.state).name()
                                ),
                                ctxmsg(&format!("accepted call must lead to {}", next.name())),
                            ));
                        }
                    }
                }
                if !matches!(op, Op::Close) {
                    accepted += 1;
                }
                if matches!(
                    op,
                    Op::SetLocal { kind: Kind::Answer, .. } | Op::SetRemote { kind: Kind::Answer, .. }
                ) && allowed.is_some()
                {
                    renegotiated = true;
                }
            }
            Err(e) => {
                if accepted > 0 {
                    rejected_after_accepted = true;
                }
                for (field, detail) in snap_diff(&before, &after) {
                    let sig = format!("err-changed:{}@{}[{}]:{}", call, at, err_variant(e), field);
                    let msg = ctxmsg(&format!("the call returned Err but changed {}: {}", field, detail));
                    // a field the media path also moves in the background: counts only if it repeats alone
                    fails.push(if BACKGROUND_FIELDS.contains(&field) { Fail::timing(sig, msg) } else { Fail::new(sig, msg) });
                }
            }
        }

        // advance the model; behind a failure continue from the state the implementation is in
        model = match (&result, allowed) {
            (Ok(()), Some(next)) => next,
            _ => model,
        };
        if !fails.is_empty() {
            model = M::of(after.state);
            rec.label("continued-behind-failure");
        }
        all_fails.extend(fails);
        rec.label(format!("reached:{}", model.name()));
    }

    rec.set_nontrivial(if w.opts.rule_reneg { rejected_midway } else { rejected_after_accepted });
    if rejected_midway {
        rec.label("rejected-midway");
    }
    if rejected_after_accepted {
        rec.label("rejected-after-accepted");
    }
    if renegotiated {
        rec.label("completed-offer-answer-in-sequence");
    }
    if w.partners_made > 1 {
        rec.label("partner-replaced");
    }
    Ok(())
}

/// Run one program on its own thread under a watchdog. A blocking deadlock inside the
/// library cannot be cancelled; the stuck thread (and the runtime worker it blocks) is
/// abandoned and the case is reported as `call-never-returned:<fn>[<mode>]`.
pub fn exec(rt: &Arc<tokio::runtime::Runtime>, case: &Case, opts: Opts, watchdog: Duration) -> Outcome {
    let marker = Marker::default();
    let (tx, rx) = std::sync::mpsc::channel::<Outcome>();
    let (rt2, case2, marker2) = (rt.clone(), case.clone(), marker.clone());
    let spawned = std::thread::Builder::new()
        .name("c09-case".into())
        .spawn(move || {
            let rec = CaseRec::default();
            let mut fails = Vec::new();
            let mut settles = 0;
            let r = guarded(|| {
                let (f, s) = rt2.block_on(run_case(&case2, &rec, marker2, opts));
                fails = f;
                settles = s;
                Ok(())
            });
            if let Err(f) = r {
                fails.push(f);
            }
            let _ = tx.send(Outcome { rec, fails, settles });
        });
    if let Err(e) = spawned {
        let rec = CaseRec::default();
        return Outcome {
            rec,
            fails: vec![Fail::new("harness-thread-spawn", e.to_string())],
            settles: 0,
        };
    }
    match rx.recv_timeout(watchdog) {
        Ok(o) => o,
        Err(_) => {
            let (who, f) = marker.get();
            let rec = CaseRec::default();
            rec.label(format!("mode={:?}", case.mode));
            rec.label("call-never-returned");
            Outcome {
                rec,
                fails: vec![Fail::new(
                    format!("call-never-returned:{}[{:?}]", f, case.mode),
                    format!(
                        "{}.{} did not return within {:?} (blocking hang; not cancellable). case {:?}",
                        who, f, watchdog, case
                    ),
                )],
                settles: 0,
            }
        }
    }
}
// ---------------------------------------------------------------- generators

fn mode_strategy() -> impl Strategy<Value = Mode> {
    prop_oneof![4 => Just(Mode::WebRtc), 3 => Just(Mode::Srtp), 3 => Just(Mode::Rtp)]
}

fn media_strategy() -> impl Strategy<Value = Media> {
    prop_oneof![
        2 => Just(Media::Dc),
        3 => Just(Media::Audio),
        1 => Just(Media::Video),
        3 => Just(Media::AudioVideo),
        2 => Just(Media::DcAudio),
        1 => Just(Media::AudioVideoAudio),
        1 => Just(Media::DcAudioVideo),
    ]
}

fn kind_strategy() -> impl Strategy<Value = Kind> {
    prop_oneof![
        4 => Just(Kind::Offer),
        4 => Just(Kind::Answer),
        2 => Just(Kind::Pranswer),
        1 => Just(Kind::Rollback),
    ]
}

fn edit_strategy() -> impl Strategy<Value = Edit> {
    prop_oneof![
        12 => Just(Edit::Keep),
        2 => any::<bool>().prop_map(|alt| Edit::Codecs { alt }),
        2 => Just(Edit::Direction),
        2 => any::<bool>().prop_map(|video| Edit::AddSection { video }),
        2 => Just(Edit::Fingerprint),
        1 => Just(Edit::Extmap),
        1 => Just(Edit::NoFingerprint),
        1 => Just(Edit::ConflictingFingerprints),
        1 => Just(Edit::UnsupportedHash),
        1 => Just(Edit::BadHexFingerprint),
        3 => staged_strategy(),
    ]
}

fn random_op() -> impl Strategy<Value = Op> {
    prop_oneof![
        4 => Just(Op::CreateOffer),
        4 => Just(Op::CreateAnswer),
        8 => (kind_strategy(), prop_oneof![4 => Just(Source::Own), 1 => Just(Source::Partner)], edit_strategy())
            .prop_map(|(kind, src, edit)| Op::SetLocal { kind, src, edit }),
        8 => (kind_strategy(), prop_oneof![1 => Just(Source::Own), 4 => Just(Source::Partner)], edit_strategy())
            .prop_map(|(kind, src, edit)| Op::SetRemote { kind, src, edit }),
        1 => Just(Op::Close),
        1 => any::<bool>().prop_map(|video| Op::AddTransceiver { video }),
    ]
}

/// One raw step: with `guide` the op is replaced by one the machine allows in the state
/// the model predicts (assuming allowed calls succeed), so that long programs keep
/// reaching HaveLocalOffer / HaveRemoteOffer / renegotiation instead of dying in Stable.
#[derive(Clone, Debug)]
struct RawStep {
    guide: bool,
    pick: u8,
    edit: Edit,
    op: Op,
}

fn raw_step() -> impl Strategy<Value = RawStep> {
    (prop::bool::weighted(0.55), any::<u8>(), edit_strategy(), random_op())
        .prop_map(|(guide, pick, edit, op)| RawStep { guide, pick, edit, op })
}

fn guided(state: M, pick: u8, edit: Edit) -> Op {
    let own = Source::Own;
    let par = Source::Partner;
    let opts: Vec<Op> = match state {
        M::Stable => vec![
            Op::CreateOffer,
            Op::SetLocal { kind: Kind::Offer, src: own, edit },
            Op::SetRemote { kind: Kind::Offer, src: par, edit },
            Op::CreateOffer,
        ],
        M::HaveLocalOffer => vec![
            Op::SetRemote { kind: Kind::Answer, src: par, edit },
            Op::SetRemote { kind: Kind::Pranswer, src: par, edit },
            Op::SetRemote { kind: Kind::Answer, src: par, edit },
        ],
        M::HaveRemoteOffer => vec![
            Op::CreateAnswer,
            Op::SetLocal { kind: Kind::Answer, src: own, edit },
            Op::SetLocal { kind: Kind::Pranswer, src: own, edit },
            Op::CreateAnswer,
            Op::SetLocal { kind: Kind::Answer, src: own, edit },
        ],
        M::Closed => vec![Op::CreateOffer],
    };
    opts[pick as usize % opts.len()]
}

fn build_ops(raw: Vec<RawStep>) -> Vec<Op> {
    let mut s = M::Stable;
    let mut out = Vec::with_capacity(raw.len());
    for r in raw {
        let op = if r.guide && s != M::Closed { guided(s, r.pick, r.edit) } else { r.op };
        if let Some(n) = machine(s, &op) {
            s = n;
        }
        out.push(op);
    }
    out
}

fn start_strategy() -> impl Strategy<Value = Start> {
    prop_oneof![
        6 => Just(Start::Fresh),
        2 => any::<bool>().prop_map(|a_offers| Start::Negotiated { a_offers, wait_connected: false }),
        2 => any::<bool>().prop_map(|a_offers| Start::Negotiated { a_offers, wait_connected: true }),
    ]
}

pub fn case_strategy() -> impl Strategy<Value = Case> {
    (
        mode_strategy(),
        media_strategy(),
        media_strategy(),
        prop::bool::weighted(0.7),
        start_strategy(),
        prop::bool::weighted(0.25),
        prop::collection::vec(raw_step(), 1..=12),
    )
        .prop_map(|(mode, media_a, media_b0, same_media, start, tracks, raw)| Case {
            mode,
            media_a,
            media_b: if same_media { media_a } else { media_b0 },
            start,
            tracks,
            ops: build_ops(raw),
        })
}

// ---- `reneg`: renegotiation programs whose descriptions are rejected (or not) mid-way

fn change_strategy() -> impl Strategy<Value = Change> {
    prop_oneof![
        Just(Change::CodecSubset),
        Just(Change::RemapPt),
        Just(Change::AddCodec),
        Just(Change::Direction),
        Just(Change::Ssrc),
        Just(Change::ExtmapIds),
    ]
}

fn poison_strategy() -> impl Strategy<Value = Poison> {
    prop_oneof![
        3 => Just(Poison::Extmap0),
        2 => Just(Poison::Extmap15),
        2 => Just(Poison::Extmap256),
        2 => Just(Poison::ExtmapDuplicate),
        2 => Just(Poison::ExtmapNonNumeric),
        2 => Just(Poison::BadRtpmap),
        2 => Just(Poison::DuplicateRtpmap),
        2 => Just(Poison::BadFmtp),
        2 => Just(Poison::UnknownMid),
        2 => Just(Poison::DuplicateMid),
        1 => Just(Poison::EmptyMid),
        3 => Just(Poison::Fingerprint),
        2 => Just(Poison::BadIce),
        2 => Just(Poison::BadProto),
        1 => Just(Poison::PortZero),
        2 => Just(Poison::SwapSections),
        2 => Just(Poison::DropSection),
        2 => Just(Poison::ExtraSection),
        2 => Just(Poison::SetupHoldconn),
        1 => Just(Poison::NoFormats),
    ]
}

fn staged_strategy() -> impl Strategy<Value = Edit> {
    (change_strategy(), poison_strategy(), prop::bool::weighted(0.4), prop::bool::weighted(0.4))
        .prop_map(|(change, poison, same_section, via_text)| Edit::Staged {
            change,
            poison,
            same_section,
            via_text,
        })
}

/// One renegotiation round, by construction from the role A plays in it.
#[derive(Clone, Debug)]
struct RawRound {
    a_offers: bool,
    staged_remote: Edit,
    staged_local: Option<Edit>,
    pranswer_first: bool,
    complete: bool,
    final_answer: Edit,
}

fn raw_round() -> impl Strategy<Value = RawRound> {
    (
        any::<bool>(),
        staged_strategy(),
        prop::option::weighted(0.25, staged_strategy()),
        prop::bool::weighted(0.3),
        prop::bool::weighted(0.7),
        prop_oneof![3 => Just(Edit::Keep), 2 => staged_strategy()],
    )
        .prop_map(|(a_offers, staged_remote, staged_local, pranswer_first, complete, final_answer)| {
            RawRound { a_offers, staged_remote, staged_local, pranswer_first, complete, final_answer }
        })
}

fn round_ops(r: &RawRound, out: &mut Vec<Op>) {
    let (own, par) = (Source::Own, Source::Partner);
    if r.a_offers {
        out.push(Op::CreateOffer);
        out.push(Op::SetLocal { kind: Kind::Offer, src: own, edit: r.staged_local.unwrap_or(Edit::Keep) });
        if r.pranswer_first {
            out.push(Op::SetRemote { kind: Kind::Pranswer, src: par, edit: r.staged_remote });
            out.push(Op::SetRemote { kind: Kind::Answer, src: par, edit: r.final_answer });
        } else {
            out.push(Op::SetRemote { kind: Kind::Answer, src: par, edit: r.staged_remote });
            if !r.complete {
                // retry with the clean answer (what an application does after a refusal)
                out.push(Op::SetRemote { kind: Kind::Answer, src: par, edit: Edit::Keep });
            }
        }
    } else {
        out.push(Op::SetRemote { kind: Kind::Offer, src: par, edit: r.staged_remote });
        if r.complete {
            out.push(Op::CreateAnswer);
            if r.pranswer_first {
                out.push(Op::SetLocal { kind: Kind::Pranswer, src: own, edit: Edit::Keep });
            }
            out.push(Op::SetLocal { kind: Kind::Answer, src: own, edit: r.staged_local.unwrap_or(Edit::Keep) });
        } else {
            out.push(Op::SetRemote { kind: Kind::Offer, src: par, edit: Edit::Keep });
        }
    }
}

pub fn reneg_strategy() -> impl Strategy<Value = Case> {
    (
        mode_strategy(),
        prop_oneof![
            3 => Just(Media::AudioVideo),
            3 => Just(Media::AudioVideoAudio),
            3 => Just(Media::DcAudioVideo),
        ],
        any::<bool>(),
        any::<bool>(),
        any::<bool>(),
        prop::collection::vec(raw_round(), 1..=3),
        prop::collection::vec(raw_step(), 0..=2),
    )
        .prop_map(|(mode, media, tracks, a_offers, wait_connected, rounds, tail)| {
            let mut ops = Vec::new();
            for r in &rounds {
                round_ops(r, &mut ops);
            }
            ops.extend(tail.into_iter().map(|r| r.op));
            ops.truncate(12);
            Case {
                mode,
                media_a: media,
                media_b: media,
                start: Start::Negotiated { a_offers, wait_connected },
                tracks,
                ops,
            }
        })
}

// ---------------------------------------------------------------- driver

pub const HANG_SIG: &str = "call-never-returned:create_offer[Srtp]";

/// First failure that is not a known finding; known ones are counted when `count`.
fn verdict(ctx: &Ctx, o: &Outcome, count: bool) -> Check {
    let mut first: Option<Fail> = None;
    let mut known: Vec<&str> = Vec::new();
    for f in &o.fails {
        if ctx.is_known(&f.signature) {
            known.push(&f.signature);
        } else if first.is_none() {
            first = Some(f.clone());
        }
    }
    if let Some(f) = first {
        return Err(f);
    }
    if count {
        if o.fails.iter().any(|f| f.signature.starts_with("call-never-returned")) {
            ctx.add_extra_count("hangs_observed", 1);
        }
        for k in known {
            ctx.note_excluded(k, 1);
        }
        if o.settles > 0 {
            ctx.note_excluded(HANG_SIG, 1);
        }
    }
    Ok(())
}

pub fn run(ctx: &mut Ctx) {
    ctx.level = "exploration";
    ctx.rule = "random programs of 1-12 ops over {create_offer, create_answer, set_local(k), set_remote(k), close} (+ an auxiliary add_transceiver) with k in {offer, answer, pranswer, rollback}; 55% of steps are steered to a call the reference machine allows in the predicted state so deep states are reached; each carried description is the connection's own last create_* value or a live partner connection's matching offer/answer, kept / changed (codec list, direction, added section, fingerprint, extmap) / malformed (no, conflicting, unsupported-hash, non-hex fingerprint) and re-typed to k; start fresh or after one complete offer/answer (optionally waiting until ICE+DTLS connected); WebRtc / Srtp / Rtp transport modes; partner media equal to or different from the connection's. Non-trivial (seq) = the program contains at least one call that returned Err after at least one call that returned Ok on the same connection (the negotiation prelude counts); distinct by digest of the generated program. Sub-check reneg: always-negotiated connections (all modes, 2-3 media sections, with/without senders, optionally connected), 1-3 renegotiation rounds built from A's role (re-offer from the partner / own re-offer answered by pranswer+answer), in which the carried description is 'staged': the first RTP section changes media parameters (codec subset, renumbered PT, added codec, direction, ssrc, extmap ids) and the last RTP section - or the same section after the changed lines - carries an element the stack may refuse (extmap id 0/15/256/duplicate/non-numeric, malformed or duplicate rtpmap, malformed fmtp, unknown/duplicate/empty mid, changed fingerprint, bad ICE credentials, unsupported proto, port 0, swapped/dropped/extra m-line, setup:holdconn, no formats), as struct or through print+parse; seq also draws staged edits (weight 3/28). Non-trivial (reneg) = an Err on a set_* call whose description differs from the applied one at or before the section carrying that element.".into();
    ctx.assumptions = vec![
        "reference machine as the API documents it: pranswer is accepted only where an answer would be and leaves the state unchanged; rollback is refused in every state; after close every call errs and the state stays Closed".into(),
        "calls the machine allows may fail for description-content reasons; the model then stays put (only atomicity is checked)".into(),
        "a=candidate / a=end-of-candidates lines of the stored local description are ignored when comparing snapshots: the ICE gathering task appends them in the background, independent of the call".into(),
        "both connections bind 127.0.0.1; the 'connected' start waits up to 10 s for ICE+DTLS and is counted inconclusive_timing when missed".into(),
        "'negotiated parameters of a transceiver' = everything the public API exposes per transceiver: kind, mid, direction, get_payload_map(), get_extmap(), sender_ssrc/sender_rtx_ssrc/sender_stream_id/sender_track_id, RtpSender ssrc/track/stream/cname, RtpSender::params() (payload type, codec, clock, channels), RtpSender::sdes_mid(), receiver presence, RtpReceiver ssrc/rtx_ssrc/simulcast rids, UDPTL presence, plus number and order of transceivers (a data channel is its Application transceiver). Not compared because background tasks legitimately change them or the statement does not name them: SCTP/DTLS transport presence, ICE state; an ICE role that moves on Err is only labelled (soft:ice-role-changed-on-err)".into(),
        "a call that has not returned after the watchdog (30 s quick / 60 s thorough; normal cases take < 50 ms) is reported as call-never-returned".into(),
    ];

    let threads = std::thread::available_parallelism().map(|x| x.get()).unwrap_or(8).clamp(2, 16);
    let rt = Arc::new(
        tokio::runtime::Builder::new_multi_thread()
            .worker_threads(threads)
            .enable_all()
            .build()
            .expect("tokio runtime"),
    );
    let ctx: &Ctx = &*ctx;
    let opts = Opts { settle_srtp: ctx.is_known(HANG_SIG), rule_reneg: false };
    let watchdog = Duration::from_secs(ctx.scale(30, 60));
    let trace = std::env::var("VERIF_C09_TRACE").is_ok();

    let run_sub = |sub: &str, opts: Opts, quick: usize, thorough: usize, strat: BoxedStrategy<Case>| {
        // replay / regression path: one case at a time (same watchdog)
        let single = |c: &Case| -> bool {
            let o = exec(&rt, c, opts, watchdog);
            let v = serde_json::to_value(c).unwrap();
            let res = verdict(ctx, &o, true);
            match ctx.record(sub, &v, &o.rec, &res) {
                Ok(()) => true,
                Err(f) => {
                    ctx.violation(sub, &v, &f);
                    false
                }
            }
        };
        if ctx.is_replay() {
            if let Some(c) = ctx.replay_case::<Case>(sub) {
                if single(&c) {
                    println!("replay: property={} sub={} PASS", ctx.prop, sub);
                }
            }
            return;
        }
        for c in ctx.regression_cases::<Case>(sub) {
            single(&c);
        }

        let n = ctx.scale(quick, thorough);
        let n = std::env::var(format!("VERIF_C09_N_{}", sub.to_uppercase()))
            .ok()
            .and_then(|v| v.parse().ok())
            .unwrap_or(n);
        // Value trees are heavy (hundreds of KiB each): generate, run and judge in chunks so that
        // the thorough tier's programs do not have to be resident at once. Each chunk has its own
        // seeded stream ("<sub>#<chunk>").
        const CHUNK: usize = 5_000;
        let total = n;
        let mut reported: Vec<String> = Vec::new();
        let mut done = 0usize;
        let mut chunk_no = 0usize;
        while done < total {
            let n = CHUNK.min(total - done);
            let mut trees = ctx.draw(&format!("{sub}#{chunk_no}"), n, &strat);
            let cases: Vec<Case> = trees.iter().map(|t| t.current()).collect();
            let results: Vec<parking_lot::Mutex<Option<Outcome>>> =
                (0..n).map(|_| parking_lot::Mutex::new(None)).collect();
            let next = AtomicUsize::new(0);
            std::thread::scope(|sc| {
                for _ in 0..threads {
                    sc.spawn(|| {
                        loop {
                            let k = next.fetch_add(1, Ordering::Relaxed);
                            if k >= n {
                                break;
                            }
                            if trace {
                                eprintln!("[c09] start {} {} {:?}", sub, k, cases[k]);
                            }
                            let t0 = std::time::Instant::now();
                            let o = exec(&rt, &cases[k], opts, watchdog);
                            if trace {
                                eprintln!(
                                    "[c09] done {} {} in {:?}: {:?}",
                                    sub,
                                    k,
                                    t0.elapsed(),
                                    o.fails
                                        .iter()
                                        .map(|f| {
                                            let cause = f
                                                .msg
                                                .split("(result ")
                                                .nth(1)
                                                .and_then(|x| x.split(';').next())
                                                .unwrap_or("");
                                            format!("{} <= {}", f.signature, cause)
                                        })
                                        .collect::<Vec<_>>()
                                );
                            }
                            *results[k].lock() = Some(o);
                        }
                    });
                }
            });

            // one replay file per distinct unknown signature (at most 6), each shrunk
            for k in 0..n {
                let o = results[k].lock().take().expect("case result");
                let v = serde_json::to_value(&cases[k]).unwrap();
                let res = verdict(ctx, &o, true);
                if let Err(f) = ctx.record(sub, &v, &o.rec, &res) {
                    if reported.contains(&f.signature) || reported.len() >= 6 {
                        continue;
                    }
                    reported.push(f.signature.clone());
                    let sig = f.signature.clone();
                    let hang = sig.starts_with("call-never-returned");
                    let min = if hang {
                        cases[k].clone() // timing dependent; costs a watchdog period per try
                    } else {
                        ctx.shrink_tree(&mut trees[k], 200, |c| {
                            exec(&rt, c, opts, watchdog).fails.iter().any(|f2| f2.signature == sig)
                        })
                    };
                    let fmin = if hang {
                        f
                    } else {
                        exec(&rt, &min, opts, watchdog)
                            .fails
                            .into_iter()
                            .find(|f2| f2.signature == sig)
                            .unwrap_or(f)
                    };
                    ctx.violation(sub, &serde_json::to_value(&min).unwrap(), &fmin);
                }
            }
            done += n;
            chunk_no += 1;
            if ctx.has_violation() && reported.len() >= 6 {
                break;
            }
        }
    };

    run_sub("seq", opts, 24_000, 320_000, case_strategy().boxed());
    run_sub(
        "reneg",
        Opts { rule_reneg: true, ..opts },
        6_000,
        80_000,
        reneg_strategy().boxed(),
    );
    ctx.set_exhaustive(false);
    ctx.set_extra("worker_threads", json!(threads));
    ctx.set_extra("srtp_settle_steering", json!(opts.settle_srtp));
    // deadlocked cases leave threads behind; the process exits through main()
    std::mem::forget(rt);
}
