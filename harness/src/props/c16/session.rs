//! C16 `turn-session`: drive rustrtc's real TURN client (an `IceTransport` with relay-only policy and a
//! `turn:127.0.0.1:<port>` server) against a scripted fake TURN server on loopback. Every datagram /
//! stream frame the server receives is examined with the reference decoder (`stun`, `turn::proto`)
//! and the harness' own RFC reader; all server -> client messages are built by the reference.
//!
//! Each case runs in its own single-threaded tokio runtime with paused (auto-advancing) time so the
//! 25 s TURN refresh timer fires without waiting; no decision depends on the clock.

use super::{Attr, CLASSES, Key, METHODS, RAttr, build_reference, check_built_message};
use crate::engine::{CaseRec, Check, Ctx, Fail};
use crate::ensure;
use crate::refimpl::stunwire as own;
use proptest::prelude::*;
use proptest::strategy::ValueTree;
use rustrtc::transports::ice::{IceCandidate, IceCandidateType, IceParameters, IceRole, IceTransportBuilder, IceTransportState};
use rustrtc::{IceServer, IceTransportPolicy, RtcConfiguration};
use serde::{Deserialize, Serialize};
use std::collections::BTreeMap;
use std::net::{IpAddr, Ipv4Addr, Ipv6Addr, SocketAddr};
use std::sync::Arc;
use std::time::Duration;
use tokio::io::{AsyncReadExt, AsyncWriteExt};

pub const SIG_TCP_FRAMING: &str = "turn-tcp-extra-length-prefix";

#[derive(Clone, Debug, Serialize, Deserialize)]
pub struct SessCase {
    pub tcp: bool,
    pub user: String,
    pub pass: String,
    /// (realm, nonce) pairs the server hands out; index 0 with the first 401, the next one with every 438
    pub auth: Vec<(String, String)>,
    pub v6: bool,
    pub relayed: SocketAddr,
    pub mapped: SocketAddr,
    pub peer: SocketAddr,
    pub lifetime: u32,
    /// bit 0: 438 on the first authenticated Allocate; bit 1: on the first Refresh; bit 2: on the first
    /// CreatePermission of the refresh round; bit 3: on the first ChannelBind of the refresh round
    pub stale_mask: u8,
    pub reject_channel_bind: bool,
    pub controlling: bool,
    pub remote_ufrag: String,
    pub remote_pwd: String,
    /// the server relays a Binding request "from the peer" so the client's Binding success is observed
    pub inbound_request: bool,
    pub run_refresh: bool,
}

fn ice_chars(min: usize, max: usize) -> impl Strategy<Value = String> {
    prop::collection::vec(
        prop::sample::select("abcdefghijklmnopqrstuvwxyzABCDEFGHIJKLMNOPQRSTUVWXYZ0123456789+/".chars().collect::<Vec<_>>()),
        min..=max,
    )
    .prop_map(|v| v.into_iter().collect::<String>())
}

fn small_text(max: usize) -> impl Strategy<Value = String> {
    prop_oneof![
        4 => (0usize..=max.min(40)).prop_flat_map(|n| prop::collection::vec(0x20u8..0x7F, n)).prop_map(|v| String::from_utf8(v).unwrap()),
        1 => Just(max).prop_flat_map(|n| prop::collection::vec(0x21u8..0x7F, n)).prop_map(|v| String::from_utf8(v).unwrap()),
        1 => prop::collection::vec(prop::sample::select(vec!['é', '中', 'a', ':', '"', ' ']), 1..16).prop_map(|v| v.into_iter().collect::<String>()),
    ]
}

fn public_v4() -> impl Strategy<Value = Ipv4Addr> {
    prop_oneof![
        1 => Just(Ipv4Addr::new(203, 0, 113, 7)),
        1 => Just(Ipv4Addr::new(255, 255, 255, 254)),
        1 => Just(Ipv4Addr::new(0x21, 0x12, 0xA4, 0x42)),
        1 => Just(Ipv4Addr::new(10, 0, 0, 1)),
        4 => any::<[u8; 4]>().prop_map(|mut b| {
            if b[0] == 127 || b[0] == 0 {
                b[0] = 198;
            }
            Ipv4Addr::from(b)
        }),
    ]
}

fn public_v6() -> impl Strategy<Value = Ipv6Addr> {
    prop_oneof![
        1 => Just(Ipv6Addr::new(0x2001, 0xdb8, 0, 0, 0, 0, 0, 7)),
        1 => Just(Ipv6Addr::new(0xfe80, 0, 0, 0, 0, 0, 0, 1)),
        1 => Just(Ipv6Addr::from([0xFFu8; 16])),
        4 => any::<[u8; 16]>().prop_map(|mut b| {
            if b[..15].iter().all(|x| *x == 0) {
                b[0] = 0x20;
            }
            Ipv6Addr::from(b)
        }),
    ]
}

fn port() -> impl Strategy<Value = u16> {
    prop_oneof![1 => Just(1u16), 1 => Just(0x2112u16), 1 => Just(65535u16), 1 => Just(3478u16), 4 => 1u16..=65535]
}

pub fn sess_strategy() -> impl Strategy<Value = SessCase> {
    let creds = (
        prop_oneof![3 => small_text(64), 1 => Just("1700000000:alice".to_string()), 1 => small_text(513)],
        prop_oneof![3 => ice_chars(1, 32), 1 => small_text(80)],
        // one of REALM / NONCE may reach the RFC maximum; both together would make the server's 401 exceed
        // any path MTU (and rustrtc's 1500-byte receive buffer), which RFC 5389 §7.1 tells servers not to do
        prop::collection::vec(
            prop_oneof![
                4 => (small_text(48), small_text(48)),
                1 => (small_text(763), small_text(128)),
                1 => (small_text(128), small_text(763)),
            ],
            5,
        ),
    );
    let addrs = (any::<bool>(), (public_v4(), port()), (public_v4(), port()), (public_v4(), port()), (public_v6(), port()), (public_v6(), port()), (public_v6(), port()));
    (
        prop::bool::weighted(0.25),
        creds,
        addrs,
        prop_oneof![Just(600u32), Just(1u32), Just(0u32), Just(u32::MAX), any::<u32>()],
        0u8..16,
        prop::bool::weighted(0.3),
        any::<bool>(),
        (ice_chars(4, 16), ice_chars(22, 32)),
        any::<bool>(),
        prop::bool::weighted(0.7),
    )
        .prop_map(|(tcp, (user, pass, auth), (v6, a4, b4, c4, a6, b6, c6), lifetime, stale_mask, reject_channel_bind, controlling, (remote_ufrag, remote_pwd), inbound_request, run_refresh)| {
            let mk4 = |x: (Ipv4Addr, u16)| SocketAddr::new(IpAddr::V4(x.0), x.1);
            let mk6 = |x: (Ipv6Addr, u16)| SocketAddr::new(IpAddr::V6(x.0), x.1);
            let (relayed, mapped, mut peer) = if v6 { (mk6(a6), mk6(b6), mk6(c6)) } else { (mk4(a4), mk4(b4), mk4(c4)) };
            if peer == relayed {
                peer.set_port(peer.port() ^ 1);
            }
            SessCase { tcp, user, pass, auth, v6, relayed, mapped, peer, lifetime, stale_mask, reject_channel_bind, controlling, remote_ufrag, remote_pwd, inbound_request, run_refresh }
        })
}

// ------------------------------------------------------------------------------------------
// fake server

thread_local! {
    /// per session thread (one current-thread runtime per thread): server stops transmitting
    static MUTE: std::cell::Cell<bool> = const { std::cell::Cell::new(false) };
}

enum Io {
    Udp { sock: tokio::net::UdpSocket, client: Option<SocketAddr> },
    Tcp { listener: tokio::net::TcpListener, stream: Option<tokio::net::TcpStream>, buf: Vec<u8>, prefixed: Option<bool> },
}

impl Io {
    /// next TURN-level message (STUN message or ChannelData), de-framed
    async fn recv(&mut self) -> Option<Vec<u8>> {
        match self {
            Io::Udp { sock, client } => loop {
                let mut b = vec![0u8; 4096];
                let (n, from) = sock.recv_from(&mut b).await.ok()?;
                // lock onto the first sender: sessions run in parallel and the kernel recycles ephemeral
                // ports, so a late reply of another session's server can land here
                match client {
                    // only an Allocate request (type 0x0003) can open a conversation
                    None if n >= 20 && b[0] == 0x00 && b[1] == 0x03 => *client = Some(from),
                    None => continue,
                    Some(c) if *c != from => continue,
                    _ => {}
                }
                b.truncate(n);
                return Some(b);
            },
            Io::Tcp { listener, stream, buf, prefixed } => {
                if stream.is_none() {
                    let (s, _) = listener.accept().await.ok()?;
                    let _ = s.set_nodelay(true);
                    *stream = Some(s);
                }
                let s = stream.as_mut().unwrap();
                loop {
                    if prefixed.is_none() && buf.len() >= 10 {
                        // RFC 5766 §2.1 / RFC 5389 §7.2.2: STUN and ChannelData are self-delimiting on a
                        // stream; detect a stack that prepends an RFC 4571 style length instead
                        let cookie = own::MAGIC.to_be_bytes();
                        *prefixed = Some(buf[4..8] != cookie && buf[6..10] == cookie);
                    }
                    if let Some(p) = *prefixed {
                        let off = if p { 2 } else { 0 };
                        if buf.len() >= off + 4 {
                            let total = if p {
                                u16::from_be_bytes([buf[0], buf[1]]) as usize
                            } else if buf[0] & 0xC0 == 0 {
                                20 + u16::from_be_bytes([buf[2], buf[3]]) as usize
                            } else {
                                4 + ((u16::from_be_bytes([buf[2], buf[3]]) as usize + 3) & !3)
                            };
                            if buf.len() >= off + total {
                                let msg = buf[off..off + total].to_vec();
                                buf.drain(..off + total);
                                return Some(msg);
                            }
                        }
                    }
                    let mut tmp = [0u8; 4096];
                    let n = s.read(&mut tmp).await.ok()?;
                    if n == 0 {
                        return None;
                    }
                    buf.extend_from_slice(&tmp[..n]);
                }
            }
        }
    }

    async fn send(&mut self, msg: &[u8]) {
        if MUTE.with(|m| m.get()) {
            // the client is shutting down: its UDP port may be recycled by a parallel session at any moment,
            // and rustrtc's TURN client accepts datagrams from any source, so nothing is sent any more
            return;
        }
        if std::env::var("VERIF_DEBUG").is_ok() {
            eprintln!("server tx {} bytes: {}", msg.len(), crate::engine::hex(&msg[..msg.len().min(64)]));
        }
        match self {
            Io::Udp { sock, client } => {
                if let Some(c) = client {
                    let _ = sock.send_to(msg, *c).await;
                }
            }
            Io::Tcp { stream, prefixed, .. } => {
                if let Some(s) = stream {
                    // one write per frame (no Nagle/delayed-ACK stall that paused time would turn into a timeout)
                    let mut frame = Vec::with_capacity(msg.len() + 2);
                    if *prefixed == Some(true) {
                        frame.extend_from_slice(&(msg.len() as u16).to_be_bytes());
                    }
                    frame.extend_from_slice(msg);
                    let _ = s.write_all(&frame).await;
                }
            }
        }
    }
}

#[derive(Default, Debug)]
pub struct Outcome {
    pub labels: Vec<String>,
    pub fails: Vec<Fail>,
    pub seen: BTreeMap<String, u32>,
    pub tcp_prefixed: Option<bool>,
}

impl Outcome {
    fn saw(&mut self, what: &str) {
        *self.seen.entry(what.to_string()).or_default() += 1;
    }
    fn fail(&mut self, f: Fail) {
        if !self.fails.iter().any(|x| x.signature == f.signature) {
            self.fails.push(f);
        }
    }
}

struct Server {
    case: SessCase,
    io: Io,
    out: Arc<parking_lot::Mutex<Outcome>>,
    local: IceParameters,
    /// index into case.auth of the (realm, nonce) the server currently accepts
    current: usize,
    issued_any: bool,
    stale_done: u8,
    connected_phase: Arc<std::sync::atomic::AtomicBool>,
    channels: BTreeMap<u16, SocketAddr>,
    injected: bool,
    relay_priority: Arc<parking_lot::Mutex<Option<u32>>>,
}

fn attr_from_tlv(t: &own::Tlv, txid: &[u8; 12]) -> Result<Attr, String> {
    let s = |v: &[u8]| String::from_utf8(v.to_vec()).map_err(|_| format!("attribute {:#06x} is not UTF-8", t.typ));
    let be4 = |v: &[u8]| -> Result<u32, String> {
        if v.len() == 4 { Ok(u32::from_be_bytes([v[0], v[1], v[2], v[3]])) } else { Err(format!("attribute {:#06x} has length {}, expected 4", t.typ, v.len())) }
    };
    let addr = |v: &[u8]| -> Result<SocketAddr, String> {
        if v.len() < 4 || v[0] != 0 {
            return Err(format!("address attribute {:#06x}: bad head {:02x?}", t.typ, v));
        }
        let port = u16::from_be_bytes([v[2], v[3]]) ^ 0x2112;
        let mut mask = own::MAGIC.to_be_bytes().to_vec();
        mask.extend_from_slice(txid);
        match (v[1], v.len()) {
            (1, 8) => {
                let mut ip = [0u8; 4];
                for i in 0..4 {
                    ip[i] = v[4 + i] ^ mask[i];
                }
                Ok(SocketAddr::new(IpAddr::V4(Ipv4Addr::from(ip)), port))
            }
            (2, 20) => {
                let mut ip = [0u8; 16];
                for i in 0..16 {
                    ip[i] = v[4 + i] ^ mask[i];
                }
                Ok(SocketAddr::new(IpAddr::V6(Ipv6Addr::from(ip)), port))
            }
            (f, l) => Err(format!("address attribute {:#06x}: family {f} with length {l}", t.typ)),
        }
    };
    let v = &t.value[..];
    Ok(match t.typ {
        0x0006 => Attr::Username(s(v)?),
        0x0014 => Attr::Realm(s(v)?),
        0x0015 => Attr::Nonce(s(v)?),
        0x8022 => Attr::Software(s(v)?),
        0x0019 => {
            if v.len() != 4 || v[1..] != [0, 0, 0] {
                return Err(format!("REQUESTED-TRANSPORT value {:02x?} (RFFU must be zero, RFC 5766 §14.7)", v));
            }
            Attr::RequestedTransport(v[0])
        }
        0x000D => Attr::Lifetime(be4(v)?),
        0x0024 => Attr::Priority(be4(v)?),
        0x802A | 0x8029 => {
            if v.len() != 8 {
                return Err(format!("tie-breaker attribute length {}", v.len()));
            }
            let x = u64::from_be_bytes(v.try_into().unwrap());
            if t.typ == 0x802A { Attr::IceControlling(x) } else { Attr::IceControlled(x) }
        }
        0x0025 => {
            if !v.is_empty() {
                return Err("USE-CANDIDATE with a value".into());
            }
            Attr::UseCandidate
        }
        0x0012 => Attr::XorPeer(addr(v)?),
        0x0020 => Attr::XorMapped(addr(v)?),
        0x000C => {
            if v.len() != 4 || v[2..] != [0, 0] {
                return Err(format!("CHANNEL-NUMBER value {:02x?} (RFFU must be zero, RFC 5766 §14.1)", v));
            }
            Attr::ChannelNumber(u16::from_be_bytes([v[0], v[1]]))
        }
        0x0013 => Attr::Data(v.to_vec()),
        other => return Err(format!("attribute type {other:#06x} is not one rustrtc is known to emit")),
    })
}

struct Parsed {
    wire: own::Wire,
    attrs: Vec<Attr>,
    has_mi: bool,
    has_fp: bool,
}

fn parse_for_checks(bytes: &[u8], what: &str) -> Result<Parsed, Fail> {
    let wire = own::parse_strict(bytes).map_err(|e| Fail::new("turn-msg-malformed", format!("{what}: own RFC 5389 reader rejects {}: {e}", crate::engine::hex(bytes))))?;
    let mut attrs = Vec::new();
    let (mut has_mi, mut has_fp) = (false, false);
    for t in &wire.attrs {
        match t.typ {
            0x0008 => has_mi = true,
            0x8028 => has_fp = true,
            _ => {
                if has_mi || has_fp {
                    return Err(Fail::new("turn-attr-after-integrity", format!("{what}: attribute {:#06x} follows MESSAGE-INTEGRITY/FINGERPRINT", t.typ)));
                }
                attrs.push(attr_from_tlv(t, &wire.txid).map_err(|e| Fail::new("turn-attr-undecodable", format!("{what}: {e}")))?);
            }
        }
    }
    Ok(Parsed { wire, attrs, has_mi, has_fp })
}

impl Server {
    fn key_for(&self, realm: &str) -> Key {
        Key::Long { user: self.case.user.clone(), realm: realm.to_string(), pass: self.case.pass.clone() }
    }

    fn reply(&self, method_idx: usize, class_idx: usize, txid: [u8; 12], attrs: &[RAttr], key: &Key) -> Vec<u8> {
        build_reference(method_idx, class_idx, txid, attrs, key, true).expect("reference builds server reply")
    }

    fn challenge(&mut self, method_idx: usize, txid: [u8; 12], code: u16) -> Vec<u8> {
        let (realm, nonce) = self.case.auth[self.current.min(self.case.auth.len() - 1)].clone();
        self.issued_any = true;
        self.reply(
            method_idx,
            3,
            txid,
            &[RAttr::ErrorCode { code, reason: if code == 401 { "Unauthorized".into() } else { "Stale Nonce".into() } }, RAttr::Realm(realm), RAttr::Nonce(nonce)],
            &Key::None,
        )
    }

    /// Check a STUN message received from the client (TURN level or relayed payload).
    /// Returns the parsed form when it is usable.
    fn examine(&self, bytes: &[u8], what: &str, key: &Key) -> Option<Parsed> {
        let p = match parse_for_checks(bytes, what) {
            Ok(p) => p,
            Err(f) => {
                self.out.lock().fail(f);
                return None;
            }
        };
        let method_idx = METHODS.iter().position(|m| m.2 == p.wire.method);
        let Some(method_idx) = method_idx else {
            self.out.lock().fail(Fail::new("turn-unknown-method", format!("{what}: method {:#05x}", p.wire.method)));
            return None;
        };
        let k = if p.has_mi { key.clone() } else { Key::None };
        if let Err(mut f) = check_built_message(bytes, method_idx, p.wire.class as usize, None, &p.attrs, &k, p.has_fp) {
            f.msg = format!("{what}: {}", f.msg);
            f.signature = format!("turn-{}", f.signature);
            self.out.lock().fail(f);
        }
        Some(p)
    }

    /// Authenticated request: USERNAME/REALM/NONCE/MESSAGE-INTEGRITY as RFC 5389 §10.2.2 demands.
    /// Returns Some(true) when acceptable, Some(false) when the server should answer 438, None on garbage.
    fn check_auth(&mut self, p: &Parsed, bytes: &[u8], what: &str) -> bool {
        let get = |f: &dyn Fn(&Attr) -> Option<String>| p.attrs.iter().find_map(|a| f(a));
        let user = get(&|a| if let Attr::Username(s) = a { Some(s.clone()) } else { None });
        let realm = get(&|a| if let Attr::Realm(s) = a { Some(s.clone()) } else { None });
        let nonce = get(&|a| if let Attr::Nonce(s) = a { Some(s.clone()) } else { None });
        let mut out = self.out.lock();
        if !(p.has_mi && user.is_some() && realm.is_some() && nonce.is_some()) {
            out.fail(Fail::new("turn-auth-attrs-missing", format!("{what}: authenticated request lacks USERNAME/REALM/NONCE/MESSAGE-INTEGRITY: {:?} mi={}", p.attrs, p.has_mi)));
            return false;
        }
        let (user, realm, nonce) = (user.unwrap(), realm.unwrap(), nonce.unwrap());
        if user != self.case.user {
            out.fail(Fail::new("turn-username-wrong", format!("{what}: USERNAME {:?} expected {:?}", user, self.case.user)));
        }
        let issued = self.case.auth[..=self.current.min(self.case.auth.len() - 1)].iter().position(|(r, n)| *r == realm && *n == nonce);
        if issued.is_none() {
            out.fail(Fail::new("turn-realm-nonce-not-issued", format!("{what}: REALM {:?} / NONCE {:?} were never issued by the server ({:?})", realm, nonce, &self.case.auth[..=self.current.min(self.case.auth.len() - 1)])));
            return false;
        }
        drop(out);
        // MESSAGE-INTEGRITY under MD5(user:realm:pass) for the realm the message names (reference + own)
        let key = self.key_for(&realm);
        let _ = self.examine(bytes, what, &key);
        issued == Some(self.current)
    }

    async fn handle(&mut self, pkt: Vec<u8>) {
        if std::env::var("VERIF_DEBUG").is_ok() {
            eprintln!("server rx {} bytes: {}", pkt.len(), crate::engine::hex(&pkt[..pkt.len().min(64)]));
        }
        if pkt.len() >= 4 && pkt[0] & 0xC0 == 0x40 {
            self.handle_channel_data(pkt).await;
            return;
        }
        if pkt.is_empty() || pkt[0] & 0xC0 != 0 {
            self.out.lock().fail(Fail::new("turn-not-stun-nor-channeldata", format!("server received {}", crate::engine::hex(&pkt))));
            return;
        }
        let Ok(wire) = own::parse_strict(&pkt) else {
            let _ = self.examine(&pkt, "TURN message", &Key::None);
            return;
        };
        let txid = wire.txid;
        let has_mi = wire.attrs.iter().any(|a| a.typ == 0x0008);
        let refresh_phase = self.connected_phase.load(std::sync::atomic::Ordering::SeqCst);
        match (wire.method, wire.class) {
            (0x003, 0) => {
                let mi = METHODS.iter().position(|m| m.2 == 0x003).unwrap();
                if !has_mi {
                    self.out.lock().saw("allocate-unauth");
                    if let Some(p) = self.examine(&pkt, "Allocate (unauthenticated)", &Key::None) {
                        self.check_allocate_attrs(&p, "Allocate (unauthenticated)");
                    }
                    let r = self.challenge(mi, txid, 401);
                    self.io.send(&r).await;
                    return;
                }
                if self.case.stale_mask & 1 != 0 && self.stale_done & 1 == 0 {
                    self.stale_done |= 1;
                    self.current += 1;
                }
                let Some(p) = parse_for_checks(&pkt, "Allocate").map_err(|f| self.out.lock().fail(f)).ok() else { return };
                self.check_allocate_attrs(&p, "Allocate (authenticated)");
                if self.check_auth(&p, &pkt, "Allocate (authenticated)") {
                    self.out.lock().saw("allocate-auth");
                    let realm = self.case.auth[self.current].0.clone();
                    let key = self.key_for(&realm);
                    let r = self.reply(mi, 2, txid, &[RAttr::XorRelayed(self.case.relayed), RAttr::XorMapped(self.case.mapped), RAttr::Lifetime(self.case.lifetime)], &key);
                    self.io.send(&r).await;
                } else {
                    self.out.lock().saw("allocate-auth-stale");
                    let r = self.challenge(mi, txid, 438);
                    self.io.send(&r).await;
                }
            }
            (0x004, 0) | (0x008, 0) | (0x009, 0) => {
                let (name, bit) = match wire.method {
                    0x004 => ("Refresh", 2u8),
                    0x008 => ("CreatePermission", 4u8),
                    _ => ("ChannelBind", 8u8),
                };
                let mi = METHODS.iter().position(|m| m.2 == wire.method).unwrap();
                if self.case.stale_mask & bit != 0 && self.stale_done & bit == 0 && (refresh_phase || bit == 2) && self.current + 1 < self.case.auth.len() {
                    self.stale_done |= bit;
                    self.current += 1;
                }
                let Some(p) = parse_for_checks(&pkt, name).map_err(|f| self.out.lock().fail(f)).ok() else { return };
                let fresh = self.check_auth(&p, &pkt, name);
                // method-specific content (RFC 5766 §7.1, §9.1, §11.1)
                let peer = p.attrs.iter().find_map(|a| if let Attr::XorPeer(x) = a { Some(*x) } else { None });
                let mut channel = None;
                {
                    let mut out = self.out.lock();
                    match wire.method {
                        0x004 => {
                            let lt = p.attrs.iter().find_map(|a| if let Attr::Lifetime(x) = a { Some(*x) } else { None });
                            out.saw(if lt == Some(0) { "refresh-lifetime-0" } else { "refresh" });
                        }
                        0x008 => {
                            out.saw(if refresh_phase { "create-permission-refresh" } else { "create-permission" });
                            if peer != Some(self.case.peer) {
                                out.fail(Fail::new("turn-permission-peer-wrong", format!("CreatePermission XOR-PEER-ADDRESS {:?}, the remote candidate is {}", peer, self.case.peer)));
                            }
                        }
                        _ => {
                            out.saw(if refresh_phase { "channel-bind-refresh" } else { "channel-bind" });
                            channel = p.attrs.iter().find_map(|a| if let Attr::ChannelNumber(x) = a { Some(*x) } else { None });
                            match channel {
                                Some(n) if (0x4000..=0x7FFF).contains(&n) => {}
                                other => out.fail(Fail::new("turn-channel-number-invalid", format!("ChannelBind CHANNEL-NUMBER {:?} outside 0x4000..=0x7FFF", other))),
                            }
                            if peer != Some(self.case.peer) {
                                out.fail(Fail::new("turn-channel-peer-wrong", format!("ChannelBind XOR-PEER-ADDRESS {:?}, the remote candidate is {}", peer, self.case.peer)));
                            }
                            if let (Some(n), Some(pe)) = (channel, peer) {
                                if let Some(prev) = self.channels.get(&n) {
                                    if *prev != pe {
                                        out.fail(Fail::new("turn-channel-rebound-to-other-peer", format!("channel {n:#06x} was bound to {prev}, now requested for {pe}")));
                                    }
                                }
                            }
                        }
                    }
                }
                if !fresh {
                    self.out.lock().saw(&format!("{}-stale-438", name.to_lowercase()));
                    let r = self.challenge(mi, txid, 438);
                    self.io.send(&r).await;
                    return;
                }
                let realm = self.case.auth[self.current].0.clone();
                let key = self.key_for(&realm);
                let r = match wire.method {
                    0x004 => self.reply(mi, 2, txid, &[RAttr::Lifetime(self.case.lifetime)], &key),
                    0x008 => self.reply(mi, 2, txid, &[], &key),
                    _ => {
                        if self.case.reject_channel_bind {
                            self.reply(mi, 3, txid, &[RAttr::ErrorCode { code: 400, reason: "Bad Request".into() }], &key)
                        } else {
                            if let (Some(n), Some(pe)) = (channel, peer) {
                                self.channels.insert(n, pe);
                            }
                            self.reply(mi, 2, txid, &[], &key)
                        }
                    }
                };
                self.io.send(&r).await;
            }
            (0x006, 1) => {
                // Send indication
                let realm_attr = wire.attrs.iter().find(|a| a.typ == 0x0014).and_then(|a| String::from_utf8(a.value.clone()).ok());
                let key = match (&realm_attr, has_mi) {
                    (Some(r), true) => self.key_for(r),
                    _ => Key::None,
                };
                let Some(p) = self.examine(&pkt, "Send indication", &key) else { return };
                self.out.lock().saw(if has_mi { "send-indication-auth" } else { "send-indication" });
                let peer = p.attrs.iter().find_map(|a| if let Attr::XorPeer(x) = a { Some(*x) } else { None });
                let data = p.attrs.iter().find_map(|a| if let Attr::Data(x) = a { Some(x.clone()) } else { None });
                if peer != Some(self.case.peer) {
                    self.out.lock().fail(Fail::new("turn-send-peer-wrong", format!("Send indication XOR-PEER-ADDRESS {:?}, the remote candidate is {}", peer, self.case.peer)));
                }
                match data {
                    Some(d) => self.handle_payload(d, None).await,
                    None => self.out.lock().fail(Fail::new("turn-send-without-data", "Send indication without DATA (RFC 5766 §10.1)".to_string())),
                }
            }
            (m, c) => {
                self.out.lock().fail(Fail::new("turn-unexpected-message", format!("server received method {m:#05x} class {c}: {}", crate::engine::hex(&pkt))));
            }
        }
    }

    fn check_allocate_attrs(&self, p: &Parsed, what: &str) {
        let rt: Vec<u8> = p.attrs.iter().filter_map(|a| if let Attr::RequestedTransport(x) = a { Some(*x) } else { None }).collect();
        if rt != [17] {
            self.out.lock().fail(Fail::new("turn-allocate-requested-transport", format!("{what}: REQUESTED-TRANSPORT {:?}, RFC 5766 §6.1 requires exactly one with protocol 17", rt)));
        }
    }

    async fn handle_channel_data(&mut self, pkt: Vec<u8>) {
        use turn::proto::chandata::ChannelData;
        self.out.lock().saw("channel-data");
        let number = u16::from_be_bytes([pkt[0], pkt[1]]);
        let len = u16::from_be_bytes([pkt[2], pkt[3]]) as usize;
        let mut cd = ChannelData { raw: pkt.clone(), ..Default::default() };
        let r = cd.decode();
        {
            let mut out = self.out.lock();
            if let Err(e) = &r {
                out.fail(Fail::new("turn-chandata-ref-decode", format!("reference ChannelData::decode fails: {e}; bytes {}", crate::engine::hex(&pkt))));
                return;
            }
            if !ChannelData::is_channel_data(&pkt) {
                out.fail(Fail::new("turn-chandata-ref-not-recognised", format!("reference is_channel_data() says no: {}", crate::engine::hex(&pkt))));
            }
            // RFC 5766 §11.4: over UDP the datagram is header + data (+ optional padding up to 3 bytes)
            if pkt.len() < 4 + len || pkt.len() > 4 + ((len + 3) & !3) {
                out.fail(Fail::new("turn-chandata-length", format!("ChannelData length field {len} vs {} bytes", pkt.len())));
                return;
            }
            if cd.number.0 != number || cd.data != pkt[4..4 + len] {
                out.fail(Fail::new("turn-chandata-ref-mismatch", format!("reference decodes channel {:#06x} / {} data bytes", cd.number.0, cd.data.len())));
            }
            // the reference encoder yields the same framing (it always pads; compare the unpadded prefix)
            let mut enc = ChannelData { data: cd.data.clone(), number: cd.number, ..Default::default() };
            enc.encode();
            if enc.raw[..4 + len] != pkt[..4 + len] {
                out.fail(Fail::new("turn-chandata-ref-encode-differs", format!("reference encodes {} , client sent {}", crate::engine::hex(&enc.raw), crate::engine::hex(&pkt))));
            }
            if matches!(self.io, Io::Tcp { prefixed: Some(false), .. }) && pkt.len() % 4 != 0 {
                out.fail(Fail::new("turn-tcp-chandata-unpadded", "ChannelData over TCP must be padded to 4 bytes (RFC 5766 §11.5)".to_string()));
            }
            match self.channels.get(&number) {
                Some(pe) if *pe == self.case.peer => {}
                other => out.fail(Fail::new("turn-chandata-unbound-channel", format!("ChannelData on channel {number:#06x} which is bound to {:?}", other))),
            }
        }
        self.handle_payload(pkt[4..4 + len].to_vec(), Some(number)).await;
    }

    /// Application data the client relays to the peer: here always ICE STUN.
    async fn handle_payload(&mut self, data: Vec<u8>, channel: Option<u16>) {
        if data.is_empty() || data[0] & 0xC0 != 0 {
            self.out.lock().saw("payload-non-stun");
            return;
        }
        let Ok(wire) = own::parse_strict(&data) else {
            let _ = self.examine(&data, "relayed STUN payload", &Key::None);
            return;
        };
        match (wire.method, wire.class) {
            (0x001, 0) => {
                // ICE connectivity check / keepalive: short-term credential = the remote (peer's) password
                let key = Key::Short(self.case.remote_pwd.clone());
                let Some(p) = self.examine(&data, "relayed Binding request", &key) else { return };
                let mut out = self.out.lock();
                out.saw("inner-binding-request");
                if !p.has_mi {
                    out.fail(Fail::new("ice-check-no-integrity", "Binding request towards the peer has no MESSAGE-INTEGRITY (RFC 8445 §7.1.2)".to_string()));
                }
                if !p.has_fp {
                    out.fail(Fail::new("ice-check-no-fingerprint", "Binding request towards the peer has no FINGERPRINT (RFC 8445 §7.1.2)".to_string()));
                }
                let want_user = format!("{}:{}", self.case.remote_ufrag, self.local.username_fragment);
                let user = p.attrs.iter().find_map(|a| if let Attr::Username(s) = a { Some(s.clone()) } else { None });
                if user.as_deref() != Some(want_user.as_str()) {
                    out.fail(Fail::new("ice-check-username", format!("USERNAME {:?}, RFC 8445 §7.2.2 wants {:?}", user, want_user)));
                }
                let prio = p.attrs.iter().find_map(|a| if let Attr::Priority(x) = a { Some(*x) } else { None });
                match (prio, *self.relay_priority.lock()) {
                    (None, _) => out.fail(Fail::new("ice-check-no-priority", "Binding request without PRIORITY (RFC 8445 §7.1.1)".to_string())),
                    (Some(pv), Some(want)) if pv != want => out.fail(Fail::new("ice-check-priority-differs", format!("PRIORITY {pv}, the relay candidate was signalled with {want}"))),
                    _ => {}
                }
                let ing = p.attrs.iter().any(|a| matches!(a, Attr::IceControlling(_)));
                let ed = p.attrs.iter().any(|a| matches!(a, Attr::IceControlled(_)));
                if ing && ed {
                    out.fail(Fail::new("ice-check-both-roles", "Binding request carries ICE-CONTROLLING and ICE-CONTROLLED".to_string()));
                } else if !ing && !ed {
                    out.saw("inner-binding-request-without-role-attr");
                } else if ing != self.case.controlling {
                    out.fail(Fail::new("ice-check-role-attr-wrong", format!("role attribute says controlling={ing}, the agent was configured controlling={}", self.case.controlling)));
                }
                if p.attrs.iter().any(|a| matches!(a, Attr::UseCandidate)) {
                    out.saw("inner-use-candidate");
                    if !self.case.controlling {
                        out.fail(Fail::new("ice-use-candidate-by-controlled", "controlled agent sent USE-CANDIDATE".to_string()));
                    }
                }
                drop(out);
                // answer as the peer would: Binding success, XOR-MAPPED = the relayed address
                let resp = build_reference(0, 2, wire.txid, &[RAttr::XorMapped(self.case.relayed)], &key, true).unwrap();
                self.send_to_client_as_peer(resp, channel).await;
                if self.case.inbound_request && !self.injected {
                    self.injected = true;
                    let req = build_reference(
                        0,
                        0,
                        [0x5A; 12],
                        &[RAttr::Username(format!("{}:{}", self.local.username_fragment, self.case.remote_ufrag)), RAttr::Priority(1_845_501_695)],
                        &Key::Short(self.local.password.clone()),
                        true,
                    )
                    .unwrap();
                    self.send_to_client_as_peer(req, channel).await;
                }
            }
            (0x001, 2) => {
                // the client's answer to the injected request: short-term credential = its own password
                let key = Key::Short(self.local.password.clone());
                let Some(p) = self.examine(&data, "relayed Binding success response", &key) else { return };
                let mut out = self.out.lock();
                out.saw("inner-binding-success");
                if wire.txid == [0x5A; 12] {
                    let m = p.attrs.iter().find_map(|a| if let Attr::XorMapped(x) = a { Some(*x) } else { None });
                    if m != Some(self.case.peer) {
                        out.fail(Fail::new("ice-response-mapped-address", format!("Binding success XOR-MAPPED-ADDRESS {:?}, the request came from {}", m, self.case.peer)));
                    }
                    if !p.has_mi || !p.has_fp {
                        out.fail(Fail::new("ice-response-unprotected", format!("Binding success response mi={} fp={} (RFC 8445 §7.3.1.6 / RFC 5389 §10.1.2)", p.has_mi, p.has_fp)));
                    }
                }
            }
            (m, c) => {
                let _ = self.examine(&data, "relayed STUN payload", &Key::None);
                self.out.lock().saw(&format!("inner-stun-{m:#05x}-{c}"));
            }
        }
    }

    async fn send_to_client_as_peer(&mut self, payload: Vec<u8>, prefer_channel: Option<u16>) {
        use turn::proto::chandata::ChannelData;
        use turn::proto::channum::ChannelNumber;
        let bound = prefer_channel.or_else(|| self.channels.iter().find(|(_, p)| **p == self.case.peer).map(|(n, _)| *n));
        let msg = match bound {
            Some(n) => {
                let mut cd = ChannelData { data: payload, number: ChannelNumber(n), ..Default::default() };
                cd.encode();
                cd.raw
            }
            None => build_reference(4, 1, [0xD1; 12], &[RAttr::XorPeer(self.case.peer), RAttr::Data(payload)], &Key::None, false).unwrap(),
        };
        self.io.send(&msg).await;
    }
}

// ------------------------------------------------------------------------------------------
// one session

async fn drive(case: SessCase) -> Outcome {
    let out = Arc::new(parking_lot::Mutex::new(Outcome::default()));
    MUTE.with(|m| m.set(false));
    // bind the fake server
    let (io, port) = if case.tcp {
        let l = tokio::net::TcpListener::bind("127.0.0.1:0").await.expect("bind tcp");
        let p = l.local_addr().unwrap().port();
        (Io::Tcp { listener: l, stream: None, buf: Vec::new(), prefixed: None }, p)
    } else {
        let s = tokio::net::UdpSocket::bind("127.0.0.1:0").await.expect("bind udp");
        let p = s.local_addr().unwrap().port();
        (Io::Udp { sock: s, client: None }, p)
    };
    let mut config = RtcConfiguration::default();
    config.ice_transport_policy = IceTransportPolicy::Relay;
    config.disable_ipv6 = false;
    config.enable_upnp = false;
    let url = if case.tcp { format!("turn:127.0.0.1:{port}?transport=tcp") } else { format!("turn:127.0.0.1:{port}") };
    config.ice_servers.push(IceServer::new(vec![url]).with_credential(case.user.clone(), case.pass.clone()));
    let role = if case.controlling { IceRole::Controlling } else { IceRole::Controlled };
    let (transport, runner) = IceTransportBuilder::new(config).role(role).build();
    let local = transport.local_parameters();
    let connected_phase = Arc::new(std::sync::atomic::AtomicBool::new(false));
    let relay_priority = Arc::new(parking_lot::Mutex::new(None));
    let mut server = Server {
        case: case.clone(),
        io,
        out: out.clone(),
        local,
        current: 0,
        issued_any: false,
        stale_done: 0,
        connected_phase: connected_phase.clone(),
        channels: BTreeMap::new(),
        injected: false,
        relay_priority: relay_priority.clone(),
    };
    let prefixed_flag = Arc::new(parking_lot::Mutex::new(None));
    let pf = prefixed_flag.clone();
    let server_task = tokio::task::spawn_local(async move {
        while let Some(pkt) = server.io.recv().await {
            if let Io::Tcp { prefixed, .. } = &server.io {
                *pf.lock() = *prefixed;
            }
            server.handle(pkt).await;
        }
    });
    let runner_task = tokio::spawn(runner);

    // gathering
    let mut gs = transport.subscribe_gathering_state();
    let _ = tokio::time::timeout(Duration::from_secs(30), async {
        loop {
            if *gs.borrow_and_update() == rustrtc::transports::ice::IceGathererState::Complete {
                break;
            }
            if gs.changed().await.is_err() {
                break;
            }
        }
    })
    .await;
    let relay = transport.local_candidates().into_iter().find(|c| c.typ == IceCandidateType::Relay);
    match &relay {
        None => out.lock().labels.push("sess:no-relay-candidate".into()),
        Some(c) => {
            *relay_priority.lock() = Some(c.priority);
            let mut o = out.lock();
            o.labels.push("sess:relay-candidate".into());
            if c.address != case.relayed {
                o.fail(Fail::new("turn-relayed-address-misread", format!("relay candidate address {}, the server granted XOR-RELAYED-ADDRESS {}", c.address, case.relayed)));
            }
            if c.priority == 0 || c.priority > 0x7FFF_FFFF || (c.priority >> 24) > 100 {
                o.fail(Fail::new("relay-candidate-priority", format!("relay candidate priority {} (type preference {}) — RFC 8445 §5.1.2: 1..2^31-1, relayed lowest", c.priority, c.priority >> 24)));
            }
            let line = c.to_sdp();
            match IceCandidate::from_sdp(&line) {
                Ok(back) if back == *c => {}
                Ok(back) => o.fail(Fail::new("sdp-gathered-relay-roundtrip", format!("gathered relay candidate {:?} -> {:?} -> {:?}", c, line, back))),
                Err(e) => o.fail(Fail::new("sdp-own-line-rejected", format!("from_sdp rejects {line:?}: {e}"))),
            }
            if c.transport != "udp" {
                o.labels.push("sess:relay-candidate-transport-not-udp".into());
            }
        }
    }

    if relay.is_some() && !case.tcp {
        transport.add_remote_candidate(IceCandidate::host(case.peer, 1));
        let _ = transport.start(IceParameters::new(case.remote_ufrag.clone(), case.remote_pwd.clone()));
        let mut st = transport.subscribe_state();
        let connected = tokio::time::timeout(Duration::from_secs(40), async {
            loop {
                let s = *st.borrow_and_update();
                if s == IceTransportState::Connected || s == IceTransportState::Completed {
                    return true;
                }
                if s == IceTransportState::Failed || s == IceTransportState::Closed {
                    return false;
                }
                if st.changed().await.is_err() {
                    return false;
                }
            }
        })
        .await
        .unwrap_or(false);
        out.lock().labels.push(if connected { "sess:connected".into() } else { "sess:not-connected".into() });
        if connected {
            // let nomination / inbound request settle
            tokio::time::sleep(Duration::from_secs(2)).await;
            connected_phase.store(true, std::sync::atomic::Ordering::SeqCst);
            if case.run_refresh {
                tokio::time::sleep(Duration::from_secs(27)).await;
            }
        }
    }
    MUTE.with(|m| m.set(true));
    transport.stop();
    tokio::time::sleep(Duration::from_millis(200)).await;
    // Neither task is aborted here: the fake server's socket stays open until the whole runtime is dropped
    // (nothing is polled after this function returns), so a straggling task of the client can never reach a
    // recycled port that now belongs to a parallel session's server.
    drop(server_task);
    drop(runner_task);
    let mut o = std::mem::take(&mut *out.lock());
    o.tcp_prefixed = *prefixed_flag.lock();
    o
}

/// Verdicts that a stray datagram can cause: the client's UDP socket is bound to 0.0.0.0:<ephemeral> and
/// rustrtc's TURN client accepts datagrams from any source, so an unrelated loopback sender on this machine
/// (parallel sessions, other harness processes) can make it answer an address that is not in the script, or
/// spoil an exchange. Such a session is re-run; the verdict counts only if the same signature shows again
/// (a wrong encoding is deterministic and reproduces). Content verdicts are never retried.
fn interference_suspect(sig: &str) -> bool {
    sig.starts_with("turn-no-")
        || matches!(
            sig,
            "turn-send-peer-wrong" | "turn-permission-peer-wrong" | "turn-channel-peer-wrong" | "turn-unexpected-message" | "turn-chandata-unbound-channel" | "turn-channel-rebound-to-other-peer"
        )
}

fn first_unknown(case: &SessCase, o: &Outcome) -> Option<String> {
    let rec = CaseRec::default();
    verdict(case, o, &rec, &|s| s == super::SIG_RADDR || s == SIG_TCP_FRAMING).err().map(|f| f.signature)
}

pub fn run_case(case: &SessCase) -> Outcome {
    let mut o = run_case_once(case);
    let mut tries = 0;
    while tries < 2 {
        match first_unknown(case, &o) {
            Some(sig) if interference_suspect(&sig) => {
                tries += 1;
                let again = run_case_once(case);
                let same = first_unknown(case, &again).as_deref() == Some(sig.as_str());
                o = again;
                o.labels.push("sess:retried".into());
                if same && tries == 2 {
                    break;
                }
            }
            _ => break,
        }
    }
    o
}

fn run_case_once(case: &SessCase) -> Outcome {
    let rt = tokio::runtime::Builder::new_current_thread().enable_all().start_paused(true).build().expect("runtime");
    let local = tokio::task::LocalSet::new();
    let o = rt.block_on(local.run_until(drive(case.clone())));
    drop(local);
    rt.shutdown_timeout(Duration::from_millis(50));
    o
}

/// Turn an outcome into the case verdict. `known` filters signatures that are tolerated so the
/// first *unknown* failure is reported.
fn verdict(case: &SessCase, o: &Outcome, rec: &CaseRec, known: &dyn Fn(&str) -> bool) -> Check {
    rec.label(format!("sess:{}", if case.tcp { "tcp" } else { "udp" }));
    rec.label(format!("sess:{}", if case.v6 { "v6" } else { "v4" }));
    rec.label(format!("sess:{}", if case.controlling { "controlling" } else { "controlled" }));
    for l in &o.labels {
        rec.label(l.clone());
    }
    for (k, _) in &o.seen {
        rec.label(format!("sess:saw:{k}"));
    }
    rec.set_nontrivial(o.seen.contains_key("allocate-auth"));
    let mut fails: Vec<Fail> = o.fails.clone();
    if o.tcp_prefixed == Some(true) {
        fails.push(Fail::new(
            SIG_TCP_FRAMING,
            "TURN over TCP: the client prepends a 2-byte length to every STUN message on the stream; RFC 5766 §2.1 / RFC 5389 §7.2.2 send STUN messages back to back (self-delimited by the header length) — a standard TURN server cannot parse this stream",
        ));
    }
    if !o.seen.contains_key("allocate-unauth") {
        fails.push(Fail::new("turn-no-allocate", "the server never received an Allocate request"));
    } else if !o.seen.contains_key("allocate-auth") {
        fails.push(Fail::new("turn-no-authenticated-allocate", format!("after the 401 challenge no acceptable authenticated Allocate arrived; seen {:?}", o.seen)));
    }
    if !case.tcp && o.seen.contains_key("allocate-auth") {
        if !o.seen.contains_key("create-permission") {
            fails.push(Fail::new("turn-no-create-permission", format!("no CreatePermission for the remote candidate; seen {:?}", o.seen)));
        } else if !o.seen.contains_key("inner-binding-request") {
            fails.push(Fail::new("turn-no-relayed-check", format!("no connectivity check was relayed; seen {:?}", o.seen)));
        }
    }
    // first unknown failure wins; otherwise report a known one (the engine tolerates it)
    if let Some(f) = fails.iter().find(|f| !known(&f.signature)) {
        return Err(f.clone());
    }
    if let Some(f) = fails.first() {
        return Err(f.clone());
    }
    Ok(())
}

pub fn run(ctx: &mut Ctx) {
    let sub = "turn-session";
    let check = |c: &SessCase, rec: &CaseRec, ctx: &Ctx| -> Check {
        let o = run_case(c);
        verdict(c, &o, rec, &|s| ctx.is_known(s))
    };
    if ctx.is_replay() {
        if let Some(c) = ctx.replay_case::<SessCase>(sub) {
            let ok = ctx.run_one(sub, &c, &|c, rec| check(c, rec, ctx));
            if ok {
                println!("replay: property={} sub={} PASS", ctx.prop, sub);
            }
        }
        return;
    }
    for c in ctx.regression_cases::<SessCase>(sub) {
        ctx.run_one(sub, &c, &|c, rec| check(c, rec, ctx));
    }
    let n = ctx.scale(3000usize, 60_000usize);
    let strat = sess_strategy();
    let mut trees = ctx.draw(sub, n, &strat);
    let cases: Vec<SessCase> = trees.iter().map(|t| t.current()).collect();
    let threads = std::thread::available_parallelism().map(|x| x.get()).unwrap_or(8).min(16);
    let next = std::sync::atomic::AtomicUsize::new(0);
    let results: parking_lot::Mutex<Vec<Option<Outcome>>> = parking_lot::Mutex::new((0..n).map(|_| None).collect());
    std::thread::scope(|sc| {
        for _ in 0..threads {
            sc.spawn(|| loop {
                let i = next.fetch_add(1, std::sync::atomic::Ordering::Relaxed);
                if i >= cases.len() {
                    break;
                }
                let o = std::panic::catch_unwind(std::panic::AssertUnwindSafe(|| run_case(&cases[i]))).unwrap_or_else(|_| {
                    let mut o = Outcome::default();
                    o.fails.push(Fail::new("panic-in-turn-session", "panic while driving the session"));
                    o
                });
                results.lock()[i] = Some(o);
            });
        }
    });
    let results = results.into_inner();
    let mut first_fail: Option<usize> = None;
    for (i, (c, o)) in cases.iter().zip(results.iter()).enumerate() {
        let rec = CaseRec::default();
        let res = verdict(c, o.as_ref().unwrap(), &rec, &|s| ctx.is_known(s));
        let v = serde_json::to_value(c).unwrap();
        if ctx.record(sub, &v, &rec, &res).is_err() && first_fail.is_none() {
            first_fail = Some(i);
        }
    }
    if let Some(i) = first_fail {
        let sig = {
            let rec = CaseRec::default();
            verdict(&cases[i], results[i].as_ref().unwrap(), &rec, &|s| ctx.is_known(s)).err().map(|f| f.signature).unwrap_or_default()
        };
        let min = ctx.shrink_tree(&mut trees[i], 60, |c| {
            let o = run_case(c);
            let rec = CaseRec::default();
            matches!(verdict(c, &o, &rec, &|s| ctx.is_known(s)), Err(f) if f.signature == sig)
        });
        let o = run_case(&min);
        let rec = CaseRec::default();
        match verdict(&min, &o, &rec, &|s| ctx.is_known(s)) {
            Err(f) if f.signature == sig => ctx.violation(sub, &serde_json::to_value(&min).unwrap(), &f),
            _ => {
                // the session depends on the stack's own random ids / scheduling: keep the original observation
                let rec = CaseRec::default();
                let mut f = verdict(&cases[i], results[i].as_ref().unwrap(), &rec, &|s| ctx.is_known(s)).err().unwrap();
                f.msg = format!("{} [observed once; not reproduced when re-running the case]", f.msg);
                ctx.violation(sub, &serde_json::to_value(&cases[i]).unwrap(), &f);
            }
        }
    }
    let _ = ensure_used();
}

fn ensure_used() -> Check {
    ensure!(CLASSES.len() == 4, "harness", "unreachable");
    Ok(())
}
