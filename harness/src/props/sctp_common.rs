//! Shared workload runner for the SCTP / data-channel properties (C01, C12, C13):
//! builds a real two-endpoint stack (IceConn + DTLS + SCTP) on the fault network, runs a
//! generated workload of channels and messages, and returns everything the oracles need.

use crate::net::fault::{Action, Ev, Phase, Rule, Side};
use crate::net::rig::{Pair, PairSpec, SctpInfo, SctpSide};
use crate::net::wire::SClass;
use bytes::Bytes;
use parking_lot::Mutex;
use proptest::prelude::*;
use rustrtc::RtcConfiguration;
use rustrtc::transports::sctp::{DataChannel, DataChannelConfig, DataChannelEvent};
use serde::{Deserialize, Serialize};
use std::collections::HashMap;
use std::sync::Arc;
use std::time::{Duration, Instant};
use tokio::sync::watch;

#[derive(Clone, Copy, Debug, PartialEq, Eq, Serialize, Deserialize)]
pub enum Rel {
    Reliable,
    Rexmit(u16),
    Timed(u16),
}

#[derive(Clone, Debug, Serialize, Deserialize)]
pub struct ChanSpec {
    pub id: u16,
    pub ordered: bool,
    pub rel: Rel,
    /// None = negotiated out of band on both sides; Some(side) = opened in-band (DCEP) by that side
    pub inband_by: Option<Side>,
    pub label: String,
    pub protocol: String,
    /// Negotiated channels only: Some((a_ms, b_ms)) = the channel object is created on each side that
    /// many ms AFTER the association is up there (late `create_data_channel`), not before the start.
    /// Such a channel is never announced Open by the association start; senders use it once both sides
    /// have created it, without waiting for Open.
    #[serde(default)]
    pub late_ms: Option<(u16, u16)>,
}

#[derive(Clone, Debug, Serialize, Deserialize)]
pub struct SendOp {
    pub side: Side,
    /// index into Workload.chans
    pub chan: usize,
    /// sender task on that side (ops of one task are issued sequentially, each awaited)
    pub task: u8,
    pub size: u32,
    /// pause before this send
    pub gap_ms: u16,
}

#[derive(Clone, Debug, Serialize, Deserialize)]
pub struct Workload {
    pub chans: Vec<ChanSpec>,
    pub sends: Vec<SendOp>,
}

#[derive(Clone, Debug, Serialize, Deserialize)]
pub struct NetSpec {
    pub rules: Vec<Rule<SClass>>,
    pub tsn_a: Option<u32>,
    pub tsn_b: Option<u32>,
    pub rwnd: u32,
    pub max_burst: u8,
    pub max_cwnd: u32,
    /// (initial, min, max) RTO in ms
    pub rto_ms: (u16, u16, u16),
}

impl NetSpec {
    pub fn default_fast() -> Self {
        Self {
            rules: vec![],
            tsn_a: None,
            tsn_b: None,
            rwnd: 128 * 1024,
            max_burst: 0,
            max_cwnd: 256 * 1024,
            rto_ms: (100, 50, 400),
        }
    }
}

#[derive(Clone, Debug)]
pub enum EvKind {
    Open,
    Msg(Bytes),
    Close,
}

#[derive(Clone, Debug)]
pub struct ChanEvent {
    pub t_us: u64,
    /// side that observed the event
    pub side: Side,
    pub chan_id: u16,
    pub kind: EvKind,
}

#[derive(Clone, Debug)]
pub struct Submit {
    pub t_us: u64,
    pub side: Side,
    pub chan: usize,
    pub task: u8,
    /// index of the op in Workload.sends
    pub op: usize,
    pub ok: bool,
    pub err: Option<String>,
}

#[derive(Clone, Debug)]
pub struct InbandSeen {
    pub side: Side,
    pub id: u16,
    pub label: String,
    pub protocol: String,
    pub ordered: bool,
    pub max_retransmits: Option<u16>,
    pub max_packet_life_time: Option<u16>,
}

pub struct RunResult {
    pub events: Vec<ChanEvent>,
    pub submits: Vec<Submit>,
    /// ops whose send_data call was issued (it may not have returned)
    pub issued: Vec<usize>,
    pub inband: Vec<InbandSeen>,
    pub trace: Vec<Ev<SClass, SctpInfo>>,
    pub rules_fired: Vec<bool>,
    pub close_reason: [Option<String>; 2],
    pub dtls_connected: bool,
    /// all senders returned
    pub senders_done: bool,
    /// all messages of reliable channels were delivered before the deadline
    pub complete: bool,
    /// time (us since start) of the last fault effect / last submit
    pub last_fault_us: u64,
    pub last_submit_us: u64,
    pub end_us: u64,
    pub diag: [String; 2],
    /// bytes each SCTP endpoint (A, B) handed to its DTLS transport (SctpTransport::link_stats), read at
    /// the end of the run: compared with the captured bytes it reveals loss on the harness' own datagram path
    pub link_bytes_sent: [u64; 2],
    /// statistics of the harness-built SACKs (RigExtra.sack_form)
    pub sack_synth: Option<crate::net::sacksynth::SynthStats>,
}

/// Deterministic message content: uid(4) size(4) then a keyed xorshift stream; truncated to `size`.
pub fn msg_bytes(uid: u32, size: u32) -> Vec<u8> {
    let mut v = Vec::with_capacity(size as usize + 8);
    v.extend_from_slice(&uid.to_be_bytes());
    v.extend_from_slice(&size.to_be_bytes());
    let mut x: u64 = 0x9E3779B97F4A7C15 ^ ((uid as u64) << 17) ^ size as u64;
    while v.len() < size as usize {
        x ^= x << 13;
        x ^= x >> 7;
        x ^= x << 17;
        v.extend_from_slice(&x.to_le_bytes());
    }
    v.truncate(size as usize);
    v
}

pub fn uid_of(op_index: usize) -> u32 {
    0x5000_0000 | op_index as u32
}

fn chan_config(c: &ChanSpec) -> DataChannelConfig {
    DataChannelConfig {
        label: c.label.clone(),
        protocol: c.protocol.clone(),
        ordered: c.ordered,
        max_retransmits: match c.rel {
            Rel::Rexmit(n) => Some(n),
            _ => None,
        },
        max_packet_life_time: match c.rel {
            Rel::Timed(ms) => Some(ms),
            _ => None,
        },
        max_payload_size: None,
        negotiated: if c.inband_by.is_none() { Some(c.id) } else { None },
    }
}

fn rtc_config(n: &NetSpec) -> RtcConfiguration {
    let mut c = RtcConfiguration::default();
    c.sctp_rto_initial = Duration::from_millis(n.rto_ms.0 as u64);
    c.sctp_rto_min = Duration::from_millis(n.rto_ms.1 as u64);
    c.sctp_rto_max = Duration::from_millis(n.rto_ms.2 as u64);
    c.sctp_receive_window = n.rwnd as usize;
    c.sctp_max_burst = n.max_burst as usize;
    c.sctp_max_cwnd = n.max_cwnd as usize;
    c
}

pub struct Limits {
    /// liveness bound after the later of (last fault effect, last submit)
    pub complete_within: Duration,
    /// extra time to keep observing after completion (quiescence / duplicates)
    pub settle: Duration,
    /// absolute cap on a case
    pub hard_cap: Duration,
}

impl Default for Limits {
    fn default() -> Self {
        Self {
            complete_within: Duration::from_secs(30),
            settle: Duration::from_millis(120),
            hard_cap: Duration::from_secs(90),
        }
    }
}

struct Shared {
    t0: Instant,
    events: Mutex<Vec<ChanEvent>>,
    submits: Mutex<Vec<Submit>>,
    issued: Mutex<Vec<usize>>,
    inband: Mutex<Vec<InbandSeen>>,
    /// (side, chan id) -> open flag
    open: Mutex<HashMap<(Side, u16), watch::Sender<bool>>>,
    created: Mutex<HashMap<(Side, u16), watch::Sender<bool>>>,
    /// channels received in-band, kept alive
    remote_dcs: Mutex<Vec<Arc<DataChannel>>>,
}

impl Shared {
    fn now_us(&self) -> u64 {
        self.t0.elapsed().as_micros() as u64
    }
    fn open_rx(&self, side: Side, id: u16) -> watch::Receiver<bool> {
        let mut g = self.open.lock();
        g.entry((side, id))
            .or_insert_with(|| watch::channel(false).0)
            .subscribe()
    }
    fn created_rx(&self, side: Side, id: u16) -> watch::Receiver<bool> {
        let mut g = self.created.lock();
        g.entry((side, id))
            .or_insert_with(|| watch::channel(false).0)
            .subscribe()
    }
    fn set_created(&self, side: Side, id: u16) {
        let mut g = self.created.lock();
        let tx = g.entry((side, id)).or_insert_with(|| watch::channel(false).0);
        tx.send_replace(true);
    }
    fn set_open(&self, side: Side, id: u16) {
        let mut g = self.open.lock();
        let tx = g.entry((side, id)).or_insert_with(|| watch::channel(false).0);
        // send_replace stores the value even while nobody has subscribed yet
        tx.send_replace(true);
    }
}

fn spawn_receiver(sh: Arc<Shared>, side: Side, dc: Arc<DataChannel>, tasks: &mut Vec<tokio::task::JoinHandle<()>>) {
    tasks.push(tokio::spawn(async move {
        while let Some(ev) = dc.recv().await {
            let t = sh.now_us();
            let kind = match ev {
                DataChannelEvent::Open => {
                    sh.set_open(side, dc.id);
                    EvKind::Open
                }
                DataChannelEvent::Message(b) => EvKind::Msg(b),
                DataChannelEvent::Close => EvKind::Close,
            };
            let is_close = matches!(kind, EvKind::Close);
            sh.events.lock().push(ChanEvent {
                t_us: t,
                side,
                chan_id: dc.id,
                kind,
            });
            if is_close {
                // keep draining: a second Close (or anything after it) must be observable
            }
        }
    }));
}

/// Number of messages each (receiving side, channel id) should get if everything is delivered.
fn expected_counts(w: &Workload) -> HashMap<(Side, u16), usize> {
    let mut m = HashMap::new();
    for s in &w.sends {
        *m.entry((s.side.other(), w.chans[s.chan].id)).or_insert(0) += 1;
    }
    m
}

/// Optional extras of a run that are not part of `NetSpec` (whose serialised form is fixed by replays).
#[derive(Clone, Debug, Default)]
pub struct RigExtra {
    /// replace every genuine SACK by a harness-built truthful one (see net::sacksynth)
    pub sack_form: Option<crate::net::sacksynth::SackForm>,
    /// fabricated setup chunks behind `Action::Custom(setupforge::CUSTOM_*)` rules (see net::setupforge)
    pub forgery: Option<crate::net::setupforge::SetupForgery>,
}

pub async fn run_case(w: &Workload, n: &NetSpec, lim: &Limits) -> anyhow::Result<RunResult> {
    run_case_with(w, n, lim, &RigExtra::default()).await
}

pub async fn run_case_with(w: &Workload, n: &NetSpec, lim: &Limits, extra: &RigExtra) -> anyhow::Result<RunResult> {
    let sh = Arc::new(Shared {
        t0: Instant::now(),
        events: Mutex::new(Vec::new()),
        submits: Mutex::new(Vec::new()),
        issued: Mutex::new(Vec::new()),
        inband: Mutex::new(Vec::new()),
        open: Mutex::new(HashMap::new()),
        created: Mutex::new(HashMap::new()),
        remote_dcs: Mutex::new(Vec::new()),
    });
    let mut tasks: Vec<tokio::task::JoinHandle<()>> = Vec::new();

    // local channel objects
    let mut local: [Vec<Arc<DataChannel>>; 2] = [Vec::new(), Vec::new()];
    for c in &w.chans {
        for (i, side) in [Side::A, Side::B].into_iter().enumerate() {
            if c.late_ms.is_some() && c.inband_by.is_none() {
                continue;
            }
            if c.inband_by.is_none() || c.inband_by == Some(side) {
                local[i].push(Arc::new(DataChannel::new(c.id, chan_config(c))));
            }
        }
    }
    let cfg = rtc_config(n);
    let mut spec = PairSpec::plain();
    spec.sctp_rules = n.rules.clone();
    spec.sctp = Some((
        SctpSide {
            config: cfg.clone(),
            initial_tsn: n.tsn_a,
            channels: local[0].clone(),
        },
        SctpSide {
            config: cfg,
            initial_tsn: n.tsn_b,
            channels: local[1].clone(),
        },
    ));
    for (i, side) in [Side::A, Side::B].into_iter().enumerate() {
        for dc in &local[i] {
            spawn_receiver(sh.clone(), side, dc.clone(), &mut tasks);
        }
    }
    let mut pair = Pair::build(spec).await?;
    if let Some(fg) = extra.forgery {
        pair.sctp_layer.lock().custom = Some(Arc::new(move |k: u8, b: &Bytes| fg.apply(k, b)));
    }
    let synth = extra.sack_form.map(|f| Arc::new(Mutex::new(crate::net::sacksynth::SackSynth::new(f))));
    if let Some(sy) = &synth {
        let mut g = pair.sctp_layer.lock();
        let (s1, s2) = (sy.clone(), sy.clone());
        g.on_deliver = Some(Arc::new(move |from: Side, b: &Bytes| s1.lock().on_deliver(from, b)));
        g.rewrite = Some(Arc::new(move |from: Side, b: &Bytes| s2.lock().rewrite(from, b)));
    }

    // in-band channels announced by the peer
    for side in [Side::A, Side::B] {
        let mut rx = pair.end_mut(side).new_dc_rx.take().unwrap();
        let sh2 = sh.clone();
        tasks.push(tokio::spawn(async move {
            let mut inner: Vec<tokio::task::JoinHandle<()>> = Vec::new();
            while let Some(dc) = rx.recv().await {
                sh2.inband.lock().push(InbandSeen {
                    side,
                    id: dc.id,
                    label: dc.label.clone(),
                    protocol: dc.protocol.clone(),
                    ordered: dc.ordered,
                    max_retransmits: dc.max_retransmits,
                    max_packet_life_time: dc.max_packet_life_time,
                });
                sh2.remote_dcs.lock().push(dc.clone());
                spawn_receiver(sh2.clone(), side, dc, &mut inner);
            }
        }));
    }

    let (sa, sb) = pair.wait_dtls(Duration::from_secs(10)).await;
    let dtls_connected = matches!(sa, rustrtc::transports::dtls::DtlsState::Connected(..))
        && matches!(sb, rustrtc::transports::dtls::DtlsState::Connected(..));

    // negotiated channels created late, on a live association
    for (i, side) in [Side::A, Side::B].into_iter().enumerate() {
        let late: Vec<ChanSpec> = w.chans.iter().filter(|c| c.late_ms.is_some() && c.inband_by.is_none()).cloned().collect();
        if late.is_empty() {
            continue;
        }
        // "association up" as an application sees it: some channel that existed from the start is Open here
        let early: Option<u16> = w.chans.iter().find(|c| c.late_ms.is_none() && (c.inband_by.is_none() || c.inband_by == Some(side))).map(|c| c.id);
        let registry = pair.end(side).channels.clone();
        let sh2 = sh.clone();
        tasks.push(tokio::spawn(async move {
            match early {
                Some(id) => {
                    let mut rx = sh2.open_rx(side, id);
                    while !*rx.borrow_and_update() {
                        if rx.changed().await.is_err() {
                            return;
                        }
                    }
                }
                None => tokio::time::sleep(Duration::from_millis(400)).await,
            }
            let mut inner: Vec<tokio::task::JoinHandle<()>> = Vec::new();
            let mut order: Vec<&ChanSpec> = late.iter().collect();
            order.sort_by_key(|c| if i == 0 { c.late_ms.unwrap().0 } else { c.late_ms.unwrap().1 });
            let mut waited = 0u16;
            for c in order {
                let at = if i == 0 { c.late_ms.unwrap().0 } else { c.late_ms.unwrap().1 };
                tokio::time::sleep(Duration::from_millis((at - waited) as u64)).await;
                waited = at;
                let dc = Arc::new(DataChannel::new(c.id, chan_config(c)));
                registry.lock().push(Arc::downgrade(&dc));
                sh2.remote_dcs.lock().push(dc.clone()); // keeps it alive
                spawn_receiver(sh2.clone(), side, dc, &mut inner);
                sh2.set_created(side, c.id);
            }
        }));
    }

    // sender tasks
    let mut groups: HashMap<(Side, u8), Vec<usize>> = HashMap::new();
    for (i, s) in w.sends.iter().enumerate() {
        groups.entry((s.side, s.task)).or_default().push(i);
    }
    let mut sender_handles = Vec::new();
    let mut keys: Vec<_> = groups.keys().cloned().collect();
    keys.sort();
    for key in keys {
        let ops = groups[&key].clone();
        let side = key.0;
        let sctp = pair.end(side).sctp.clone().unwrap();
        let w2 = w.clone();
        let sh2 = sh.clone();
        sender_handles.push(tokio::spawn(async move {
            for op in ops {
                let s = &w2.sends[op];
                let id = w2.chans[s.chan].id;
                if w2.chans[s.chan].late_ms.is_some() && w2.chans[s.chan].inband_by.is_none() {
                    // late negotiated channel: usable once both applications have created it
                    for who in [Side::A, Side::B] {
                        let mut rx = sh2.created_rx(who, id);
                        while !*rx.borrow_and_update() {
                            if rx.changed().await.is_err() {
                                return;
                            }
                        }
                    }
                } else {
                    let mut rx = sh2.open_rx(side, id);
                    // a well-behaved application sends only on an Open channel
                    while !*rx.borrow_and_update() {
                        if rx.changed().await.is_err() {
                            return;
                        }
                    }
                }
                if s.gap_ms > 0 {
                    tokio::time::sleep(Duration::from_millis(s.gap_ms as u64)).await;
                }
                let data = msg_bytes(uid_of(op), s.size);
                let t = sh2.now_us();
                sh2.issued.lock().push(op);
                let r = sctp.send_data(id, &data).await;
                sh2.submits.lock().push(Submit {
                    t_us: t,
                    side,
                    chan: s.chan,
                    task: s.task,
                    op,
                    ok: r.is_ok(),
                    err: r.err().map(|e| e.to_string()),
                });
            }
        }));
    }

    // wait: senders done, then deliveries complete (reliable channels) or deadline
    let expect = expected_counts(w);
    let reliable: HashMap<u16, bool> = w.chans.iter().map(|c| (c.id, c.rel == Rel::Reliable)).collect();
    let hard_deadline = Instant::now() + lim.hard_cap;
    let mut senders_done = false;
    let mut complete = false;
    let mut completed_at: Option<Instant> = None;
    loop {
        if !senders_done && sender_handles.iter().all(|h| h.is_finished()) {
            senders_done = true;
        }
        let closed = [Side::A, Side::B]
            .iter()
            .any(|s| pair.end(*s).sctp.as_ref().unwrap().close_reason().is_some());
        if senders_done {
            let got: HashMap<(Side, u16), usize> = {
                let ev = sh.events.lock();
                let mut m = HashMap::new();
                for e in ev.iter() {
                    if matches!(e.kind, EvKind::Msg(_)) {
                        *m.entry((e.side, e.chan_id)).or_insert(0) += 1;
                    }
                }
                m
            };
            let all = expect
                .iter()
                .filter(|((_, id), _)| reliable[id])
                .all(|(k, n)| got.get(k).copied().unwrap_or(0) >= *n);
            if all && completed_at.is_none() {
                completed_at = Some(Instant::now());
                complete = true;
            }
        }
        if let Some(t) = completed_at {
            if t.elapsed() >= lim.settle {
                break;
            }
        }
        let now = Instant::now();
        if now >= hard_deadline {
            break;
        }
        if closed && completed_at.is_none() {
            // association reported closed: the liveness clause no longer applies; observe briefly
            tokio::time::sleep(lim.settle).await;
            break;
        }
        if completed_at.is_none() {
            // liveness bound relative to the last fault effect / last submit
            let last_fault = pair.sctp_layer.lock().last_fault;
            let last_submit_us = sh.submits.lock().iter().map(|s| s.t_us).max().unwrap_or(0);
            let base = {
                let f = last_fault.unwrap_or(sh.t0);
                let s = sh.t0 + Duration::from_micros(last_submit_us);
                f.max(s)
            };
            // faults scheduled in the future (delays) push the base forward on their own
            if senders_done && now >= base + lim.complete_within {
                break;
            }
            if !senders_done && !dtls_connected && now >= sh.t0 + Duration::from_secs(12) {
                break;
            }
        }
        tokio::time::sleep(Duration::from_millis(5)).await;
    }
    let end_us = sh.now_us();
    let close_reason = [
        pair.a.sctp.as_ref().unwrap().close_reason(),
        pair.b.sctp.as_ref().unwrap().close_reason(),
    ];
    let diag = [
        pair.a.sctp.as_ref().unwrap().diagnostic_info(),
        pair.b.sctp.as_ref().unwrap().diagnostic_info(),
    ];
    let link_bytes_sent = [
        pair.a.sctp.as_ref().unwrap().link_stats().bytes_sent,
        pair.b.sctp.as_ref().unwrap().link_stats().bytes_sent,
    ];
    let (trace, rules_fired, last_fault_us) = {
        let mut g = pair.sctp_layer.lock();
        let lf = g
            .last_fault
            .map(|t| t.saturating_duration_since(g.t0).as_micros() as u64)
            .unwrap_or(0);
        // the layer's clock started slightly after sh.t0; align on sh.t0
        let shift = g.t0.saturating_duration_since(sh.t0).as_micros() as u64;
        let mut tr = std::mem::take(&mut g.trace);
        for e in tr.iter_mut() {
            e.t_us += shift;
        }
        (tr, g.fired.clone(), lf + shift)
    };
    for h in sender_handles {
        h.abort();
    }
    for t in tasks {
        t.abort();
    }
    drop(pair);
    let events = std::mem::take(&mut *sh.events.lock());
    let submits = std::mem::take(&mut *sh.submits.lock());
    let inband = std::mem::take(&mut *sh.inband.lock());
    let issued = std::mem::take(&mut *sh.issued.lock());
    let last_submit_us = submits.iter().map(|s| s.t_us).max().unwrap_or(0);
    Ok(RunResult {
        events,
        submits,
        issued,
        inband,
        trace,
        rules_fired,
        close_reason,
        dtls_connected,
        senders_done,
        complete,
        last_fault_us,
        last_submit_us,
        end_us,
        diag,
        link_bytes_sent,
        sack_synth: synth.map(|s| s.lock().stats.clone()),
    })
}

// ------------------------------------------------------------------ generators

pub fn side_strategy() -> impl Strategy<Value = Side> {
    prop_oneof![Just(Side::A), Just(Side::B)]
}

pub fn action_strategy() -> impl Strategy<Value = Action> {
    prop_oneof![
        3 => Just(Action::Drop),
        2 => (1..=2u8, prop_oneof![Just(0u16), Just(1), 5..60u16, 100..400u16]).prop_map(|(copies, gap_ms)| Action::Dup { copies, gap_ms }),
        2 => prop_oneof![1..30u16, 30..150u16, 150..600u16].prop_map(|ms| Action::Delay { ms }),
        2 => (1..=4u8, 20..300u16).prop_map(|(count, max_ms)| Action::HoldBack { count, max_ms }),
    ]
}

pub fn setup_class() -> impl Strategy<Value = SClass> {
    prop_oneof![
        Just(SClass::Init),
        Just(SClass::InitAck),
        Just(SClass::CookieEcho),
        Just(SClass::CookieAck),
    ]
}

pub fn data_class() -> impl Strategy<Value = SClass> {
    prop_oneof![3 => Just(SClass::Data), 3 => Just(SClass::Sack), 1 => Just(SClass::Dcep), 1 => Just(SClass::ForwardTsn)]
}

/// Setup chunks are sent by a fixed side (A is the SCTP client): INIT/COOKIE-ECHO from A,
/// INIT-ACK/COOKIE-ACK from B. Build rules that can actually fire.
pub fn setup_rule() -> impl Strategy<Value = Rule<SClass>> {
    (setup_class(), 0..2u16, action_strategy()).prop_map(|(class, ordinal, action)| Rule {
        from: match class {
            SClass::Init | SClass::CookieEcho => Side::A,
            _ => Side::B,
        },
        class,
        ordinal,
        action,
    })
}

pub fn data_rule(max_ordinal: u16) -> impl Strategy<Value = Rule<SClass>> {
    (side_strategy(), data_class(), 0..max_ordinal, action_strategy())
        .prop_map(|(from, class, ordinal, action)| Rule { from, class, ordinal, action })
}

pub fn tsn_strategy() -> impl Strategy<Value = Option<u32>> {
    prop_oneof![
        4 => Just(None),
        1 => Just(Some(0u32)),
        1 => Just(Some(1u32)),
        2 => (1..64u32).prop_map(|k| Some(0u32.wrapping_sub(k))),
        1 => (1..64u32).prop_map(|k| Some(0x8000_0000u32 - k)),
        1 => (0..64u32).prop_map(|k| Some(0x8000_0000u32 + k)),
    ]
}

pub fn size_strategy(max_uniform: u32) -> impl Strategy<Value = u32> {
    prop_oneof![
        2 => Just(0u32),
        2 => Just(1u32),
        2 => 2..64u32,
        2 => Just(1171u32),
        2 => Just(1172u32),
        2 => Just(1173u32),
        1 => Just(2344u32),
        1 => Just(2345u32),
        2 => 4096..8192u32,
        3 => 0..max_uniform,
    ]
}

/// Does any fired rule target a setup chunk / a data-path chunk?
pub fn fired_classes(n: &NetSpec, fired: &[bool]) -> (bool, bool) {
    let mut setup = false;
    let mut data = false;
    for (r, f) in n.rules.iter().zip(fired) {
        if *f {
            match r.class {
                SClass::Init | SClass::InitAck | SClass::CookieEcho | SClass::CookieAck => setup = true,
                _ => data = true,
            }
        }
    }
    (setup, data)
}

/// Time (us) of the last packet either side put on the wire that is not a HEARTBEAT / HEARTBEAT-ACK.
pub fn last_activity_us(tr: &[Ev<SClass, SctpInfo>]) -> u64 {
    tr.iter()
        .filter(|e| e.phase == Phase::Captured && !matches!(e.class, SClass::Heartbeat | SClass::HeartbeatAck))
        .map(|e| e.t_us)
        .max()
        .unwrap_or(0)
}

/// A stall is definitive (schedule-independent) when nothing but heartbeats has been put on the wire
/// for `quiet` although the run went on: no retransmission timer can be pending any more (RTO max is
/// 0.4 s in these rigs), so waiting longer or re-running under less load cannot change the verdict.
pub fn quiescent_stall(r: &RunResult, quiet: Duration) -> bool {
    r.end_us.saturating_sub(last_activity_us(&r.trace)) >= quiet.as_micros() as u64
}

/// The last `n` packets put on the wire, with SACK details - what a stalled association looked like.
pub fn describe_trace_tail(tr: &[Ev<SClass, SctpInfo>], n: usize) -> String {
    let cap: Vec<&Ev<SClass, SctpInfo>> = tr
        .iter()
        .filter(|e| e.phase == Phase::Captured && !matches!(e.class, SClass::Heartbeat | SClass::HeartbeatAck))
        .collect();
    let mut s = String::from("tail: ");
    for e in cap.iter().skip(cap.len().saturating_sub(n)) {
        let mut extra = String::new();
        if let Some(p) = &e.info.pkt {
            for c in &p.chunks {
                if let Some(k) = c.as_sack() {
                    extra.push_str(&format!(" sack(cum={},rwnd={},gaps={})", k.cum_tsn, k.a_rwnd, k.gaps.len()));
                } else if c.ctype == crate::net::wire::CT_DATA && c.value.len() >= 12 {
                    let tsn = u32::from_be_bytes([c.value[0], c.value[1], c.value[2], c.value[3]]);
                    let sid = u16::from_be_bytes([c.value[4], c.value[5]]);
                    extra.push_str(&format!(" data(tsn={},sid={},fl={:02x})", tsn, sid, c.flags));
                } else if c.ctype == crate::net::wire::CT_FORWARD_TSN && c.value.len() >= 4 {
                    let t = u32::from_be_bytes([c.value[0], c.value[1], c.value[2], c.value[3]]);
                    extra.push_str(&format!(" fwd(cum={})", t));
                }
            }
        }
        s.push_str(&format!(
            "[{}us {:?}->{:?} {:?}{}{}] ",
            e.t_us,
            e.from,
            e.from.other(),
            e.class,
            extra,
            e.action.as_ref().map(|a| format!(" FAULT={:?}", a)).unwrap_or_default()
        ));
    }
    s
}

pub fn describe_trace(tr: &[Ev<SClass, SctpInfo>], max: usize) -> String {
    let mut s = String::new();
    for e in tr.iter().take(max) {
        if e.phase == Phase::Captured {
            s.push_str(&format!(
                "[{:>7}us {:?}->{:?} {:?} len={}{}] ",
                e.t_us,
                e.from,
                e.from.other(),
                e.class,
                e.len,
                e.action.as_ref().map(|a| format!(" FAULT={:?}", a)).unwrap_or_default()
            ));
        }
    }
    s
}
