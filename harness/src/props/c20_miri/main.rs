//! C20 Miri driver (materialised into the Miri crate by the harness; do not edit the copy).
//! Runs ONE script (first command line argument, text form of c20_core::Script) once. Exit 0 = oracle passed,
//! exit 3 = oracle failed (line `FAIL <signature> :: <message>`), exit 4 = bad script. Undefined
//! behaviour / data races are reported by Miri itself (non-zero exit + diagnostic on stderr).

#[path = "c20_core.rs"]
mod c20_core;

fn main() {
    // NB: the script comes in as an argument, not an env var: cargo-miri replays build-time env
    // values over the run-time ones.
    let text = std::env::args().nth(1).unwrap_or_default();
    if text == "noop" {
        println!("OK noop");
        return;
    }
    let sc = match c20_core::Script::from_text(&text) {
        Ok(s) => s,
        Err(e) => {
            println!("BADSCRIPT {e}");
            std::process::exit(4);
        }
    };
    let out = c20_core::execute(&sc);
    let s = &out.stats;
    println!(
        "STATS created={} accepted={} would_block={} received={} waits={} stop={} stop_mid={} drop_mid={} overflow_lost={} left={}",
        s.created, s.accepted, s.would_block, s.received, s.waits, s.stop_executed as u8, s.stop_mid as u8, s.drop_mid as u8, s.overflow_lost, s.left_at_teardown
    );
    match out.fails.into_iter().next() {
        None => println!("OK"),
        Some((sig, msg)) => {
            println!("FAIL {sig} :: {msg}");
            std::process::exit(3);
        }
    }
}
