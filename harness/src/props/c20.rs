//! C20 — track sample queues never duplicate, reorder, corrupt or leak samples.
//!
//! Three sub-checks over `sample_track()` / `SampleStreamSource` / `SampleStreamTrack`:
//!
//! * `sequential` — one thread executes a generated global order of producer/consumer/stop/drop
//!   operations (the degenerate, fully serialised interleavings) against an exact FIFO /
//!   drop-oldest reference model, with the payload ledger compared to the model after every step.
//! * `native` — generated thread scripts (see `refimpl::c20_core`) executed on real OS threads,
//!   several repetitions each, inside CHILD PROCESSES (this binary re-executed with
//!   `RTCVERIF_C20_CHILD`), so that heap corruption / aborts / signals are observed from outside
//!   and attributed to the script that was running.
//! * `miri` — short fixed-shape scripts run once per (script, seed, preemption rate) under
//!   `cargo +nightly miri run`; any data race / UB report is a violation, and so is any oracle
//!   failure of the same executor under Miri's scheduler and weak-memory emulation.
//!
//! Interleavings are sampled (native) or seeded (Miri), never enumerated.

use crate::engine::{self, CaseRec, Check, Ctx, Fail, pick};
use crate::ensure;
use crate::refimpl::c20_core::{self as core, COp, POp, Prod, Script};
use proptest::prelude::*;
use proptest::strategy::ValueTree;
use rustrtc::media::error::MediaError;
use rustrtc::media::frame::{MediaKind, MediaSample};
use rustrtc::media::track::{MediaStreamTrack, SampleStreamSource, sample_track};
use serde::{Deserialize, Serialize};
use serde_json::{Value, json};
use std::collections::VecDeque;
use std::io::{Read, Write};
use std::path::{Path, PathBuf};
use std::process::{Command, Stdio};
use std::sync::Arc;
use std::sync::atomic::{AtomicUsize, Ordering};
use std::time::{Duration, Instant};

/// Known-finding key for "two threads inside SpscRing::push at once".
pub const SIG_MP: &str = "data-race@media/spsc.rs:push multi-producer";

// =============================================================================================
// sub-check 1: sequential reference model
// =============================================================================================

#[derive(Clone, Copy, Debug, PartialEq, Eq, Serialize, Deserialize)]
pub enum SOp {
    Send(u8),
    TrySend(u8),
    SendMany(u8, u8),
    /// poll the consumer's recv() future once (a Pending future is kept and re-polled next time)
    Recv,
    /// drop a pending recv() future (cancellation must not lose a sample)
    CancelRecv,
    Stop,
    Drop(u8),
    DropMain,
}

#[derive(Clone, Debug, Serialize, Deserialize)]
pub struct SeqCase {
    pub cap: u8,
    pub video: bool,
    /// per producer: handle is an Arc clone of one shared source (true) or its own clone (false)
    pub shared: Vec<bool>,
    pub ops: Vec<SOp>,
}

enum SeqHandle {
    Own(SampleStreamSource),
    Shared(Arc<SampleStreamSource>),
}

impl SeqHandle {
    fn src(&self) -> &SampleStreamSource {
        match self {
            SeqHandle::Own(s) => s,
            SeqHandle::Shared(a) => a,
        }
    }
}

fn seq_check(c: &SeqCase) -> Result<(Vec<String>, bool), Fail> {
    let mut labels: Vec<String> = Vec::new();
    let n = c.shared.len();
    let cap = c.cap as usize;
    let salt = 0x5E9u32;
    // slots: producer p owns [p*stride, (p+1)*stride)
    let stride: usize = c
        .ops
        .iter()
        .map(|o| match o {
            SOp::Send(_) | SOp::TrySend(_) => 1usize,
            SOp::SendMany(_, k) => *k as usize,
            _ => 0,
        })
        .sum::<usize>()
        .max(1);
    let led = core::Ledger::new(stride * n);
    let kind = if c.video { MediaKind::Video } else { MediaKind::Audio };
    let (source, track, _fb) = sample_track(kind, cap);
    let arc_src = if c.shared.iter().any(|s| *s) { Some(Arc::new(source.clone())) } else { None };
    let mut handles: Vec<Option<SeqHandle>> = c
        .shared
        .iter()
        .map(|s| {
            Some(if *s {
                SeqHandle::Shared(arc_src.as_ref().unwrap().clone())
            } else {
                SeqHandle::Own(source.clone())
            })
        })
        .collect();
    let mut main = Some((source, arc_src));

    // model
    let mut q: VecDeque<(u8, u32)> = VecDeque::new();
    let mut ctr = vec![0u32; n];
    let mut stopped = false;
    let mut ended = false;
    let mut overflowed = false;
    let mut would_block = false;
    let mut drained_eos = false;
    let mut recv_n = 0usize;
    struct Flag(std::sync::atomic::AtomicBool);
    impl std::task::Wake for Flag {
        fn wake(self: Arc<Self>) {
            self.0.store(true, Ordering::SeqCst);
        }
    }
    let flag = Arc::new(Flag(std::sync::atomic::AtomicBool::new(false)));
    let waker = std::task::Waker::from(flag.clone());
    let mut cx = std::task::Context::from_waker(&waker);
    // the consumer's in-flight recv() (registered with the waker) between Recv ops
    let mut pending = None;
    let mut repolled = false;

    let live = |handles: &Vec<Option<SeqHandle>>, main: &Option<(SampleStreamSource, Option<Arc<SampleStreamSource>>)>| -> bool {
        main.is_some() || handles.iter().any(|h| h.is_some())
    };

    for (i, op) in c.ops.iter().enumerate() {
        macro_rules! at {
            ($m:expr) => {
                format!("op #{i} {:?}: {} (model queue {:?}, stopped {stopped}, ended {ended})", op, $m, q)
            };
        }
        let live_before = live(&handles, &main);
        let (pushed_before, stopped_before) = (ctr.iter().sum::<u32>() as usize, stopped);
        let qlen_before = q.len();
        let mut rejected = 0usize;
        match *op {
            SOp::Send(p) | SOp::TrySend(p) => {
                let p = p as usize % n;
                let Some(h) = handles[p].as_ref() else { continue };
                let s = core::make_sample(c.video, salt, p as u8, ctr[p], &led, p * stride + ctr[p] as usize);
                let is_try = matches!(op, SOp::TrySend(_));
                let r = if is_try { h.src().try_send(s) } else { h.src().send(s) };
                if q.len() >= cap {
                    if is_try {
                        would_block = true;
                        rejected += 1;
                        ensure!(r == Err(MediaError::WouldBlock), "seq-try-send-full-not-wouldblock", "{}", at!(format!("queue full, expected WouldBlock, got {r:?}")));
                    } else {
                        overflowed = true;
                        ensure!(r == Ok(()), "seq-send-error-on-live-source", "{}", at!(format!("send on a live handle returned {r:?}")));
                        q.pop_front();
                        q.push_back((p as u8, ctr[p]));
                    }
                } else {
                    ensure!(r == Ok(()), "seq-send-error-on-live-source", "{}", at!(format!("push on a live handle with room returned {r:?}")));
                    q.push_back((p as u8, ctr[p]));
                }
                ctr[p] += 1;
            }
            SOp::SendMany(p, k) => {
                let p = p as usize % n;
                let Some(h) = handles[p].as_ref() else { continue };
                let v: Vec<MediaSample> = (0..k as u32)
                    .map(|j| core::make_sample(c.video, salt, p as u8, ctr[p] + j, &led, p * stride + (ctr[p] + j) as usize))
                    .collect();
                let r = h.src().send_many(v);
                ensure!(r == Ok(()), "seq-send-error-on-live-source", "{}", at!(format!("send_many on a live handle returned {r:?}")));
                for j in 0..k as u32 {
                    if q.len() >= cap {
                        overflowed = true;
                        q.pop_front();
                    }
                    q.push_back((p as u8, ctr[p] + j));
                }
                ctr[p] += k as u32;
            }
            SOp::CancelRecv => {
                pending = None;
            }
            SOp::Recv => {
                let mut fut = match pending.take() {
                    Some(f) => {
                        repolled = true;
                        f
                    }
                    None => track.recv(),
                };
                flag.0.store(false, Ordering::SeqCst);
                let r = fut.as_mut().poll(&mut cx);
                if r.is_pending() {
                    pending = Some(fut);
                }
                recv_n += 1;
                let closed = !live(&handles, &main);
                match r {
                    std::task::Poll::Ready(Ok(s)) => {
                        let id = core::verify_sample(c.video, salt, &s).map_err(|m| Fail::new("seq-corrupt-sample", at!(m)))?;
                        ensure!(!ended || stopped, "seq-sample-after-end-of-stream", "{}", at!(format!("got sample {id:?} after EndOfStream")));
                        // after stop() the statement allows either EndOfStream or the next sample
                        let front = q.pop_front();
                        ensure!(front == Some(id), "seq-wrong-sample", "{}", at!(format!("received {id:?}, model expects {front:?}")));
                    }
                    std::task::Poll::Ready(Err(MediaError::EndOfStream)) => {
                        if !(stopped || ended) {
                            ensure!(q.is_empty(), "seq-end-of-stream-before-drain", "{}", at!("EndOfStream with samples still queued"));
                            ensure!(closed, "seq-end-of-stream-while-open", "{}", at!("EndOfStream although a source handle is alive and stop() was not called"));
                            drained_eos = true;
                        }
                        ended = true;
                    }
                    std::task::Poll::Ready(Err(e)) => {
                        return Err(Fail::new("seq-unexpected-recv-error", at!(format!("recv returned Err({e:?})"))));
                    }
                    std::task::Poll::Pending => {
                        ensure!(!(stopped || ended), "seq-pending-after-end", "{}", at!("recv Pending although the track is stopped/ended"));
                        ensure!(q.is_empty(), "seq-pending-with-samples", "{}", at!("recv Pending although samples are queued"));
                        ensure!(!closed, "seq-pending-after-close", "{}", at!("recv Pending although every source handle is dropped"));
                    }
                }
            }
            SOp::Stop => {
                track.stop();
                stopped = true;
            }
            SOp::Drop(p) => {
                let p = p as usize % n;
                handles[p] = None;
            }
            SOp::DropMain => {
                main = None;
            }
        }
        // a registered consumer must be woken by every event it waits for
        if pending.is_some() {
            let pushed_ok = ctr.iter().sum::<u32>() as usize - pushed_before - rejected > 0;
            let closed_now = live_before && !live(&handles, &main);
            let stopped_now = stopped && !stopped_before;
            if pushed_ok || closed_now || stopped_now {
                ensure!(
                    flag.0.load(Ordering::SeqCst),
                    "seq-missed-wakeup",
                    "{}",
                    at!(format!("a recv() future is registered but was not woken (pushed {pushed_ok}, closed {closed_now}, stopped {stopped_now}, queue before {qlen_before})"))
                );
            }
        }
        // ledger == model: exactly the queued samples are alive
        let (_c, _o, pending_slots, dbl) = led.balance();
        ensure!(dbl.is_empty(), "seq-payload-double-free", "{}", at!(format!("ledger slots freed twice: {dbl:?}")));
        let mut want: Vec<usize> = q.iter().map(|(p, c)| *p as usize * stride + *c as usize).collect();
        want.sort();
        ensure!(
            pending_slots == want,
            if pending_slots.len() > want.len() { "seq-payload-leak" } else { "seq-payload-freed-early" },
            "{}",
            at!(format!("live payload slots {pending_slots:?} differ from the model queue slots {want:?}"))
        );
    }
    drop(pending);
    drop(handles);
    drop(main);
    drop(track);
    let (_c, _o, leaked, dbl) = led.balance();
    ensure!(leaked.is_empty(), "seq-payload-leak", "after teardown, ledger slots never freed: {leaked:?}");
    ensure!(dbl.is_empty(), "seq-payload-double-free", "after teardown, ledger slots freed twice: {dbl:?}");

    let multi = ctr.iter().filter(|c| **c > 0).count() >= 2;
    if multi {
        labels.push("seq:multi-producer".into());
    }
    if overflowed {
        labels.push("seq:overflow".into());
    }
    if would_block {
        labels.push("seq:would-block".into());
    }
    if stopped {
        labels.push("seq:stop".into());
    }
    if drained_eos {
        labels.push("seq:drained-then-eos".into());
    }
    if repolled {
        labels.push("seq:pending-recv-repolled".into());
    }
    if recv_n > 0 && c.cap == 1 {
        labels.push("seq:cap=1".into());
    }
    Ok((labels, multi || overflowed || stopped))
}

fn cap_strategy() -> impl Strategy<Value = u8> {
    prop_oneof![
        3 => Just(1u8),
        2 => Just(2u8),
        1 => Just(3u8),
        1 => Just(4u8),
        1 => Just(8u8),
        1 => Just(16u8),
        1 => Just(63u8),
        1 => Just(64u8),
        4 => 1..=64u8,
    ]
}

fn seq_strategy() -> impl Strategy<Value = SeqCase> {
    let op = prop_oneof![
        8 => (0..4u8).prop_map(SOp::Send),
        5 => (0..4u8).prop_map(SOp::TrySend),
        3 => (0..4u8, 1..=9u8).prop_map(|(p, k)| SOp::SendMany(p, k)),
        10 => Just(SOp::Recv),
        1 => Just(SOp::CancelRecv),
        2 => (0..4u8).prop_map(SOp::Drop),
        1 => Just(SOp::DropMain),
    ];
    (
        cap_strategy(),
        any::<bool>(),
        prop::collection::vec(any::<bool>(), 1..=4),
        prop::collection::vec(op, 1..70),
        // make "everything closed, then drain" common
        prop::bool::weighted(0.5),
        prop::option::weighted(0.3, any::<u16>()),
    )
        .prop_map(|(cap, video, shared, mut ops, close_all, stop_at)| {
            if let Some(f) = stop_at {
                let at = pick(f, ops.len() + 1);
                ops.insert(at, SOp::Stop);
            }
            if close_all {
                ops.push(SOp::DropMain);
                for p in 0..shared.len() as u8 {
                    ops.push(SOp::Drop(p));
                }
                for _ in 0..(cap as usize).min(6) + 2 {
                    ops.push(SOp::Recv);
                }
            }
            SeqCase { cap, video, shared, ops }
        })
}

// =============================================================================================
// script generator shared by the native engine
// =============================================================================================

#[derive(Clone, Debug, Serialize, Deserialize)]
pub struct NativeCase {
    /// text form of `c20_core::Script`
    pub script: String,
    pub reps: u32,
}

#[derive(Clone, Debug)]
struct GenProd {
    shared: bool,
    ops: Vec<POp>,
    drop_at: Option<u16>,
    stop_at: Option<u16>,
}

fn count_pushes(ops: &[POp]) -> usize {
    ops.iter()
        .map(|o| match *o {
            POp::Send | POp::TrySend => 1usize,
            POp::SendMany(k) => k as usize,
            _ => 0,
        })
        .sum()
}

fn pop_strategy() -> impl Strategy<Value = POp> {
    prop_oneof![
        9 => Just(POp::Send),
        5 => Just(POp::TrySend),
        3 => prop_oneof![Just(1u8), Just(2), Just(3), 1..=9u8].prop_map(POp::SendMany),
        2 => Just(POp::Yield),
        2 => (1..400u16).prop_map(POp::Spin),
        1 => (1..120u16).prop_map(POp::SleepUs),
    ]
}

fn cop_strategy() -> impl Strategy<Value = COp> {
    prop_oneof![
        6 => Just(COp::Recv),
        2 => Just(COp::Yield),
        2 => (1..400u16).prop_map(COp::Spin),
        1 => (1..200u16).prop_map(COp::SleepUs),
    ]
}

fn script_strategy(max_ops: usize, steer_mp: bool) -> impl Strategy<Value = Script> {
    let prod = move || {
        (
            any::<bool>(),
            prop::collection::vec(pop_strategy(), 1..=max_ops),
            prop::option::weighted(0.4, any::<u16>()),
        )
            .prop_map(|(shared, ops, drop_at)| GenProd { shared, ops, drop_at, stop_at: None })
    };
    (
        cap_strategy(),
        prop_oneof![35 => Just(1usize), 35 => Just(2usize), 15 => Just(3usize), 15 => Just(4usize)],
        [prod(), prod(), prod(), prod()],
        // stop(): by which thread (0..=3 producer, 4 consumer) and where
        prop::option::weighted(0.35, (0..5u8, any::<u16>())),
        prop::collection::vec(cop_strategy(), 0..5),
        any::<bool>(),
        any::<bool>(),
        0..1000u32,
    )
        .prop_map(move |(cap, n, prods, stop, pace, early, video, salt)| {
            let mut gp: Vec<GenProd> = prods.into_iter().take(n).collect();
            let mut stop_after = None;
            if let Some((who, frac)) = stop {
                if (who as usize) < gp.len() {
                    gp[who as usize].stop_at = Some(frac);
                } else {
                    let total: usize = gp.iter().map(|g| count_pushes(&g.ops)).sum();
                    stop_after = Some(pick(frac, total.min(cap as usize * 2 + 4) + 1) as u16);
                }
            }
            let producers: Vec<Prod> = gp
                .into_iter()
                .map(|g| {
                    let mut ops = g.ops;
                    if let Some(f) = g.stop_at {
                        let at = pick(f, ops.len() + 1);
                        ops.insert(at, POp::Stop);
                    }
                    if let Some(f) = g.drop_at {
                        let at = pick(f, ops.len() + 1);
                        ops.insert(at, POp::DropSrc);
                    }
                    Prod { shared: g.shared, ops }
                })
                .collect();
            let mut full_pace = vec![COp::Recv];
            full_pace.extend(pace);
            let mut sc = Script { cap: cap as usize, video, early, ser: false, salt, producers, pace: full_pace, stop_after };
            sc.ser = steer_mp && sc.pushing_producers() >= 2;
            sc
        })
}

// =============================================================================================
// sub-check 2: native engine (child processes)
// =============================================================================================

/// What the child reports for one script after all repetitions.
#[derive(Clone, Debug, Default, Serialize, Deserialize)]
struct ScriptResult {
    reps_done: u32,
    /// distinct oracle failures over all repetitions: (signature, message, repetition)
    fails: Vec<(String, String, u32)>,
    created: u64,
    accepted: u64,
    received: u64,
    would_block: u64,
    waits: u64,
    overflow_lost: u64,
    left_at_teardown: u64,
    stop_mid: u32,
    drop_mid: u32,
    stop_executed: u32,
}

/// What the child reports for one sequential case.
#[derive(Clone, Debug, Default, Serialize, Deserialize)]
struct SeqResult {
    fail: Option<(String, String)>,
    labels: Vec<String>,
    nt: bool,
}

fn child_native(sc_text: &str, reps: u32) -> ScriptResult {
    let mut res = ScriptResult::default();
    match Script::from_text(sc_text) {
        Err(e) => res.fails.push(("bad-script".into(), e, 0)),
        Ok(sc) => {
            for r in 0..reps {
                let before = engine::panics::count();
                let outc = std::panic::catch_unwind(|| core::execute(&sc));
                res.reps_done += 1;
                match outc {
                    Ok(o) => {
                        for (sig, msg) in o.fails {
                            if !res.fails.iter().any(|(s, _, _)| *s == sig) {
                                res.fails.push((sig, msg, r));
                            }
                        }
                        let s = o.stats;
                        res.created += s.created as u64;
                        res.accepted += s.accepted as u64;
                        res.received += s.received as u64;
                        res.would_block += s.would_block as u64;
                        res.waits += s.waits as u64;
                        res.overflow_lost += s.overflow_lost as u64;
                        res.left_at_teardown += s.left_at_teardown as u64;
                        res.stop_mid += s.stop_mid as u32;
                        res.drop_mid += s.drop_mid as u32;
                        res.stop_executed += s.stop_executed as u32;
                    }
                    Err(_) => {
                        let p = engine::panics::since(before).into_iter().next_back();
                        let (loc, msg) = p.unwrap_or_else(|| ("?".into(), "panic".into()));
                        let sig = format!("panic@{loc}");
                        if !res.fails.iter().any(|(s, _, _)| *s == sig) {
                            res.fails.push((sig, format!("panic at {loc}: {msg}"), r));
                        }
                    }
                }
                // thread panics inside execute() are reported as "thread-panicked"; add where
                if let Some(f) = res.fails.iter_mut().find(|(s, _, _)| s.starts_with("thread-panicked")) {
                    if let Some((loc, msg)) = engine::panics::since(before).into_iter().next() {
                        f.0 = format!("panic@{loc}");
                        f.1 = format!("{} (panic at {loc}: {msg})", f.1);
                    }
                }
            }
        }
    }
    res
}

fn child_seq(c: &SeqCase) -> SeqResult {
    let mut info: Option<(Vec<String>, bool)> = None;
    let r = engine::guarded(|| {
        info = Some(seq_check(c)?);
        Ok(())
    });
    let (labels, nt) = info.unwrap_or_default();
    SeqResult { fail: r.err().map(|f| (f.signature, f.msg)), labels, nt }
}

/// Sub-check name (= RNG stream) of sequential chunk `k`.
fn seq_chunk_sub(k: usize) -> String {
    format!("sequential#{k}")
}

/// Child mode. The batch file has one work item per line:
///   `N <script text>`            native script, RTCVERIF_C20_REPS repetitions
///   `Q <SeqCase json>`           one explicit sequential case
///   `G <chunk> <count> <start>`  sequential cases start..count of chunk's own seeded stream
/// For every unit of work `B <key>` is printed (and flushed) before it starts and
/// `R <key> <json>` after it finished, so the parent can attribute a crash. `E` ends the run.
fn child_main(ctx: &Ctx, path: &str) -> ! {
    let reps: u32 = std::env::var("RTCVERIF_C20_REPS").ok().and_then(|s| s.parse().ok()).unwrap_or(1);
    let text = std::fs::read_to_string(path).unwrap_or_else(|e| {
        eprintln!("c20 child: cannot read {path}: {e}");
        crate::engine::exit_trouble()
    });
    let out = std::io::stdout();
    let emit = |s: String| {
        let mut o = out.lock();
        let _ = writeln!(o, "{s}");
        let _ = o.flush();
    };
    for (idx, line) in text.lines().enumerate() {
        let Some((tag, body)) = line.split_once(' ') else { continue };
        match tag {
            "N" => {
                emit(format!("B {idx}"));
                let res = child_native(body, reps);
                emit(format!("R {idx} {}", serde_json::to_string(&res).unwrap()));
            }
            "Q" => {
                emit(format!("B {idx}"));
                let res = match serde_json::from_str::<SeqCase>(body) {
                    Ok(c) => child_seq(&c),
                    Err(e) => SeqResult { fail: Some(("bad-case".into(), e.to_string())), ..Default::default() },
                };
                emit(format!("R {idx} {}", serde_json::to_string(&res).unwrap()));
            }
            "G" => {
                let nums: Vec<usize> = body.split_whitespace().filter_map(|x| x.parse().ok()).collect();
                if nums.len() != 3 {
                    continue;
                }
                let (chunk, count, start) = (nums[0], nums[1], nums[2]);
                let strat = seq_strategy();
                let mut runner = proptest::test_runner::TestRunner::new(ctx.config(&seq_chunk_sub(chunk), count as u32));
                for i in 0..count {
                    let tree = strat.new_tree(&mut runner).expect("strategy rejected");
                    if i < start {
                        continue;
                    }
                    let c = tree.current();
                    emit(format!("B g{chunk}.{i}"));
                    let res = child_seq(&c);
                    emit(format!("R g{chunk}.{i} {}", serde_json::to_string(&res).unwrap()));
                }
            }
            _ => {}
        }
    }
    emit("E".into());
    std::process::exit(0)
}

enum ChildEnd {
    /// exited 0 after printing E
    Clean,
    /// died (signal / abort / non-zero) while the unit `key` was running; `last` = the unit that
    /// finished most recently (heap corruption is often detected only by a later allocation)
    Crashed { key: Option<String>, last: Option<String>, how: String },
    /// watchdog expired while the unit `key` was running
    Hung { key: Option<String> },
    /// could not even be started
    Tool(String),
}

/// Run the work items `lines` in one child. Returns the finished units (key, json) and how it ended.
fn run_child(lines: &[String], reps: u32, timeout: Duration, tag: &str) -> (Vec<(String, Value)>, ChildEnd) {
    static SEQ: AtomicUsize = AtomicUsize::new(0);
    let mut results: Vec<(String, Value)> = Vec::new();
    let exe = match std::env::current_exe() {
        Ok(e) => e,
        Err(e) => return (results, ChildEnd::Tool(format!("current_exe: {e}"))),
    };
    let file = std::env::temp_dir().join(format!(
        "rtcverif-c20-{}-{}-{}.txt",
        std::process::id(),
        tag,
        SEQ.fetch_add(1, Ordering::Relaxed)
    ));
    if let Err(e) = std::fs::write(&file, lines.join("\n")) {
        return (results, ChildEnd::Tool(format!("write batch file: {e}")));
    }
    let child = Command::new(&exe)
        .args(["run", "C20", "--tier", "quick"])
        .env("RTCVERIF_C20_CHILD", &file)
        .env("RTCVERIF_C20_REPS", reps.to_string())
        .stdin(Stdio::null())
        .stdout(Stdio::piped())
        .stderr(Stdio::piped())
        .spawn();
    let mut child = match child {
        Ok(c) => c,
        Err(e) => {
            let _ = std::fs::remove_file(&file);
            return (results, ChildEnd::Tool(format!("spawn child: {e}")));
        }
    };
    let mut so = child.stdout.take().unwrap();
    let mut se = child.stderr.take().unwrap();
    let t_out = std::thread::spawn(move || {
        // lossy: a child with a corrupted heap may print garbage
        let mut s = Vec::new();
        let _ = so.read_to_end(&mut s);
        String::from_utf8_lossy(&s).into_owned()
    });
    let t_err = std::thread::spawn(move || {
        let mut s = Vec::new();
        let _ = se.read_to_end(&mut s);
        String::from_utf8_lossy(&s).into_owned()
    });
    let start = Instant::now();
    let mut hung = false;
    let status = loop {
        match child.try_wait() {
            Ok(Some(st)) => break Some(st),
            Ok(None) => {
                if start.elapsed() > timeout {
                    hung = true;
                    let _ = child.kill();
                    break child.wait().ok();
                }
                std::thread::sleep(Duration::from_millis(3));
            }
            Err(_) => break None,
        }
    };
    let stdout = t_out.join().unwrap_or_default();
    let stderr = t_err.join().unwrap_or_default();
    let _ = std::fs::remove_file(&file);

    let mut began: Option<String> = None;
    let mut last: Option<String> = None;
    let mut clean = false;
    for line in stdout.lines() {
        if let Some(r) = line.strip_prefix("B ") {
            began = Some(r.trim().to_string());
        } else if let Some(r) = line.strip_prefix("R ") {
            if let Some((k, js)) = r.split_once(' ') {
                if let Ok(v) = serde_json::from_str::<Value>(js) {
                    results.push((k.to_string(), v));
                    last = Some(k.to_string());
                    if began.as_deref() == Some(k) {
                        began = None;
                    }
                }
            }
        } else if line == "E" {
            clean = true;
        }
    }
    if hung {
        return (results, ChildEnd::Hung { key: began });
    }
    let ok = status.map(|s| s.success()).unwrap_or(false);
    if ok && clean {
        return (results, ChildEnd::Clean);
    }
    let how = {
        #[cfg(unix)]
        let sig = {
            use std::os::unix::process::ExitStatusExt;
            status.and_then(|s| s.signal())
        };
        #[cfg(not(unix))]
        let sig: Option<i32> = None;
        let tail: String = {
            let t: Vec<&str> = stderr.lines().rev().take(6).collect();
            t.into_iter().rev().collect::<Vec<_>>().join(" | ")
        };
        match (sig, status.and_then(|s| s.code())) {
            (Some(s), _) => format!("killed by signal {s}; stderr: {tail}"),
            (None, Some(c)) => format!("exit code {c}; stderr: {tail}"),
            _ => format!("unknown status; stderr: {tail}"),
        }
    };
    (results, ChildEnd::Crashed { key: began, last, how })
}

/// Fate of one unit of work handed to a child.
#[derive(Clone, Debug)]
enum Unit<T> {
    /// not evaluated (the run was cut short after enough failures, or the child never got there)
    NotRun,
    /// the watchdog killed the child while this unit was running (inconclusive)
    Hung,
    Done(T),
    /// the child died in (or right after) this unit
    Crashed(String),
}

/// After this many failed/crashed units the engines stop spawning children: the run is already a
/// violation and mutated/corrupting code would otherwise crash-restart for every single case.
const BAD_UNIT_BUDGET: usize = 24;
static BAD_UNITS: AtomicUsize = AtomicUsize::new(0);
/// the budget only applies to the bulk phase of a sub-check, not to replay / shrink runs
static BUDGET_ON: std::sync::atomic::AtomicBool = std::sync::atomic::AtomicBool::new(false);

fn budget_exhausted() -> bool {
    BUDGET_ON.load(Ordering::Relaxed) && BAD_UNITS.load(Ordering::Relaxed) >= BAD_UNIT_BUDGET
}

fn budget_phase(on: bool) {
    BAD_UNITS.store(0, Ordering::Relaxed);
    BUDGET_ON.store(on, Ordering::Relaxed);
}

#[derive(Default)]
struct NativeTotals {
    executions: u64,
    crashes: u64,
    hangs: u64,
    tool_errors: Vec<String>,
}

impl NativeTotals {
    fn absorb(&mut self, o: NativeTotals) {
        self.executions += o.executions;
        self.crashes += o.crashes;
        self.hangs += o.hangs;
        self.tool_errors.extend(o.tool_errors);
    }
}

/// Run explicit work items (`N`/`Q` lines) through children, restarting behind a crashed or hung
/// item.
fn run_items(lines: &[String], reps: u32, timeout: Duration, tag: &str, tot: &mut NativeTotals) -> Vec<Unit<Value>> {
    let mut out: Vec<Unit<Value>> = vec![Unit::NotRun; lines.len()];
    let mut start = 0usize;
    while start < lines.len() && !budget_exhausted() {
        let (res, end) = run_child(&lines[start..], reps, timeout, tag);
        for (k, v) in res {
            if let Ok(i) = k.parse::<usize>() {
                if start + i < out.len() {
                    if unit_failed(&v) {
                        BAD_UNITS.fetch_add(1, Ordering::Relaxed);
                    }
                    out[start + i] = Unit::Done(v);
                }
            }
        }
        let key_idx = |k: &Option<String>| k.as_ref().and_then(|k| k.parse::<usize>().ok());
        match end {
            ChildEnd::Clean => break,
            ChildEnd::Crashed { key, last, how } => {
                tot.crashes += 1;
                BAD_UNITS.fetch_add(1, Ordering::Relaxed);
                match (key_idx(&key), key_idx(&last)) {
                    (Some(i), _) => {
                        out[start + i] = Unit::Crashed(how);
                        start += i + 1;
                    }
                    (None, Some(i)) => {
                        // died between two items: blame the one that just finished unless it
                        // already reported a failure of its own
                        if !matches!(&out[start + i], Unit::Done(v) if unit_failed(v)) {
                            out[start + i] = Unit::Crashed(format!("{how} (the child died right after this item completed)"));
                        }
                        start += i + 1;
                    }
                    (None, None) => {
                        tot.tool_errors.push(format!("child died outside any work item: {how}"));
                        break;
                    }
                }
            }
            ChildEnd::Hung { key } => {
                tot.hangs += 1;
                match key_idx(&key) {
                    Some(i) => {
                        out[start + i] = Unit::Hung;
                        start += i + 1;
                    }
                    None => break,
                }
            }
            ChildEnd::Tool(e) => {
                tot.tool_errors.push(e);
                break;
            }
        }
    }
    out
}

/// did this finished unit report an oracle failure itself?
fn unit_failed(v: &Value) -> bool {
    v.get("fails").and_then(|f| f.as_array()).map_or(false, |a| !a.is_empty()) || v.get("fail").map_or(false, |f| !f.is_null())
}

fn run_scripts(scripts: &[String], reps: u32, timeout: Duration, tag: &str, tot: &mut NativeTotals) -> Vec<Unit<ScriptResult>> {
    let lines: Vec<String> = scripts.iter().map(|s| format!("N {s}")).collect();
    run_items(&lines, reps, timeout, tag, tot)
        .into_iter()
        .map(|r| match r {
            Unit::NotRun => Unit::NotRun,
            Unit::Hung => Unit::Hung,
            Unit::Crashed(e) => Unit::Crashed(e),
            Unit::Done(v) => match serde_json::from_value::<ScriptResult>(v) {
                Ok(mut sr) => {
                    tot.executions += sr.reps_done as u64;
                    for f in sr.fails.iter_mut() {
                        f.0 = clean_sig(&f.0);
                    }
                    Unit::Done(sr)
                }
                Err(e) => Unit::Crashed(format!("unparsable result from the child (corrupted output?): {e}")),
            },
        })
        .collect()
}

/// A child with a corrupted heap can print garbage; never let that become a signature.
fn clean_sig(s: &str) -> String {
    if !s.is_empty() && s.len() < 120 && s.chars().all(|c| c.is_ascii_graphic() || c == ' ') {
        s.to_string()
    } else {
        "corrupted-child-output".to_string()
    }
}

// ---------------------------------------------------------------------------------------------
// sequential sub-check driver (cases are evaluated in child processes: a ring bug can corrupt
// the heap even on one thread, and that must be reported, not kill the harness)
// ---------------------------------------------------------------------------------------------

fn seq_verdict(r: &Unit<SeqResult>, rec: &CaseRec) -> Check {
    match r {
        Unit::NotRun | Unit::Hung => {
            rec.inconclusive_timing();
            rec.label("seq:child-hang-inconclusive");
            Ok(())
        }
        Unit::Crashed(how) => Err(Fail::new("seq-child-crash", format!("child process evaluating this single-threaded op sequence died: {how}"))),
        Unit::Done(sr) => {
            for l in &sr.labels {
                rec.label(l.clone());
            }
            rec.set_nontrivial(sr.nt);
            match &sr.fail {
                None => Ok(()),
                Some((s, m)) => Err(Fail::new(clean_sig(s), m.clone())),
            }
        }
    }
}

/// One explicit sequential case in its own child.
fn seq_check_one(c: &SeqCase, rec: &CaseRec, timeout: Duration) -> Check {
    let mut tot = NativeTotals::default();
    let line = format!("Q {}", serde_json::to_string(c).unwrap());
    let r = run_items(&[line], 1, timeout, "seq1", &mut tot);
    if let Some(e) = tot.tool_errors.first() {
        eprintln!("harness: C20 sequential child could not run: {e}");
        crate::engine::exit_trouble();
    }
    let r: Unit<SeqResult> = match r.into_iter().next().unwrap_or(Unit::NotRun) {
        Unit::NotRun => Unit::NotRun,
        Unit::Hung => Unit::Hung,
        Unit::Crashed(e) => Unit::Crashed(e),
        Unit::Done(v) => match serde_json::from_value::<SeqResult>(v) {
            Ok(sr) => Unit::Done(sr),
            Err(e) => Unit::Crashed(format!("unparsable result from the child: {e}")),
        },
    };
    seq_verdict(&r, rec)
}

/// All cases of one chunk, restarting behind a crash. Index = position in the chunk.
fn run_seq_chunk(chunk: usize, count: usize, timeout: Duration, tot: &mut NativeTotals) -> Vec<Unit<SeqResult>> {
    let mut out: Vec<Unit<SeqResult>> = vec![Unit::NotRun; count];
    let mut start = 0usize;
    let prefix = format!("g{chunk}.");
    while start < count && !budget_exhausted() {
        let (res, end) = run_child(&[format!("G {chunk} {count} {start}")], 1, timeout, "seq");
        for (k, v) in res {
            if let Some(i) = k.strip_prefix(&prefix).and_then(|x| x.parse::<usize>().ok()) {
                if i < count {
                    if unit_failed(&v) {
                        BAD_UNITS.fetch_add(1, Ordering::Relaxed);
                    }
                    out[i] = match serde_json::from_value::<SeqResult>(v) {
                        Ok(sr) => Unit::Done(sr),
                        Err(e) => Unit::Crashed(format!("unparsable result from the child (corrupted output?): {e}")),
                    };
                }
            }
        }
        let key_idx = |k: &Option<String>| k.as_ref().and_then(|k| k.strip_prefix(&prefix)).and_then(|x| x.parse::<usize>().ok());
        match end {
            ChildEnd::Clean => break,
            ChildEnd::Crashed { key, last, how } => {
                tot.crashes += 1;
                BAD_UNITS.fetch_add(1, Ordering::Relaxed);
                match (key_idx(&key), key_idx(&last)) {
                    (Some(i), _) => {
                        out[i] = Unit::Crashed(how);
                        start = i + 1;
                    }
                    (None, Some(i)) => {
                        if !matches!(&out[i], Unit::Done(sr) if sr.fail.is_some()) {
                            out[i] = Unit::Crashed(format!("{how} (the child died right after this case completed)"));
                        }
                        start = i + 1;
                    }
                    (None, None) => {
                        tot.tool_errors.push(format!("child for `G {chunk} {count} {start}` died outside any case: {how}"));
                        break;
                    }
                }
            }
            ChildEnd::Hung { key } => {
                tot.hangs += 1;
                match key_idx(&key) {
                    Some(i) => {
                        out[i] = Unit::Hung;
                        start = i + 1;
                    }
                    None => break,
                }
            }
            ChildEnd::Tool(e) => {
                tot.tool_errors.push(e);
                break;
            }
        }
    }
    out
}

fn run_sequential(ctx: &Ctx) -> bool {
    let sub = "sequential";
    let n_total = ctx.scale(60_000usize, 1_000_000usize);
    let chunk_size = ctx.scale(1_500usize, 10_000usize);
    let timeout = Duration::from_secs(ctx.scale(60, 300));
    if ctx.is_replay() {
        if let Some(c) = ctx.replay_case::<SeqCase>(sub) {
            if ctx.run_one(sub, &c, &|c, rec| seq_check_one(c, rec, timeout)) {
                println!("replay: property=C20 sub=sequential PASS");
            }
        }
        return true;
    }
    for c in ctx.regression_cases::<SeqCase>(sub) {
        ctx.run_one(sub, &c, &|c, rec| seq_check_one(c, rec, timeout));
    }
    let n_chunks = n_total.div_ceil(chunk_size);
    budget_phase(true);
    let workers = std::thread::available_parallelism().map(|x| x.get()).unwrap_or(8).min(16);
    let next = AtomicUsize::new(0);
    let results: parking_lot::Mutex<Vec<Vec<Unit<SeqResult>>>> = parking_lot::Mutex::new(vec![Vec::new(); n_chunks]);
    let totals: parking_lot::Mutex<NativeTotals> = parking_lot::Mutex::new(NativeTotals::default());
    std::thread::scope(|s| {
        for _ in 0..workers {
            let (next, results, totals) = (&next, &results, &totals);
            s.spawn(move || {
                loop {
                    let k = next.fetch_add(1, Ordering::Relaxed);
                    if k >= n_chunks || budget_exhausted() {
                        break;
                    }
                    let count = chunk_size.min(n_total - k * chunk_size);
                    let mut tot = NativeTotals::default();
                    let r = run_seq_chunk(k, count, timeout, &mut tot);
                    results.lock()[k] = r;
                    totals.lock().absorb(tot);
                }
            });
        }
    });
    budget_phase(false);
    let results = results.into_inner();
    let totals = totals.into_inner();
    if let Some(e) = totals.tool_errors.first() {
        eprintln!("harness: C20 sequential engine failed (not a verdict): {e}");
        crate::engine::exit_trouble();
    }
    // re-derive the cases (same seeded streams as the children) to record them
    let strat = seq_strategy();
    let mut reported: Vec<String> = Vec::new();
    for k in 0..n_chunks {
        let count = chunk_size.min(n_total - k * chunk_size);
        let mut runner = proptest::test_runner::TestRunner::new(ctx.config(&seq_chunk_sub(k), count as u32));
        for i in 0..count {
            let mut tree = strat.new_tree(&mut runner).expect("strategy rejected");
            let case = tree.current();
            let v = serde_json::to_value(&case).unwrap();
            let unit = results[k].get(i).unwrap_or(&Unit::NotRun);
            if matches!(unit, Unit::NotRun) {
                continue; // run cut short: not evaluated, not counted
            }
            let rec = CaseRec::default();
            let res = seq_verdict(unit, &rec);
            if let Err(f) = ctx.record(sub, &v, &rec, &res) {
                if reported.contains(&f.signature) || reported.len() >= 5 {
                    continue;
                }
                reported.push(f.signature.clone());
                let sig = f.signature.clone();
                let mut last_fail = f.clone();
                let min = ctx.shrink_tree(&mut tree, ctx.scale(300, 1500), |cand: &SeqCase| {
                    let rec = CaseRec::default();
                    match seq_check_one(cand, &rec, timeout) {
                        Err(f2) if f2.signature == sig => {
                            last_fail = f2;
                            true
                        }
                        _ => false,
                    }
                });
                ctx.violation(sub, &serde_json::to_value(&min).unwrap(), &last_fail);
            }
        }
    }
    ctx.add_extra_count("sequential_child_crashes", totals.crashes);
    ctx.add_extra_count("sequential_child_hangs", totals.hangs);
    totals.hangs == 0
}

fn native_labels(sc: &Script, r: &ScriptResult, rec: &CaseRec) {
    let n = sc.producers.len();
    rec.label(format!("native:producers={n}"));
    rec.label(match sc.cap {
        1 => "native:cap=1",
        2..=4 => "native:cap=2-4",
        5..=62 => "native:cap=5-62",
        _ => "native:cap=63-64",
    });
    let sh = sc.producers.iter().filter(|p| p.shared).count();
    if n >= 2 {
        rec.label(if sh == n { "native:handles=all-arc-shared" } else if sh == 0 { "native:handles=all-cloned" } else { "native:handles=mixed" });
    }
    if sc.ser {
        rec.label("native:producers-serialised-by-harness");
    }
    if sc.concurrent_producers() {
        rec.label("native:producers-concurrent");
    }
    if r.overflow_lost > 0 {
        rec.label("native:overflow-observed");
    }
    if r.would_block > 0 {
        rec.label("native:would-block-observed");
    }
    if r.stop_mid > 0 {
        rec.label("native:stop-mid-stream");
    }
    if r.stop_executed > 0 && r.left_at_teardown > 0 {
        rec.label("native:samples-left-in-ring-at-teardown");
    }
    if r.drop_mid > 0 {
        rec.label("native:drop-mid-stream");
    }
    if r.waits > 0 {
        rec.label("native:consumer-waited");
    }
    if sc.video {
        rec.label("native:video");
    }
    rec.set_nontrivial(n >= 2 || r.overflow_lost > 0 || r.would_block > 0 || r.stop_mid > 0 || r.drop_mid > 0);
}

/// Turn a child's report for one script into a Check (first failure that is not a known finding
/// wins, so a known finding cannot mask a new one in the same execution).
fn native_verdict(ctx: &Ctx, sc: &Script, r: &Unit<ScriptResult>, rec: &CaseRec) -> Check {
    match r {
        Unit::NotRun | Unit::Hung => {
            rec.inconclusive_timing();
            rec.label("native:child-hang-inconclusive");
            Ok(())
        }
        Unit::Crashed(how) => {
            let sig = if sc.concurrent_producers() { "child-crash [multi-producer-unserialised]" } else { "child-crash" };
            Err(Fail::new(sig, format!("child process running this script died: {how}")))
        }
        Unit::Done(res) => {
            native_labels(sc, res, rec);
            if res.fails.is_empty() {
                return Ok(());
            }
            let f = res.fails.iter().find(|(s, _, _)| !ctx.is_known(s)).unwrap_or(&res.fails[0]);
            Err(Fail::new(f.0.clone(), format!("{} (repetition {} of {})", f.1, f.2, res.reps_done)))
        }
    }
}

/// Single-case check (replay / regression / shrinking): one child for one script.
fn native_check_one(ctx: &Ctx, c: &NativeCase, rec: &CaseRec, timeout: Duration) -> Check {
    let sc = Script::from_text(&c.script).map_err(|e| Fail::new("bad-script", e))?;
    let mut tot = NativeTotals::default();
    let r = run_scripts(&[c.script.clone()], c.reps, timeout, "one", &mut tot);
    if let Some(e) = tot.tool_errors.first() {
        eprintln!("harness: C20 native child could not run: {e}");
        crate::engine::exit_trouble();
    }
    native_verdict(ctx, &sc, &r[0], rec)
}

fn run_native(ctx: &Ctx, steer_mp: bool) -> bool {
    let sub = "native";
    let (n_scripts, reps, max_ops) = ctx.scale((2000usize, 20u32, 30usize), (8000usize, 50u32, 60usize));
    let timeout = Duration::from_secs(ctx.scale(30, 120));
    if ctx.is_replay() {
        if let Some(c) = ctx.replay_case::<NativeCase>(sub) {
            // schedules are sampled: give a replay many more repetitions than the original run
            let c = NativeCase { reps: c.reps.max(20) * 10, ..c };
            if ctx.run_one(sub, &c, &|c, rec| native_check_one(ctx, c, rec, timeout)) {
                println!("replay: property=C20 sub=native PASS ({} repetitions; schedules are sampled)", c.reps);
            }
        }
        return true;
    }
    for c in ctx.regression_cases::<NativeCase>(sub) {
        let c = NativeCase { reps: c.reps.max(20) * 5, ..c };
        ctx.run_one(sub, &c, &|c, rec| native_check_one(ctx, c, rec, timeout));
    }

    let strat = script_strategy(max_ops, steer_mp).prop_map(move |sc| NativeCase { script: sc.to_text(), reps });
    let mut trees = ctx.draw(sub, n_scripts, &strat);
    let cases: Vec<NativeCase> = trees.iter().map(|t| t.current()).collect();
    let scripts: Vec<Script> = cases.iter().map(|c| Script::from_text(&c.script).expect("generated script parses")).collect();
    let steered = scripts.iter().filter(|s| s.ser).count() as u64;
    if steered > 0 {
        ctx.note_excluded(SIG_MP, steered);
    }

    // batches over worker threads, one child per batch
    budget_phase(true);
    let workers = std::thread::available_parallelism().map(|x| x.get()).unwrap_or(8).min(16);
    let batch = (n_scripts / (workers * 4)).clamp(4, 64);
    let batches: Vec<(usize, Vec<String>)> = cases
        .chunks(batch)
        .enumerate()
        .map(|(i, ch)| (i * batch, ch.iter().map(|c| c.script.clone()).collect()))
        .collect();
    let next = AtomicUsize::new(0);
    let results: parking_lot::Mutex<Vec<Unit<ScriptResult>>> = parking_lot::Mutex::new(vec![Unit::NotRun; n_scripts]);
    let totals: parking_lot::Mutex<NativeTotals> = parking_lot::Mutex::new(NativeTotals::default());
    std::thread::scope(|s| {
        for w in 0..workers {
            let (batches, next, results, totals) = (&batches, &next, &results, &totals);
            s.spawn(move || {
                loop {
                    let k = next.fetch_add(1, Ordering::Relaxed);
                    if k >= batches.len() || budget_exhausted() {
                        break;
                    }
                    let (base, scripts) = &batches[k];
                    let mut tot = NativeTotals::default();
                    let r = run_scripts(scripts, reps, timeout, &format!("w{w}"), &mut tot);
                    let mut g = results.lock();
                    for (i, x) in r.into_iter().enumerate() {
                        g[base + i] = x;
                    }
                    totals.lock().absorb(tot);
                }
            });
        }
    });
    budget_phase(false);
    let results = results.into_inner();
    let totals = totals.into_inner();
    if let Some(e) = totals.tool_errors.first() {
        eprintln!("harness: C20 native engine failed (not a verdict): {e}");
        crate::engine::exit_trouble();
    }

    let mut reported: Vec<String> = Vec::new();
    for i in 0..n_scripts {
        if matches!(&results[i], Unit::NotRun) {
            continue; // run cut short after enough failures: not evaluated, not counted
        }
        let rec = CaseRec::default();
        let v = serde_json::to_value(&cases[i]).unwrap();
        let res: Check = native_verdict(ctx, &scripts[i], &results[i], &rec);
        if let Err(f) = ctx.record(sub, &v, &rec, &res) {
            if reported.contains(&f.signature) || reported.len() >= 5 {
                continue; // one replay per distinct signature is enough
            }
            reported.push(f.signature.clone());
            // shrink with a bounded number of child runs; a candidate "fails" if the same
            // signature shows up again within 3x the repetitions
            let sig = f.signature.clone();
            let min = ctx.shrink_tree(&mut trees[i], 24, |cand: &NativeCase| {
                let Ok(sc) = Script::from_text(&cand.script) else { return false };
                let mut tot = NativeTotals::default();
                let r = run_scripts(&[cand.script.clone()], cand.reps * 3, timeout, "shrink", &mut tot);
                matches!(native_verdict(ctx, &sc, &r[0], &CaseRec::default()), Err(f2) if f2.signature == sig)
            });
            let mv = serde_json::to_value(&min).unwrap();
            if mv != v {
                let f2 = Fail::new(f.signature.clone(), format!("{} [shrunk from a larger script; message is from the original]", f.msg));
                ctx.violation(sub, &mv, &f2);
            } else {
                ctx.violation(sub, &v, &f);
            }
        }
    }
    let samples: Vec<Value> = (0..n_scripts)
        .filter(|i| scripts[*i].producers.len() >= 2 && scripts[*i].has_stop())
        .take(2)
        .map(|i| json!({"script": cases[i].script, "reps": cases[i].reps, "result": match &results[i] { Unit::Done(r) => serde_json::to_value(r).unwrap_or(Value::Null), _ => Value::Null }}))
        .collect();
    ctx.bulk(sub, 0, 0, &[], samples);
    ctx.add_extra_count("native_executions", totals.executions);
    ctx.add_extra_count("native_child_crashes", totals.crashes);
    ctx.add_extra_count("native_child_hangs", totals.hangs);
    ctx.set_extra("native_repetitions_per_script", json!(reps));
    totals.hangs == 0
}

// =============================================================================================
// sub-check 3: Miri
// =============================================================================================

#[derive(Clone, Debug, Serialize, Deserialize)]
pub struct MiriCase {
    pub shape: String,
    /// text form of `c20_core::Script`
    pub script: String,
    pub seed: u32,
    /// -Zmiri-preemption-rate in percent
    pub rate_pct: u8,
    /// deliberately unserialised multi-producer run that only looks for the known push race
    #[serde(default)]
    pub confirm: bool,
}

const MIRI_MAIN: &str = include_str!("c20_miri/main.rs");
const MIRI_CORE: &str = include_str!("../refimpl/c20_core.rs");
const HARNESS_CARGO_TOML: &str = include_str!("../../Cargo.toml");

/// Path of the rustrtc tree this harness was built against (so a mutated work tree is also the
/// one Miri interprets).
fn rustrtc_path() -> String {
    for line in HARNESS_CARGO_TOML.lines() {
        let l = line.trim();
        if l.starts_with("rustrtc") {
            if let Some(i) = l.find("path") {
                let rest = &l[i..];
                if let Some(a) = rest.find('"') {
                    if let Some(b) = rest[a + 1..].find('"') {
                        return rest[a + 1..a + 1 + b].to_string();
                    }
                }
            }
        }
    }
    "/repo".to_string()
}

fn miri_dir() -> PathBuf {
    if let Ok(d) = std::env::var("VERIF_C20_MIRI_DIR") {
        return PathBuf::from(d);
    }
    let root = PathBuf::from(engine::verif_root());
    if root.file_name().and_then(|f| f.to_str()) == Some("root") {
        // scratch work copy: /verif/work/c20/root -> /verif/work/c20/miri
        return root.parent().unwrap_or(&root).join("miri");
    }
    root.join("miri").join("c20")
}

fn write_if_changed(p: &Path, content: &str) -> std::io::Result<()> {
    if std::fs::read_to_string(p).ok().as_deref() == Some(content) {
        return Ok(());
    }
    if let Some(d) = p.parent() {
        std::fs::create_dir_all(d)?;
    }
    std::fs::write(p, content)
}

/// (Re)materialise the Miri crate from the sources embedded in this binary.
fn ensure_miri_crate(dir: &Path) -> Result<(), String> {
    let repo = rustrtc_path();
    let toml = format!(
        "# generated by rtcverif C20 (harness/src/props/c20.rs); do not edit\n[package]\nname = \"c20miri\"\nversion = \"0.1.0\"\nedition = \"2024\"\n\n[workspace]\n\n[dependencies]\nrustrtc = {{ path = \"{repo}\", features = [\"verif\"] }}\nbytes = \"1\"\n\n[profile.dev]\nopt-level = 0\ndebug = 1\n"
    );
    let e = |x: std::io::Error| format!("materialising Miri crate in {}: {x}", dir.display());
    write_if_changed(&dir.join("Cargo.toml"), &toml).map_err(e)?;
    write_if_changed(&dir.join(".cargo/config.toml"), "[net]\noffline = true\n").map_err(e)?;
    write_if_changed(&dir.join("src/main.rs"), MIRI_MAIN).map_err(e)?;
    write_if_changed(&dir.join("src/c20_core.rs"), MIRI_CORE).map_err(e)?;
    if !dir.join("Cargo.lock").exists() {
        std::fs::copy(Path::new(&repo).join("Cargo.lock"), dir.join("Cargo.lock")).map_err(e)?;
    }
    Ok(())
}

struct MiriRun {
    code: Option<i32>,
    stdout: String,
    stderr: String,
    timed_out: bool,
}

fn miri_invoke(dir: &Path, script: &str, seed: u32, rate_pct: u8, timeout: Duration) -> Result<MiriRun, String> {
    // Isolation stays ON by default: with -Zmiri-disable-isolation the host RNG (track ids) and the
    // real clock leak into the interpreted program and the same (script, seed) no longer replays
    // the same schedule. VERIF_C20_MIRI_ISOLATION=off restores the flag.
    let iso = if std::env::var("VERIF_C20_MIRI_ISOLATION").as_deref() == Ok("off") { " -Zmiri-disable-isolation" } else { "" };
    let flags = format!("-Zmiri-seed={seed} -Zmiri-preemption-rate={:.2}{iso}", rate_pct as f64 / 100.0);
    let mut cmd = Command::new("cargo");
    cmd.args(["+nightly", "miri", "run", "--quiet", "--", script])
        .current_dir(dir)
        .env("MIRIFLAGS", flags)
        .env_remove("C20_SCRIPT")
        .env("CARGO_NET_OFFLINE", "true")
        .env_remove("RUSTUP_TOOLCHAIN")
        .env_remove("CARGO")
        .env_remove("RUSTC")
        .env_remove("RUSTFLAGS")
        .env_remove("CARGO_TARGET_DIR")
        .env_remove("CARGO_MANIFEST_DIR")
        .stdin(Stdio::null())
        .stdout(Stdio::piped())
        .stderr(Stdio::piped());
    let mut child = cmd.spawn().map_err(|e| format!("cannot start `cargo +nightly miri run`: {e}"))?;
    let mut so = child.stdout.take().unwrap();
    let mut se = child.stderr.take().unwrap();
    let t_out = std::thread::spawn(move || {
        // lossy: a child with a corrupted heap may print garbage
        let mut s = Vec::new();
        let _ = so.read_to_end(&mut s);
        String::from_utf8_lossy(&s).into_owned()
    });
    let t_err = std::thread::spawn(move || {
        let mut s = Vec::new();
        let _ = se.read_to_end(&mut s);
        String::from_utf8_lossy(&s).into_owned()
    });
    let start = Instant::now();
    let mut timed_out = false;
    let status = loop {
        match child.try_wait() {
            Ok(Some(st)) => break Some(st),
            Ok(None) => {
                if start.elapsed() > timeout {
                    timed_out = true;
                    let _ = child.kill();
                    break child.wait().ok();
                }
                std::thread::sleep(Duration::from_millis(20));
            }
            Err(_) => break None,
        }
    };
    Ok(MiriRun {
        code: status.and_then(|s| s.code()),
        stdout: t_out.join().unwrap_or_default(),
        stderr: t_err.join().unwrap_or_default(),
        timed_out,
    })
}

/// What one Miri run told us.
enum MiriVerdict {
    Pass { stats: String },
    /// oracle failure of the executor (exit 3)
    Oracle(Fail),
    /// Miri diagnostic: UB / data race / deadlock
    Ub(Fail),
    /// anything else: build failure, unsupported operation, timeout (not a verdict)
    Tool(String),
}

fn rel_src(path: &str) -> String {
    match path.rsplit_once("/src/") {
        Some((_, b)) => b.to_string(),
        None => path.to_string(),
    }
}

/// Classify Miri's stderr. The signature names the kind of UB and the innermost rustrtc frame
/// (file + function) of the access Miri stopped at, plus which threads raced.
fn classify_miri(sc: &Script, run: &MiriRun) -> MiriVerdict {
    if run.timed_out {
        return MiriVerdict::Tool("Miri run timed out".into());
    }
    let err_line = run.stderr.lines().find(|l| l.starts_with("error: ") && !l.starts_with("error: aborting"));
    if run.code == Some(0) && err_line.is_none() {
        if run.stdout.lines().any(|l| l.starts_with("OK")) {
            let stats = run.stdout.lines().find(|l| l.starts_with("STATS")).unwrap_or("").to_string();
            return MiriVerdict::Pass { stats };
        }
        return MiriVerdict::Tool(format!("exit 0 without OK line: {}", run.stdout));
    }
    if run.code == Some(3) && err_line.is_none() {
        if let Some(l) = run.stdout.lines().find(|l| l.starts_with("FAIL ")) {
            let body = &l[5..];
            let (sig, msg) = body.split_once(" :: ").unwrap_or((body, ""));
            return MiriVerdict::Oracle(Fail::new(sig.trim(), format!("under Miri: {msg}")));
        }
    }
    let Some(err) = err_line else {
        let tail: Vec<&str> = run.stderr.lines().rev().take(8).collect();
        return MiriVerdict::Tool(format!("exit {:?}, no Miri diagnostic; stderr tail: {}", run.code, tail.into_iter().rev().collect::<Vec<_>>().join(" | ")));
    };
    let err = err.trim_start_matches("error: ").to_string();
    let is_ub = err.starts_with("Undefined Behavior:");
    let is_deadlock = err.contains("deadlock");
    let is_leak = err.contains("memory leaked");
    if !(is_ub || is_deadlock || is_leak) {
        // "unsupported operation", compile errors, ...: the tool could not do its job
        return MiriVerdict::Tool(format!("Miri/cargo error that is not a UB report: {err}"));
    }
    // backtrace frames: "N: <function>" followed by "at <file>:<line>:<col>"
    let mut frames: Vec<(String, String)> = Vec::new();
    let lines: Vec<&str> = run.stderr.lines().collect();
    for (i, l) in lines.iter().enumerate() {
        let t = l.trim_start();
        if let Some((num, func)) = t.split_once(": ") {
            if !num.is_empty() && num.chars().all(|c| c.is_ascii_digit()) {
                let at = lines.get(i + 1).map(|x| x.trim()).unwrap_or("");
                if let Some(loc) = at.strip_prefix("at ") {
                    frames.push((func.trim().to_string(), loc.to_string()));
                }
            }
        }
    }
    let repo = rustrtc_path();
    let rt = frames.iter().find(|(f, loc)| f.starts_with("rustrtc::") || loc.starts_with(&repo));
    let (func, file) = match rt.or(frames.first()) {
        Some((f, loc)) => {
            let name = f.rsplit("::").find(|seg| !seg.starts_with('{') && !seg.starts_with('<')).unwrap_or(f).to_string();
            let file = loc.split(':').next().unwrap_or(loc).to_string();
            (name, rel_src(&file))
        }
        None => ("?".to_string(), "?".to_string()),
    };
    // thread names of the two racing accesses
    let threads: Vec<&str> = err.split("on thread `").skip(1).filter_map(|s| s.split('`').next()).collect();
    let detail = {
        let mut d: String = run.stderr.lines().filter(|l| !l.starts_with("warning")).skip_while(|l| !l.starts_with("error: ")).take(45).collect::<Vec<_>>().join("\n");
        d.truncate(3500);
        d
    };
    let sig = if is_deadlock {
        "miri-deadlock".to_string()
    } else if is_leak {
        "miri-memory-leak".to_string()
    } else if err.contains("Data race detected") {
        let both_producers = threads.len() == 2 && threads.iter().all(|t| t.starts_with("producer")) && threads[0] != threads[1];
        if both_producers && sc.concurrent_producers() && file == "media/spsc.rs" && func == "push" {
            SIG_MP.to_string()
        } else {
            let who = if threads.len() == 2 {
                let k = |t: &str| if t.starts_with("producer") { "producer" } else if t == "consumer" { "consumer" } else { "main" }.to_string();
                let mut v = [k(threads[0]), k(threads[1])];
                v.sort();
                format!("{}-vs-{}", v[0], v[1])
            } else {
                "?".to_string()
            };
            format!("data-race@{file}:{func} {who}{}", if sc.concurrent_producers() { " [multi-producer-unserialised]" } else { "" })
        }
    } else {
        let kind: String = err.trim_start_matches("Undefined Behavior:").trim().chars().take(60).map(|c| if c.is_ascii_digit() { '#' } else { c }).collect();
        format!("miri-ub@{file}:{func}: {kind}{}", if sc.concurrent_producers() { " [multi-producer-unserialised]" } else { "" })
    };
    MiriVerdict::Ub(Fail::new(sig, format!("Miri (threads {threads:?}): {detail}")))
}

struct MiriShape {
    name: &'static str,
    /// body with {v} placeholders for a generated push op; header is generated
    body: &'static str,
    early: bool,
}

const MIRI_SHAPES: &[MiriShape] = &[
    MiriShape { name: "1p-overflow", body: "Pc:s,s,{v},m2,d;C-:r", early: true },
    MiriShape { name: "1p-trysend-slow-consumer", body: "Pc:t,t,s,{v};C-:y,r", early: false },
    MiriShape { name: "1p-stop-by-consumer", body: "Pc:s,{v},s,s;C2:r", early: true },
    MiriShape { name: "1p-stop-by-producer", body: "Pc:s,s,X,{v},d;C-:r", early: false },
    MiriShape { name: "1p-late-close", body: "Pc:{v},y,s;C-:r,y", early: false },
    MiriShape { name: "2p-cloned", body: "Pc:s,{v},d;Pc:{v},s;C-:r", early: true },
    MiriShape { name: "2p-arc-shared", body: "Pa:s,s;Pa:{v},s,d;C-:r", early: true },
    MiriShape { name: "2p-stop", body: "Pc:s,s,X;Pa:s,{v};C-:r", early: false },
    MiriShape { name: "3p-mixed", body: "Pc:s,{v};Pa:s,t;Pa:m2;C-:r", early: true },
];

const MIRI_CONFIRM_SHAPES: &[MiriShape] = &[
    MiriShape { name: "confirm-2p-cloned", body: "Pc:s,s,s;Pc:s,s,s;C-:r", early: true },
    MiriShape { name: "confirm-2p-arc-shared", body: "Pa:s,s,s;Pa:s,s,s;C-:r", early: true },
];

fn miri_script(shape: &MiriShape, cap: u8, video: bool, salt: u32, v: u8, ser: bool) -> Script {
    let vop = ["s", "t", "m2"][v as usize % 3];
    let text = format!(
        "cap={cap} kind={} early={} ser={} salt={salt};{}",
        if video { "v" } else { "a" },
        shape.early as u8,
        ser as u8,
        shape.body.replace("{v}", vop)
    );
    let mut sc = Script::from_text(&text).expect("miri shape parses");
    if sc.pushing_producers() < 2 {
        sc.ser = false;
    }
    sc
}

fn miri_strategy(steer_mp: bool, shape: usize) -> impl Strategy<Value = MiriCase> {
    (
        Just(shape % MIRI_SHAPES.len()),
        prop_oneof![4 => Just(1u8), 3 => Just(2u8), 1 => Just(3u8)],
        prop::bool::weighted(0.25),
        0..1000u32,
        0..3u8,
        0..1_000_000u32,
        prop_oneof![Just(1u8), Just(5u8), Just(20u8), Just(50u8)],
    )
        .prop_map(move |(si, cap, video, salt, v, seed, rate_pct)| {
            let sh = &MIRI_SHAPES[si];
            let sc = miri_script(sh, cap, video, salt, v, steer_mp);
            MiriCase { shape: sh.name.to_string(), script: sc.to_text(), seed, rate_pct, confirm: false }
        })
}

fn miri_confirm_strategy() -> impl Strategy<Value = MiriCase> {
    (0..MIRI_CONFIRM_SHAPES.len(), prop_oneof![Just(2u8), Just(4u8)], 0..1_000_000u32, prop_oneof![Just(5u8), Just(20u8), Just(50u8)]).prop_map(
        |(si, cap, seed, rate_pct)| {
            let sh = &MIRI_CONFIRM_SHAPES[si];
            let sc = miri_script(sh, cap, false, 7, 0, false);
            MiriCase { shape: sh.name.to_string(), script: sc.to_text(), seed, rate_pct, confirm: true }
        },
    )
}

/// Evaluate one finished Miri run. Returns Err(tool message) when the run is not a verdict.
fn miri_verdict(ctx: &Ctx, c: &MiriCase, run: &MiriRun, rec: &CaseRec) -> Result<Check, String> {
    let sc = Script::from_text(&c.script).map_err(|e| format!("bad script: {e}"))?;
    rec.label(format!("miri:{}", c.shape));
    rec.label(format!("miri:preemption={}%", c.rate_pct));
    if sc.ser {
        rec.label("miri:producers-serialised-by-harness");
    }
    match classify_miri(&sc, run) {
        MiriVerdict::Tool(m) => Err(m),
        MiriVerdict::Pass { stats } => {
            let get = |k: &str| -> u64 { stats.split_whitespace().find_map(|kv| kv.strip_prefix(k).and_then(|v| v.strip_prefix('=')).and_then(|v| v.parse().ok())).unwrap_or(0) };
            let nt = sc.producers.len() >= 2 || get("overflow_lost") > 0 || get("would_block") > 0 || get("stop_mid") > 0 || get("drop_mid") > 0;
            rec.set_nontrivial(nt);
            if get("overflow_lost") > 0 {
                rec.label("miri:overflow-observed");
            }
            if get("waits") > 0 {
                rec.label("miri:consumer-waited");
            }
            if get("stop_mid") > 0 {
                rec.label("miri:stop-mid-stream");
            }
            if c.confirm {
                rec.label("miri:confirm-run-no-race-this-schedule");
            }
            Ok(Ok(()))
        }
        MiriVerdict::Oracle(f) | MiriVerdict::Ub(f) => {
            rec.nontrivial();
            if c.confirm && ctx.is_known(SIG_MP) && f.signature != SIG_MP {
                // Deliberately inside the excluded shape (concurrent pushes on one ring are already
                // known to be undefined behaviour): any other symptom here is a consequence of it,
                // the same script shapes are checked in full with producers serialised.
                rec.label("miri:confirm-run-other-consequence");
                return Ok(Ok(()));
            }
            if f.signature == SIG_MP {
                rec.label("miri:push-race-reported");
            }
            Ok(Err(f))
        }
    }
}

fn run_miri(ctx: &Ctx, steer_mp: bool) {
    let sub = "miri";
    let dir = miri_dir();
    let run_timeout = Duration::from_secs(ctx.scale(180, 300));
    let tool_fail = |m: String| -> ! {
        eprintln!("harness: C20 Miri engine failed (not a verdict): {m}");
        crate::engine::exit_trouble()
    };
    if let Err(e) = ensure_miri_crate(&dir) {
        tool_fail(e);
    }
    // warm-up: builds rustrtc for Miri when cold (about a minute), no-op afterwards
    match miri_invoke(&dir, "noop", 0, 1, Duration::from_secs(900)) {
        Ok(r) if r.code == Some(0) && r.stdout.contains("OK noop") => {}
        Ok(r) => {
            let tail: Vec<&str> = r.stderr.lines().rev().take(12).collect();
            tool_fail(format!("warm-up `cargo +nightly miri run` in {} failed (exit {:?}): {}", dir.display(), r.code, tail.into_iter().rev().collect::<Vec<_>>().join(" | ")));
        }
        Err(e) => tool_fail(e),
    }

    let check_one = |c: &MiriCase, rec: &CaseRec| -> Check {
        match miri_invoke(&dir, &c.script, c.seed, c.rate_pct, run_timeout) {
            Err(e) => tool_fail(e),
            Ok(run) => match miri_verdict(ctx, c, &run, rec) {
                Ok(chk) => chk,
                Err(m) => tool_fail(format!("{m} (script `{}` seed {} rate {}%)", c.script, c.seed, c.rate_pct)),
            },
        }
    };
    if ctx.is_replay() {
        if let Some(c) = ctx.replay_case::<MiriCase>(sub) {
            if ctx.run_one(sub, &c, &check_one) {
                println!("replay: property=C20 sub=miri PASS");
            }
        }
        return;
    }
    // committed replays join the parallel pool below (each Miri run takes seconds)
    let regression: Vec<MiriCase> = ctx.regression_cases::<MiriCase>(sub);

    let (n_runs, n_confirm) = ctx.scale((40usize, 4usize), (1000usize, 40usize));
    let n_confirm = if steer_mp { n_confirm } else { 0 };
    // shapes round-robin so every shape is exercised; everything else is drawn
    let per_shape = (n_runs - n_confirm).div_ceil(MIRI_SHAPES.len());
    let mut cases: Vec<MiriCase> = Vec::new();
    for k in 0..per_shape {
        for si in 0..MIRI_SHAPES.len() {
            if cases.len() < n_runs - n_confirm {
                let t = ctx.draw(&format!("miri-{si}-{k}"), 1, &miri_strategy(steer_mp, si));
                cases.push(t[0].current());
            }
        }
    }
    if n_confirm > 0 {
        cases.extend(ctx.draw("miri-confirm", n_confirm, &miri_confirm_strategy()).iter().map(|t| t.current()));
    }
    let n_generated = cases.len();
    cases.extend(regression);
    let steered = cases.iter().filter(|c| c.script.contains(" ser=1 ")).count() as u64;
    if steered > 0 {
        ctx.note_excluded(SIG_MP, steered);
    }
    let workers = std::thread::available_parallelism().map(|x| x.get()).unwrap_or(8).min(16);
    let next = AtomicUsize::new(0);
    let runs: parking_lot::Mutex<Vec<Option<Result<MiriRun, String>>>> = parking_lot::Mutex::new((0..cases.len()).map(|_| None).collect());
    std::thread::scope(|s| {
        for _ in 0..workers {
            let (cases, next, runs, dir) = (&cases, &next, &runs, &dir);
            s.spawn(move || {
                loop {
                    let k = next.fetch_add(1, Ordering::Relaxed);
                    if k >= cases.len() {
                        break;
                    }
                    let c = &cases[k];
                    let r = miri_invoke(dir, &c.script, c.seed, c.rate_pct, run_timeout);
                    runs.lock()[k] = Some(r);
                }
            });
        }
    });
    let runs = runs.into_inner();
    let mut confirmed = 0u64;
    let mut reported: Vec<String> = Vec::new();
    for (c, r) in cases.iter().zip(runs.into_iter()) {
        let run = match r {
            Some(Ok(r)) => r,
            Some(Err(e)) => tool_fail(e),
            None => tool_fail("Miri run missing".into()),
        };
        let rec = CaseRec::default();
        let chk = match miri_verdict(ctx, c, &run, &rec) {
            Ok(chk) => chk,
            Err(m) => tool_fail(format!("{m} (script `{}` seed {} rate {}%)", c.script, c.seed, c.rate_pct)),
        };
        if matches!(&chk, Err(f) if f.signature == SIG_MP) {
            confirmed += 1;
        }
        let v = serde_json::to_value(c).unwrap();
        if let Err(f) = ctx.record(sub, &v, &rec, &chk) {
            if !reported.contains(&f.signature) {
                reported.push(f.signature.clone());
                ctx.violation(sub, &v, &f);
            }
        }
    }
    ctx.bulk(sub, 0, 0, &[], cases.iter().take(2).map(|c| serde_json::to_value(c).unwrap()).collect());
    ctx.add_extra_count("miri_runs", n_generated as u64);
    ctx.add_extra_count("miri_regression_replays", (cases.len() - n_generated) as u64);
    ctx.add_extra_count("miri_confirm_runs", n_confirm as u64);
    ctx.add_extra_count("miri_confirm_runs_reporting_push_race", confirmed);
    ctx.set_extra("miri_crate_dir", json!(dir.display().to_string()));
}

// =============================================================================================

pub fn run(ctx: &mut Ctx) {
    if let Ok(path) = std::env::var("RTCVERIF_C20_CHILD") {
        child_main(ctx, &path);
    }
    ctx.level = "exploration";
    ctx.rule = "sequential: proptest global op orders (<=70 ops + optional close-all/drain tail) over {send, try_send, send_many(k<=9), recv-poll, stop, drop(handle), drop(main)} for 1..4 producer handles (own clone or Arc-shared), capacity 1..64 biased to 1,2,3,4,8,16,63,64, checked step by step against a FIFO/drop-oldest model and the payload ledger. native: proptest thread scripts (capacity as above; 1..4 producer threads each with <=30 (quick) / <=60 (thorough) ops from {send, try_send, send_many(k), yield, spin, sleep-us} plus stop() and drop(source) inserted at generated positions; consumer pacing list; stop() by a producer or by the consumer after N samples; main handle dropped before or after the producers) each executed R times on OS threads in child processes. miri: 9 fixed script shapes x capacity {1,2,3} x push-op variant x audio/video, one run per (script, Miri seed, preemption rate in {1,5,20,50}%). Non-trivial = >=2 producer threads/handles pushing, or overflow observed (sample dropped / WouldBlock), or stop()/drop(source) landed while another producer was still running; distinct by case digest (script text [+ seed, rate]).".into();
    ctx.assumptions = vec![
        "Interleavings are SAMPLED, not enumerated: the native engine relies on the OS scheduler (each script repeated R times, pacing ops perturb timing); Miri explores one seeded schedule per (script, seed, preemption rate). A pass is evidence over the sampled schedules only.".into(),
        "A child process that hangs (watchdog) is reported as inconclusive (exit 2), not as a violation; a consumer that can provably never be woken (all producers joined, all handles dropped, recv() Pending and never woken) IS a violation and is decided without a timeout.".into(),
        "After stop() the statement does not say whether queued samples are still delivered: both EndOfStream and the correct next sample are accepted; send() on a live handle must keep returning Ok.".into(),
        "A push counts as 'pushed' only if the call returned Ok; try_send returning WouldBlock must not deliver the sample. Samples dropped by the documented drop-oldest overflow policy are not counted as lost.".into(),
        format!("While the known finding `{SIG_MP}` is registered, scripts with >=2 pushing producers are run with the pushes serialised by a harness-side lock (counted under excluded_known); a few deliberately unserialised Miri runs only re-confirm that race and ignore its other consequences."),
        "Miri runs keep isolation enabled (deterministic replay of (script, seed, rate); VERIF_C20_MIRI_ISOLATION=off adds -Zmiri-disable-isolation); tool failures (build error, unsupported operation, timeout) end the run with exit 2 instead of a verdict.".into(),
    ];
    let steer_mp = ctx.is_known(SIG_MP);

    // development aid: VERIF_C20_ONLY=sequential|native|miri runs a single sub-check
    let only = std::env::var("VERIF_C20_ONLY").ok();
    let want = |s: &str| only.as_deref().map_or(true, |o| o == s);

    // 1. sequential model (deterministic; evaluated in child processes, shrunk via child runs)
    let seq_no_hang = if want("sequential") { run_sequential(ctx) } else { true };

    // 2. native thread scripts in child processes
    let no_hang = (if want("native") { run_native(ctx, steer_mp) } else { true }) && seq_no_hang;

    // 3. Miri
    if !want("miri") {
    } else if std::env::var("VERIF_C20_SKIP_MIRI").is_err() {
        run_miri(ctx, steer_mp);
    } else {
        ctx.set_extra("miri_skipped_by_env", json!(true));
    }

    ctx.set_exhaustive(false);
    if !no_hang && !ctx.has_violation() && !ctx.is_replay() {
        eprintln!("harness: C20 inconclusive: a native child process hung (watchdog); see inconclusive_timing");
        crate::engine::exit_trouble();
    }
}
