//! C02 `takeover` sub-checks: an ACTIVE on-path party implemented by the harness.
//!
//! The party relays the victim's ClientHello to a real, genuine rustrtc server (a signing oracle),
//! takes that server's signed flight, and presents the victim (a real rustrtc DTLS client that
//! pins the genuine certificate) with a flight of its own making: genuine messages mixed with a
//! ServerKeyExchange carrying the party's own P-256 share (garbage / empty / copied-genuine /
//! attacker-key signature), the attacker's Certificate, a second ServerHello with another random;
//! extra messages either continue the message_seq numbering or collide with the previous one.
//! It then tries to finish the handshake ITSELF (ring ECDH, own PRF, own Finished, AES-GCM records
//! through `net::wire`) on every key schedule the victim can have derived from the party's share;
//! if the victim's Finished opens under none of them it falls back to relaying the rest of the
//! handshake to the genuine server.
//!
//! Oracle: as in the other C02 sub-checks, from recorded bytes only - plus: the victim must not be
//! Connected / export keys / accept the party's application data on keys derived from a share
//! that the pinned certificate's key did not sign for this session.

use super::c02::{self, Analysis, Tap, Timing};
use crate::engine::{AsyncCheck, CaseRec, Check, Ctx, Fail};
use crate::net::fault::{Action, Rule, Side};
use crate::net::rig::{self, Pair, PairSpec, state_name};
use crate::net::wire::{self, DClass};
use crate::refimpl::dtls_hs as hs;
use crate::refimpl::foreign_certs::{self, LeafKind};
use bytes::Bytes;
use parking_lot::Mutex;
use proptest::prelude::*;
use rustrtc::transports::dtls::{DtlsState, SessionCrypto};
use serde::{Deserialize, Serialize};
use std::sync::Arc;
use std::time::Duration;

pub const SIG_UNSIGNED_SHARE: &str = "client-connected-on-unsigned-key-share";
const TAKEOVER_MARK: &[u8] = b"C02-TAKEOVER-APPDATA";
const ALL_ORD: u16 = 64;

#[derive(Clone, Copy, Debug, PartialEq, Eq, Serialize, Deserialize)]
pub enum SigKind {
    /// well-formed DER with arbitrary r, s
    Garbage,
    Empty,
    /// the signature bytes of the genuine ServerKeyExchange of this session
    CopyGenuine,
    /// a correct signature by the ATTACKER's certificate key
    AttackerKey,
}

#[derive(Clone, Copy, Debug, PartialEq, Eq, Serialize, Deserialize)]
pub enum Item {
    /// the genuine server's messages of this session
    Sh,
    Cert,
    Ske,
    Shd,
    /// the genuine ServerHello with another random
    OtherSh,
    /// Certificate carrying the attacker's own certificate
    AttackerCert,
    /// ServerKeyExchange carrying the on-path party's own share
    AttackerSke(SigKind),
}

#[derive(Clone, Copy, Debug, PartialEq, Eq, Serialize, Deserialize)]
pub struct Slot {
    pub item: Item,
    /// reuse the previous message's message_seq instead of continuing the numbering
    pub collide: bool,
}

#[derive(Clone, Debug, Serialize, Deserialize)]
pub struct TCase {
    pub g: u8,
    /// the server flight presented to the victim, in sending order
    pub flight: Vec<Slot>,
    /// kind of the PINNED certificate. P-256: the genuine server's own. Any other kind: a
    /// certificate nobody holds the key of; `Item::Cert` then replays it byte for byte and the
    /// genuine server's ServerKeyExchange is just some other key's signature.
    #[serde(default)]
    pub leaf: LeafKind,
}

fn pinned_leaf(c: &TCase) -> Vec<u8> {
    c02::identity(c.g, c.leaf).certificate[0].clone()
}

fn control_flight() -> Vec<Slot> {
    [Item::Sh, Item::Cert, Item::Ske, Item::Shd].iter().map(|i| Slot { item: *i, collide: false }).collect()
}

// ------------------------------------------------------------------ the on-path party

#[derive(Clone)]
struct Crafted {
    seq: u16,
    raw: Vec<u8>,
    msg_type: u8,
}

#[derive(PartialEq, Eq, Clone, Copy, Debug)]
enum Phase {
    WaitFlight,
    FlightSent,
    TookOver,
    Relay,
}

struct Mitm {
    case: TCase,
    phase: Phase,
    ch: Option<hs::HsMsg>,
    ch_relayed: bool,
    genuine: [Option<hs::HsMsg>; 4],
    crafted: Vec<Crafted>,
    flight_dgrams: Vec<Bytes>,
    flight_resends: u32,
    ecdh: hs::EcdhKey,
    premaster: Option<Vec<u8>>,
    v_cke: Option<hs::HsMsg>,
    v_flight: Vec<Bytes>,
    candidates_ms: Vec<Vec<u8>>,
    rec_seq: u64,
    from_victim: Vec<Bytes>,
    notes: Vec<String>,
}

fn garbage_sig() -> Vec<u8> {
    let mut v = vec![0x30, 0x44, 0x02, 0x20];
    v.extend_from_slice(&[0x11; 32]);
    v.extend_from_slice(&[0x02, 0x20]);
    v.extend_from_slice(&[0x22; 32]);
    v
}

impl Mitm {
    fn new(case: TCase) -> Option<Self> {
        Some(Self {
            case,
            phase: Phase::WaitFlight,
            ch: None,
            ch_relayed: false,
            genuine: [None, None, None, None],
            crafted: Vec::new(),
            flight_dgrams: Vec::new(),
            flight_resends: 0,
            ecdh: hs::EcdhKey::generate()?,
            premaster: None,
            v_cke: None,
            v_flight: Vec::new(),
            candidates_ms: Vec::new(),
            rec_seq: 0,
            from_victim: Vec::new(),
            notes: Vec::new(),
        })
    }

    fn record(&mut self, ct: u8, body: &[u8]) -> Bytes {
        let b = wire::dtls_record_bytes(ct, 0, self.rec_seq, body);
        self.rec_seq += 1;
        Bytes::from(b)
    }

    /// Build the flight for the victim from the genuine flight and the case.
    fn craft(&mut self) {
        let g: Vec<hs::HsMsg> = self.genuine.iter().map(|m| m.clone().unwrap()).collect();
        let (sh, cert, ske, shd) = (&g[0], &g[1], &g[2], &g[3]);
        let cr = self.ch.as_ref().and_then(|m| hs::hello_random(&m.body)).unwrap_or([0; 32]);
        let genuine_sr = hs::hello_random(&sh.body).unwrap_or([0; 32]);
        let other_sr = [0x5Au8; 32];
        let mut cur_sr = genuine_sr;
        let mut last_seq: Option<u16> = None;
        let share = self.ecdh.public.clone();
        let attacker = c02::attacker(self.case.g);
        let mut out = Vec::new();
        for slot in self.case.flight.clone() {
            let seq = match (last_seq, slot.collide) {
                (None, _) => 0,
                (Some(s), true) => s,
                (Some(s), false) => s.wrapping_add(1),
            };
            last_seq = Some(seq);
            let (t, raw) = match slot.item {
                Item::Sh => {
                    cur_sr = genuine_sr;
                    (hs::HT_SERVER_HELLO, hs::with_seq(&sh.raw, seq))
                }
                Item::Cert if self.case.leaf != LeafKind::P256 => (
                    hs::HT_CERTIFICATE,
                    hs::build_hs(hs::HT_CERTIFICATE, seq, &hs::certificate_body(&[pinned_leaf(&self.case)])),
                ),
                Item::Cert => (hs::HT_CERTIFICATE, hs::with_seq(&cert.raw, seq)),
                Item::Ske => (hs::HT_SERVER_KEY_EXCHANGE, hs::with_seq(&ske.raw, seq)),
                Item::Shd => (hs::HT_SERVER_HELLO_DONE, hs::with_seq(&shd.raw, seq)),
                Item::OtherSh => {
                    let mut b = sh.body.clone();
                    if b.len() >= 34 {
                        b[2..34].copy_from_slice(&other_sr);
                    }
                    cur_sr = other_sr;
                    (hs::HT_SERVER_HELLO, hs::build_hs(hs::HT_SERVER_HELLO, seq, &b))
                }
                Item::AttackerCert => (
                    hs::HT_CERTIFICATE,
                    hs::build_hs(hs::HT_CERTIFICATE, seq, &hs::certificate_body(&[attacker.certificate[0].clone()])),
                ),
                Item::AttackerSke(k) => {
                    let sig = match k {
                        SigKind::Garbage => garbage_sig(),
                        SigKind::Empty => vec![],
                        SigKind::CopyGenuine => hs::parse_ske(&ske.body).map(|s| s.signature).unwrap_or_default(),
                        SigKind::AttackerKey => {
                            hs::ecdsa_sign_pem(&attacker.private_key, &hs::ske_signed_bytes(&cr, &cur_sr, &share)).unwrap_or_else(|| {
                                self.notes.push("attacker key could not sign".into());
                                garbage_sig()
                            })
                        }
                    };
                    (hs::HT_SERVER_KEY_EXCHANGE, hs::build_hs(hs::HT_SERVER_KEY_EXCHANGE, seq, &hs::ske_body(&share, &sig)))
                }
            };
            out.push(Crafted { seq, raw, msg_type: t });
        }
        self.crafted = out;
        let raws: Vec<Vec<u8>> = self.crafted.iter().map(|c| c.raw.clone()).collect();
        let mut dgrams = Vec::new();
        for r in &raws {
            dgrams.push(self.record(22, r));
        }
        self.flight_dgrams = dgrams;
    }

    /// The messages a receiver following RFC 6347 4.2.2 (next expected message_seq) accepts.
    fn accepted_by_seq(&self) -> Vec<Crafted> {
        let mut exp = 0u16;
        let mut v = Vec::new();
        for c in &self.crafted {
            if c.seq == exp {
                v.push(c.clone());
                exp = exp.wrapping_add(1);
            }
        }
        v
    }

    /// Try to open the victim's Finished on every key schedule it can have derived from OUR share.
    fn try_takeover(&mut self, fin: &wire::DtlsRec) -> Option<Vec<Bytes>> {
        let ch = self.ch.clone()?;
        let cke = self.v_cke.clone()?;
        if self.premaster.is_none() {
            let share = hs::cke_share(&cke.body)?;
            self.premaster = self.ecdh.agree(&share);
        }
        let z = self.premaster.clone()?;
        let cr = hs::hello_random(&ch.body)?;
        let mut lists = vec![self.accepted_by_seq()];
        if lists[0].len() != self.crafted.len() {
            lists.push(self.crafted.clone());
        }
        for list in lists {
            let shs: Vec<&Crafted> = list.iter().filter(|c| c.msg_type == hs::HT_SERVER_HELLO).collect();
            let (Some(first), Some(last)) = (shs.first(), shs.last()) else { continue };
            let mut srs: Vec<[u8; 32]> = Vec::new();
            for c in [last, first] {
                if let Some(r) = hs::hello_random(&c.raw[12..]) {
                    if !srs.contains(&r) {
                        srs.push(r);
                    }
                }
            }
            let ems0 = hs::server_hello_has_ems(&last.raw[12..]);
            let mut t = ch.raw.clone();
            for c in &list {
                t.extend_from_slice(&c.raw);
            }
            t.extend_from_slice(&cke.raw);
            for sr in &srs {
                for ems in [ems0, !ems0] {
                    let keys = hs::derive_keys(&z, ems, &t, &cr, sr);
                    if !self.candidates_ms.contains(&keys.master_secret) {
                        self.candidates_ms.push(keys.master_secret.clone());
                    }
                    let Some(plain) = wire::dtls_open(&keys.client_write_key, &keys.client_write_iv, fin) else { continue };
                    let Some(cf) = hs::hs_messages(&plain).into_iter().find(|m| m.msg_type == hs::HT_FINISHED) else { continue };
                    // the victim keyed on our share: finish the handshake ourselves
                    let mut t2 = t.clone();
                    t2.extend_from_slice(&cf.raw);
                    let vd = hs::verify_data(&keys.master_secret, b"server finished", &t2);
                    let fin_msg = hs::build_hs(hs::HT_FINISHED, list.len() as u16, &vd);
                    self.notes.push(format!("took over: ems={ems} accepted={} of {} flight messages", list.len(), self.crafted.len()));
                    let ccs = self.record(20, &[1]);
                    return Some(vec![
                        ccs,
                        Bytes::from(wire::dtls_seal(&keys.server_write_key, &keys.server_write_iv, 22, 1, 0, &fin_msg)),
                        Bytes::from(wire::dtls_seal(&keys.server_write_key, &keys.server_write_iv, 23, 1, 1, TAKEOVER_MARK)),
                    ]);
                }
            }
        }
        None
    }

    /// One datagram arrived from `from`; returns what to hand to whom.
    fn on_datagram(&mut self, from: Side, d: Bytes) -> Vec<(Side, Bytes)> {
        let mut out = Vec::new();
        match from {
            Side::A => {
                self.from_victim.push(d.clone());
                if self.phase == Phase::Relay {
                    return vec![(Side::B, d)];
                }
                let msgs = hs::plaintext_hs(&d);
                if let Some(ch) = msgs.iter().find(|m| m.msg_type == hs::HT_CLIENT_HELLO && m.whole()) {
                    if self.ch.is_none() {
                        self.ch = Some(ch.clone());
                    }
                    if !self.ch_relayed {
                        self.ch_relayed = true;
                        out.push((Side::B, d));
                    } else if self.phase == Phase::FlightSent && self.flight_resends < 3 {
                        self.flight_resends += 1;
                        out.extend(self.flight_dgrams.iter().map(|f| (Side::A, f.clone())));
                    }
                    return out;
                }
                if self.phase != Phase::FlightSent {
                    return out;
                }
                if !self.v_flight.contains(&d) {
                    self.v_flight.push(d.clone());
                }
                if let Some(cke) = msgs.iter().find(|m| m.msg_type == hs::HT_CLIENT_KEY_EXCHANGE && m.whole()) {
                    if self.v_cke.is_none() {
                        self.v_cke = Some(cke.clone());
                    }
                }
                if let Some(fin) = hs::protected_hs_records(&d).first() {
                    if self.v_cke.is_some() {
                        match self.try_takeover(fin) {
                            Some(mine) => {
                                self.phase = Phase::TookOver;
                                out.extend(mine.into_iter().map(|b| (Side::A, b)));
                            }
                            None => {
                                self.phase = Phase::Relay;
                                self.notes.push("victim's Finished opens under none of our key schedules: relaying to the genuine server".into());
                                out.extend(self.v_flight.iter().map(|b| (Side::B, b.clone())));
                            }
                        }
                    }
                }
            }
            Side::B => match self.phase {
                Phase::Relay => out.push((Side::A, d)),
                Phase::WaitFlight => {
                    for m in hs::plaintext_hs(&d) {
                        if !m.whole() {
                            continue;
                        }
                        let i = match m.msg_type {
                            hs::HT_SERVER_HELLO => 0,
                            hs::HT_CERTIFICATE => 1,
                            hs::HT_SERVER_KEY_EXCHANGE => 2,
                            hs::HT_SERVER_HELLO_DONE => 3,
                            _ => continue,
                        };
                        if self.genuine[i].is_none() {
                            self.genuine[i] = Some(m);
                        }
                    }
                    if self.genuine.iter().all(|m| m.is_some()) && self.ch.is_some() {
                        self.craft();
                        self.phase = Phase::FlightSent;
                        out.extend(self.flight_dgrams.iter().map(|f| (Side::A, f.clone())));
                    }
                }
                _ => {}
            },
        }
        out
    }
}

// ------------------------------------------------------------------ session

pub struct TObserved {
    v_in: Vec<Bytes>,
    from_victim: Vec<Bytes>,
    states: Vec<&'static str>,
    final_state: &'static str,
    ever_connected: bool,
    victim_crypto: Option<Arc<SessionCrypto>>,
    app: Vec<Bytes>,
    ekm_ok: bool,
    took_over: bool,
    relayed: bool,
    flight_sent: bool,
    candidates_ms: Vec<Vec<u8>>,
    our_share: Vec<u8>,
    notes: Vec<String>,
}

const CLASSES: [DClass; 13] = [
    DClass::ClientHello,
    DClass::HelloVerifyRequest,
    DClass::ServerHello,
    DClass::Certificate,
    DClass::ServerKeyExchange,
    DClass::ServerHelloDone,
    DClass::ClientKeyExchange,
    DClass::ChangeCipherSpec,
    DClass::Finished,
    DClass::AppData,
    DClass::Alert,
    DClass::OtherHandshake,
    DClass::Other,
];

async fn run_takeover(c: &TCase, tm: Timing) -> anyhow::Result<TObserved> {
    // every datagram of both endpoints is diverted to the on-path party; the guard drops the very
    // first ClientHello so nothing moves before the hook is installed (see c02.rs)
    let mut rules = vec![Rule { from: Side::A, class: DClass::ClientHello, ordinal: 0, action: Action::Drop }];
    for class in CLASSES {
        for o in 0..ALL_ORD {
            rules.push(Rule { from: Side::A, class, ordinal: o, action: Action::Custom(0) });
            rules.push(Rule { from: Side::B, class, ordinal: o, action: Action::Custom(1) });
        }
    }
    let g = c02::genuine(c.g);
    let f = hs::sdp_fingerprint(&pinned_leaf(c));
    for _attempt in 0..4 {
        let spec = PairSpec {
            dgram_rules: rules.clone(),
            sctp_rules: vec![],
            dtls_timers: Some((tm.retransmit, tm.deadline)),
            cert_a: rig::cert(c02::VICTIM_CERT),
            cert_b: g.clone(),
            expected_fp_a: Some(f.clone()),
            expected_fp_b: None,
            sctp: None,
            keep_trace: true,
            a_is_client: true,
        };
        let mut pair = Pair::build(spec).await?;
        let (tx, mut rx) = tokio::sync::mpsc::unbounded_channel::<(Side, Bytes)>();
        let tap_v = Arc::new(Tap { log: Mutex::new(Vec::new()), inner: pair.a.dtls.clone() });
        let raced = {
            let mut l = pair.dgram.lock();
            let raced = l.trace.iter().any(|e| !(e.class == DClass::ClientHello && e.action == Some(Action::Drop)));
            l.custom = Some(Arc::new(move |k: u8, b: &Bytes| {
                let _ = tx.send((if k == 0 { Side::A } else { Side::B }, b.clone()));
                Vec::new()
            }));
            pair.a.conn.set_dtls_receiver(tap_v.clone());
            raced
        };
        if raced {
            drop(pair);
            continue;
        }
        let Some(mut mitm) = Mitm::new(c.clone()) else { anyhow::bail!("ring could not generate an ECDH key") };
        let our_share = mitm.ecdh.public.clone();
        let mut st = pair.a.dtls.subscribe_state();
        let limit = tokio::time::Instant::now() + tm.deadline + tm.slack;
        let mut states: Vec<&'static str> = Vec::new();
        let mut victim_crypto = None;
        let mut ever_connected = false;
        let mut settle_until: Option<tokio::time::Instant> = None;
        loop {
            let s = st.borrow_and_update().clone();
            let n = state_name(&s);
            if states.last() != Some(&n) {
                states.push(n);
            }
            match &s {
                DtlsState::Connected(cr, _) => {
                    ever_connected = true;
                    victim_crypto = Some(cr.clone());
                    // keep the party running a little: its application record follows its Finished
                    if settle_until.is_none() {
                        settle_until = Some(tokio::time::Instant::now() + Duration::from_millis(60));
                    }
                }
                DtlsState::Failed | DtlsState::Closed => break,
                _ => {}
            }
            let until = settle_until.unwrap_or(limit).min(limit);
            tokio::select! {
                ev = rx.recv() => {
                    let Some((from, d)) = ev else { break };
                    for (to, b) in mitm.on_datagram(from, d) {
                        let src = if to == Side::A { pair.a.proxy_addr } else { pair.b.proxy_addr };
                        pair.inject(to, b, src).await;
                    }
                }
                r = st.changed() => { if r.is_err() { break; } }
                _ = tokio::time::sleep_until(until) => { break; }
            }
        }
        let fin = pair.a.dtls.get_state();
        let n = state_name(&fin);
        if states.last() != Some(&n) {
            states.push(n);
        }
        if let DtlsState::Connected(cr, _) = &fin {
            ever_connected = true;
            victim_crypto = Some(cr.clone());
        }
        let ekm_ok = pair.a.dtls.export_keying_material("EXTRACTOR-dtls_srtp", 60).is_ok();
        let mut app = Vec::new();
        if let Some(rx) = pair.a.app_rx.as_mut() {
            while let Ok(b) = rx.try_recv() {
                app.push(b);
            }
        }
        drop(pair);
        return Ok(TObserved {
            v_in: std::mem::take(&mut *tap_v.log.lock()),
            from_victim: std::mem::take(&mut mitm.from_victim),
            states,
            final_state: n,
            ever_connected,
            victim_crypto,
            app,
            ekm_ok,
            took_over: mitm.phase == Phase::TookOver,
            relayed: mitm.phase == Phase::Relay,
            flight_sent: mitm.phase != Phase::WaitFlight,
            candidates_ms: std::mem::take(&mut mitm.candidates_ms),
            our_share,
            notes: std::mem::take(&mut mitm.notes),
        });
    }
    anyhow::bail!("could not install the on-path party before the first datagram (4 attempts)")
}

// ------------------------------------------------------------------ oracle

/// Was a ServerKeyExchange carrying `share` delivered whose signature verifies under the key of a
/// delivered leaf that hashes to F, over this session's randoms?
fn share_signed(f: &str, a: &Analysis, share: &[u8]) -> bool {
    let mut leaves: Vec<Vec<u8>> = Vec::new();
    for m in a.to_victim.iter().filter(|m| m.msg_type == hs::HT_CERTIFICATE) {
        if let Some(leaf) = hs::certificate_list(&m.body).and_then(|l| l.first().cloned()) {
            if hs::sdp_fingerprint(&leaf) == f {
                leaves.push(leaf);
            }
        }
    }
    let crs: Vec<[u8; 32]> = a.from_victim.iter().filter(|m| m.msg_type == hs::HT_CLIENT_HELLO).filter_map(|m| hs::hello_random(&m.body)).collect();
    let srs: Vec<[u8; 32]> = a.to_victim.iter().filter(|m| m.msg_type == hs::HT_SERVER_HELLO).filter_map(|m| hs::hello_random(&m.body)).collect();
    for m in a.to_victim.iter().filter(|m| m.msg_type == hs::HT_SERVER_KEY_EXCHANGE) {
        let Some(ske) = hs::parse_ske(&m.body) else { continue };
        if ske.params.len() < 4 || &ske.params[4..] != share {
            continue;
        }
        for leaf in &leaves {
            for p in hs::p256_points(leaf) {
                for cr in &crs {
                    for sr in &srs {
                        if hs::ske_signature_valid(&p, cr, sr, &ske) {
                            return true;
                        }
                    }
                }
            }
        }
    }
    false
}

fn shape_labels(c: &TCase, rec: &CaseRec) {
    if c.leaf != LeafKind::P256 {
        rec.label(format!("takeover:pinned-leaf={:?}", c.leaf));
    }
    let pos = |i: Item| c.flight.iter().position(|s| s.item == i);
    let first_att_ske = c.flight.iter().position(|s| matches!(s.item, Item::AttackerSke(_)));
    if c.flight == control_flight() {
        rec.label("takeover:control(honest relay)");
    }
    if let Some(a) = first_att_ske {
        match (pos(Item::Ske), pos(Item::Cert)) {
            (Some(s), _) if s < a => rec.label("takeover:own-SKE-after-genuine-SKE"),
            (Some(_), _) => rec.label("takeover:own-SKE-before-genuine-SKE"),
            (None, _) => rec.label("takeover:own-SKE-replaces-genuine-SKE"),
        }
        if pos(Item::Cert).map(|p| p > a).unwrap_or(true) {
            rec.label("takeover:SKE-before-Certificate");
        }
    }
    if let Some(p) = pos(Item::Ske) {
        if pos(Item::Cert).map(|c| c > p).unwrap_or(true) {
            rec.label("takeover:SKE-before-Certificate");
        }
    }
    if let Some(ac) = pos(Item::AttackerCert) {
        rec.label(if pos(Item::Ske).map(|s| s < ac).unwrap_or(false) { "takeover:attacker-Certificate-after-SKE" } else { "takeover:attacker-Certificate-before-SKE" });
    }
    if let Some(o) = pos(Item::OtherSh) {
        rec.label(if pos(Item::Ske).map(|s| s < o).unwrap_or(false) { "takeover:second-ServerHello-after-SKE" } else { "takeover:second-ServerHello-before-SKE" });
    }
    if c.flight.iter().any(|s| s.collide) {
        rec.label("takeover:colliding-message_seq");
    }
    for s in &c.flight {
        if let Item::AttackerSke(k) = s.item {
            rec.label(format!("takeover:sig={:?}", k));
        }
    }
    if pos(Item::Shd).is_none() {
        rec.label("takeover:no-ServerHelloDone");
    }
}

fn judge(c: &TCase, o: &TObserved, tm: Timing, rec: &CaseRec) -> Check {
    shape_labels(c, rec);
    rec.label(format!("takeover:end={}", o.final_state));
    if o.took_over {
        rec.label("takeover:party-finished-the-handshake-itself");
    }
    if o.relayed {
        rec.label("takeover:fell-back-to-relay");
    }
    if !o.flight_sent {
        rec.label("takeover:no-genuine-flight-obtained");
    }
    rec.set_nontrivial((c.flight != control_flight() || c.leaf != LeafKind::P256) && o.flight_sent);
    let f = hs::sdp_fingerprint(&pinned_leaf(c));
    let from_v: Vec<&Bytes> = o.from_victim.iter().collect();
    let a = c02::analyse_datagrams(&o.v_in, &from_v);
    let connected = o.ever_connected;
    if connected {
        rec.label("takeover:victim-connected");
    }
    let describe = |what: &str| {
        format!(
            "{what}; pinned leaf={:?} flight={:?} states={:?} final={} ever_connected={} ekm_ok={} app_records={} party: took_over={} relayed={} notes={:?}",
            c.leaf, c.flight, o.states, o.final_state, connected, o.ekm_ok, o.app.len(), o.took_over, o.relayed, o.notes
        )
    };
    // 1. the key share behind the victim's keys must have been signed by the pinned key
    let on_our_keys = o.victim_crypto.as_ref().map(|vc| o.candidates_ms.contains(&vc.keys.master_secret)).unwrap_or(false);
    let our_app = o.app.iter().any(|p| &p[..] == TAKEOVER_MARK);
    if (on_our_keys || our_app || (o.took_over && (connected || o.ekm_ok))) && !share_signed(&f, &a, &o.our_share) {
        return Err(Fail::new(
            SIG_UNSIGNED_SHARE,
            describe(&format!(
                "the client victim {} on keys derived from the on-path party's ECDH share, which no ServerKeyExchange signed by the pinned certificate's key carried (victim master secret equals the party's: {on_our_keys}; party's application record delivered: {our_app}; export_keying_material ok: {})",
                if connected { "reached Connected" } else { "accepted data" },
                o.ekm_ok
            )),
        ));
    }
    // 2. the clauses of the other sub-checks
    let au = c02::client_auth(&f, &a);
    let auth_ok = au.cert_match && au.key_proof;
    rec.label(if auth_ok { "takeover:genuine-cert+signed-SKE-delivered" } else { "takeover:no-valid-cert+SKE-delivered" });
    if connected && !au.cert_match {
        return Err(Fail::new(
            if au.any_certificate { "client-connected-without-matching-certificate" } else { "client-connected-without-certificate" },
            describe("the client victim reached Connected although no Certificate delivered in this handshake has a leaf whose SHA-256 equals the expected fingerprint"),
        ));
    }
    if connected && !au.key_proof {
        return Err(Fail::new("client-connected-without-key-proof", describe(&format!("Connected although no delivered ServerKeyExchange is signed by the pinned key [{}]", au.detail))));
    }
    if connected {
        let Some(vc) = &o.victim_crypto else { return Err(Fail::new("harness-error", "Connected without crypto")) };
        let fc = c02::finished_check(false, &a, &vc.keys);
        if !fc.confirmed {
            return Err(Fail::new(
                "connected-without-valid-finished",
                describe(&format!("Connected although no delivered Finished confirms a transcript the victim can have seen (delivered={} transcripts_tried={})", fc.delivered, fc.transcripts)),
            ));
        }
    }
    if !auth_ok && o.flight_sent {
        if o.ekm_ok {
            return Err(Fail::new("ekm-exported-unauthenticated", describe("export_keying_material succeeded although the peer was not authenticated")));
        }
        if !o.app.is_empty() {
            return Err(Fail::new("app-data-accepted-unauthenticated", describe("application data was delivered although the peer was not authenticated")));
        }
        match o.final_state {
            "Failed" => {}
            "Handshaking" | "New" => {
                return Err(Fail::timing("unauthenticated-not-failed-by-deadline", describe(&format!("the peer was not authenticated and the victim is not Failed {:?} after its handshake deadline", tm.slack))));
            }
            other => return Err(Fail::new(format!("unauthenticated-ended-{}", other.to_lowercase()), describe("the peer was not authenticated and the victim did not end in Failed"))),
        }
    }
    Ok(())
}

fn checker(tm: Timing) -> AsyncCheck<TCase> {
    Arc::new(move |c: TCase| {
        Box::pin(async move {
            let rec = CaseRec::default();
            let res = match run_takeover(&c, tm).await {
                Ok(o) => judge(&c, &o, tm, &rec),
                Err(e) => Err(Fail::new("harness-error", format!("rig failed: {e}"))),
            };
            (rec, res)
        })
    })
}

// ------------------------------------------------------------------ generators

const SIGS: [SigKind; 4] = [SigKind::Garbage, SigKind::Empty, SigKind::CopyGenuine, SigKind::AttackerKey];

fn flight(items: &[(Item, bool)]) -> Vec<Slot> {
    items.iter().map(|(item, collide)| Slot { item: *item, collide: *collide }).collect()
}

/// The small fixed grid: the named attack shapes x signature kinds x numbering.
pub fn grid() -> Vec<TCase> {
    use Item::*;
    let mut shapes: Vec<Vec<Slot>> = vec![control_flight()];
    for k in SIGS {
        let a = AttackerSke(k);
        for col in [false, true] {
            // extra SKE behind the genuine one (ServerHelloDone withheld until then)
            shapes.push(flight(&[(Sh, false), (Cert, false), (Ske, false), (a, col), (Shd, false)]));
            // genuine SKE behind ours
            shapes.push(flight(&[(Sh, false), (Cert, false), (a, false), (Ske, col), (Shd, false)]));
            // attacker certificate + own SKE behind the genuine pair
            shapes.push(flight(&[(Sh, false), (Cert, false), (Ske, false), (AttackerCert, col), (a, false), (Shd, false)]));
            // second ServerHello (other random) behind the genuine SKE, then ours
            shapes.push(flight(&[(Sh, false), (Cert, false), (Ske, false), (OtherSh, col), (a, false), (Shd, false)]));
        }
        // genuine SKE replaced at the same message_seq
        shapes.push(flight(&[(Sh, false), (Cert, false), (a, false), (Shd, false)]));
        // SKE before Certificate
        shapes.push(flight(&[(Sh, false), (a, false), (Cert, false), (Shd, false)]));
        shapes.push(flight(&[(Sh, false), (a, false), (Cert, false), (Ske, false), (Shd, false)]));
        shapes.push(flight(&[(a, false), (Sh, false), (Cert, false), (Ske, false), (Shd, false)]));
        // attacker certificate between the genuine one and our SKE
        shapes.push(flight(&[(Sh, false), (Cert, false), (AttackerCert, false), (a, false), (Shd, false)]));
        // two of ours behind the genuine one
        shapes.push(flight(&[(Sh, false), (Cert, false), (Ske, false), (a, false), (a, false), (Shd, false)]));
    }
    for col in [false, true] {
        shapes.push(flight(&[(Sh, false), (Cert, false), (Ske, false), (OtherSh, col), (Shd, false)]));
        shapes.push(flight(&[(Sh, false), (Cert, false), (Ske, false), (AttackerCert, col), (Shd, false)]));
        shapes.push(flight(&[(Sh, false), (Cert, false), (Ske, false), (Ske, col), (Shd, false)]));
        shapes.push(flight(&[(Sh, false), (Cert, false), (Cert, col), (Ske, false), (Shd, false)]));
    }
    shapes.push(flight(&[(Sh, false), (Ske, false), (Cert, false), (Shd, false)]));
    shapes.push(flight(&[(Sh, false), (AttackerCert, false), (Ske, false), (Shd, false)]));
    shapes.push(flight(&[(Sh, false), (Cert, false), (Shd, false)]));
    shapes.push(flight(&[(Sh, false), (Ske, false), (Shd, false)]));
    for _ in 0..4 {
        shapes.push(control_flight());
    }
    let mut out = Vec::new();
    for (i, f) in shapes.into_iter().enumerate() {
        out.push(TCase { g: (i % 5) as u8, flight: f, leaf: LeafKind::P256 });
    }
    // a pinned certificate whose key cannot vouch for anything, replayed byte for byte, with the
    // party's own share under every signature kind - and with the genuine server's SKE (relay)
    for (i, leaf) in foreign_certs::FOREIGN.into_iter().enumerate() {
        for k in SIGS {
            out.push(TCase { g: (i % 5) as u8, leaf, flight: flight(&[(Sh, false), (Cert, false), (AttackerSke(k), false), (Shd, false)]) });
        }
        out.push(TCase { g: (i % 5) as u8, leaf, flight: control_flight() });
    }
    out
}

fn item_strategy() -> impl Strategy<Value = Vec<Item>> {
    prop_oneof![
        8 => prop::sample::select(SIGS.to_vec()).prop_map(|k| vec![Item::AttackerSke(k)]),
        // the attacker's certificate together with a ServerKeyExchange its key signed
        3 => prop::sample::select(SIGS.to_vec()).prop_map(|k| vec![Item::AttackerCert, Item::AttackerSke(k)]),
        2 => Just(vec![Item::AttackerCert, Item::AttackerSke(SigKind::AttackerKey)]),
        2 => prop::sample::select(SIGS.to_vec()).prop_map(|k| vec![Item::OtherSh, Item::AttackerSke(k)]),
        2 => Just(vec![Item::AttackerCert]),
        2 => Just(vec![Item::OtherSh]),
        2 => Just(vec![Item::Ske]),
        1 => Just(vec![Item::Cert]),
        1 => Just(vec![Item::Sh]),
        1 => Just(vec![Item::Shd]),
    ]
}

/// Genuine flight with 1-3 extra messages (or adjacent pairs) inserted anywhere, optionally one
/// genuine message removed, each extra either continuing or colliding the numbering.
pub fn case_strategy() -> impl Strategy<Value = TCase> {
    (
        0..5u8,
        prop::collection::vec((item_strategy(), any::<u16>(), prop::bool::weighted(0.2)), 1..=3),
        prop_oneof![6 => Just(None), 2 => Just(Some(2usize)), 1 => Just(Some(1usize)), 1 => Just(Some(3usize)), 1 => Just(Some(0usize))],
        prop_oneof![4 => Just(LeafKind::P256), 1 => prop::sample::select(foreign_certs::FOREIGN.to_vec())],
    )
        .prop_map(|(g, extras, remove, leaf)| {
            let mut f: Vec<Slot> = control_flight();
            if let Some(r) = remove {
                f.remove(r);
            }
            for (items, at, collide) in extras {
                let i = crate::engine::pick(at, f.len() + 1);
                for (k, item) in items.into_iter().enumerate() {
                    f.insert(i + k, Slot { item, collide: collide && k == 0 && i > 0 });
                }
            }
            TCase { g, flight: f, leaf }
        })
}

pub fn run_subs(ctx: &Ctx, rt: &tokio::runtime::Runtime, tm: Timing, conc: usize) {
    c02::run_fixed(ctx, rt, "takeover-grid", grid(), conc, checker(tm));
    let n = ctx.scale(250usize, 4000usize);
    ctx.sub_async(rt, "takeover", n, conc, case_strategy(), checker(tm));
}
