//! C18 — RTP latching locks onto a legitimate source and then stays put.
//!
//! Drives a bare `IceConn` (no sockets) through `receive()` and the control
//! entry points, and checks, after every step, a reference model written from
//! the property statement and the documented decision rules in
//! `src/transports/ice/conn.rs` (marker start / consecutive run / majority).

use crate::engine::{CaseRec, Check, Ctx, Fail, pick};
use bytes::Bytes;
use proptest::prelude::*;
use rustrtc::transports::PacketReceiver;
use rustrtc::transports::ice::conn::IceConn;
use serde::{Deserialize, Serialize};
use serde_json::json;
use std::net::SocketAddr;
use std::sync::atomic::Ordering;
use tokio::sync::watch;

const EXPECTED_SSRC: u32 = 0x1234_5678;
const OTHER_SSRC: u32 = 0x0BAD_F00D;

#[derive(Clone, Copy, Debug, PartialEq, Eq, Serialize, Deserialize)]
pub enum Sym {
    /// RTP whose SSRC is the expected one; `next`: seq = last+1 for that source, else a jump.
    Rtp { src: u8, marker: bool, next: bool },
    RtpOther { src: u8 },
    /// RTCP of packet type `pt` (200..=211: SR ... IDMS, all RTCP by the IANA registry and by the
    /// latch's own classification) carrying a report block about the expected SSRC.
    Rtcp {
        src: u8,
        #[serde(default = "default_rtcp_pt")]
        pt: u8,
    },
    Reset,
    Retarget { to: u8 },
    SelectedPair { to: u8 },
    SetRtcp { to: u8 },
}

#[derive(Clone, Debug, Serialize, Deserialize)]
pub struct Setting {
    pub probation: u8,
    pub ssrc_known: bool,
    pub rtcp_configured: bool,
    /// starting sequence number per source (A, B, C)
    pub base_seq: [u16; 3],
    pub jump: u16,
}

#[derive(Clone, Debug, Serialize, Deserialize)]
pub struct Case {
    pub setting: Setting,
    pub seq: Vec<Sym>,
}

fn addr(i: u8) -> SocketAddr {
    // 0..=2: traffic sources A,B,C; 3: initial signaling address; 4,5: control targets; 6: rtcp configured
    SocketAddr::from(([127, 0, 0, 1], 4000 + i as u16 * 10))
}

#[derive(Clone, Debug)]
struct Cand {
    src: u8,
    first_arrival_seq: u16,
    min_seq_plain: u16,
    min_seq_wrap: u16,
    count: u32,
    has_marker: bool,
    run: u32,
    last_seq: u16,
}

fn wrap_lt(a: u16, b: u16) -> bool {
    (a.wrapping_sub(b) as i16) < 0
}

/// Addresses some documented rule permits as the committed source for this history.
fn permitted(cands: &[Cand], total: u32, max: u32) -> Vec<u8> {
    let mut out: Vec<u8> = Vec::new();
    // lowest-first-seq under the four readings of "first_seq" (first arrival or minimum
    // seen; plain or wrap-aware comparison) - the documentation does not pin one down.
    let lowest = |set: Vec<&Cand>| -> Vec<u8> {
        let mut r = Vec::new();
        if set.is_empty() {
            return r;
        }
        let keys: [&dyn Fn(&Cand) -> u16; 3] = [
            &|c: &Cand| c.first_arrival_seq,
            &|c: &Cand| c.min_seq_plain,
            &|c: &Cand| c.min_seq_wrap,
        ];
        for k in keys {
            let m = set.iter().map(|c| k(c)).min().unwrap();
            for c in &set {
                if k(c) == m {
                    r.push(c.src);
                }
            }
            // wrap-aware minimum
            let mut best = k(set[0]);
            for c in &set {
                if wrap_lt(k(c), best) {
                    best = k(c);
                }
            }
            for c in &set {
                if k(c) == best {
                    r.push(c.src);
                }
            }
        }
        r
    };
    // Rule 1: marker start
    out.extend(lowest(cands.iter().filter(|c| c.has_marker).collect()));
    // Rule 2: consecutive run (>= 2 sequential steps, >= 3 packets overall)
    if total >= 3 {
        out.extend(cands.iter().filter(|c| c.run >= 2).map(|c| c.src));
    }
    // Rule 3: majority at the probation limit, ties by lowest first seq
    if total >= max {
        let m = cands.iter().map(|c| c.count).max().unwrap_or(0);
        out.extend(lowest(cands.iter().filter(|c| c.count == m).collect()));
    }
    out.sort();
    out.dedup();
    out
}

fn rtp_bytes(ssrc: u32, seq: u16, marker: bool) -> Bytes {
    let mut b = vec![0x80u8, if marker { 0x80 } else { 0x00 }];
    b.extend_from_slice(&seq.to_be_bytes());
    b.extend_from_slice(&(seq as u32 * 160).to_be_bytes());
    b.extend_from_slice(&ssrc.to_be_bytes());
    b.extend_from_slice(&[0xAA; 8]);
    Bytes::from(b)
}

fn default_rtcp_pt() -> u8 {
    201
}

/// A receiver-report shaped RTCP packet: header, sender SSRC, one report block about `ssrc`
/// (so bytes 8..12 - where an RTP header keeps its SSRC - hold the expected SSRC, as in real reports).
fn rtcp_bytes(ssrc: u32, pt: u8) -> Bytes {
    let mut b = vec![0x81u8, pt, 0x00, 0x07];
    b.extend_from_slice(&0x0C18_0C18u32.to_be_bytes());
    b.extend_from_slice(&ssrc.to_be_bytes());
    b.extend_from_slice(&[0u8; 20]);
    Bytes::from(b)
}

/// Interpret one sequence against the real IceConn and the model. Returns the
/// failure description, or Ok(number of distinct traffic sources).
pub fn interpret(setting: &Setting, seq: &[Sym]) -> Result<usize, Fail> {
    let (_tx, rx) = watch::channel(None);
    let conn = IceConn::new(rx, addr(3), None);
    conn.set_probation_max_packets(if setting.probation > 0 {
        Some(setting.probation)
    } else {
        None
    });
    let expected = if setting.ssrc_known { EXPECTED_SSRC } else { 0 };
    if setting.ssrc_known {
        conn.set_expected_ssrc(EXPECTED_SSRC);
    }
    if setting.rtcp_configured {
        conn.set_remote_rtcp_addr(Some(addr(6)));
    }
    conn.enable_latch_on_rtp();

    let max = setting.probation as u32;
    let mut last_seq: [Option<u16>; 3] = [None; 3];
    let mut cands: Vec<Cand> = Vec::new();
    let mut total: u32 = 0;
    let mut ever_rtp_src: Vec<SocketAddr> = Vec::new();
    let mut rtcp_moves_in_epoch = 0u32;
    let mut rtcp_is_configured = setting.rtcp_configured;
    let mut sources_seen: Vec<u8> = Vec::new();
    let mut buf = Vec::new();

    for (i, sym) in seq.iter().enumerate() {
        let before_addr = *conn.remote_addr.read();
        let before_latched = conn.rtp_latched.load(Ordering::Relaxed);
        let before_rtcp = *conn.remote_rtcp_addr.read();
        let mut matching_rtp_from: Option<u8> = None;
        let mut is_traffic = false;

        match *sym {
            Sym::Rtp { .. } | Sym::RtpOther { .. } => {
                let (src, marker, next, ssrc) = match *sym {
                    Sym::Rtp { src, marker, next } => (src, marker, next, EXPECTED_SSRC),
                    Sym::RtpOther { src } => (src, false, true, OTHER_SSRC),
                    _ => unreachable!(),
                };
                is_traffic = true;
                if !sources_seen.contains(&src) {
                    sources_seen.push(src);
                }
                let s = src as usize;
                let seqno = match last_seq[s] {
                    None => setting.base_seq[s],
                    Some(l) => {
                        if next {
                            l.wrapping_add(1)
                        } else {
                            l.wrapping_add(setting.jump.max(2))
                        }
                    }
                };
                last_seq[s] = Some(seqno);
                let matches = expected == 0 || ssrc == expected;
                if matches {
                    matching_rtp_from = Some(src);
                    if !ever_rtp_src.contains(&addr(src)) {
                        ever_rtp_src.push(addr(src));
                    }
                    if !before_latched {
                        total += 1;
                        if let Some(c) = cands.iter_mut().find(|c| c.src == src) {
                            if seqno == c.last_seq.wrapping_add(1) {
                                c.run += 1;
                            } else {
                                c.run = 0;
                            }
                            c.last_seq = seqno;
                            c.count += 1;
                            c.has_marker |= marker;
                            if seqno < c.min_seq_plain {
                                c.min_seq_plain = seqno;
                            }
                            if wrap_lt(seqno, c.min_seq_wrap) {
                                c.min_seq_wrap = seqno;
                            }
                        } else {
                            cands.push(Cand {
                                src,
                                first_arrival_seq: seqno,
                                min_seq_plain: seqno,
                                min_seq_wrap: seqno,
                                count: 1,
                                has_marker: marker,
                                run: 0,
                                last_seq: seqno,
                            });
                        }
                    }
                }
                let pkt = rtp_bytes(ssrc, seqno, marker);
                futures::executor::block_on(conn.receive(pkt, addr(src), &mut buf));
            }
            Sym::Rtcp { src, pt } => {
                is_traffic = true;
                if !sources_seen.contains(&src) {
                    sources_seen.push(src);
                }
                futures::executor::block_on(conn.receive(
                    rtcp_bytes(EXPECTED_SSRC, pt),
                    addr(src),
                    &mut buf,
                ));
            }
            Sym::Reset => conn.reset_latch(),
            Sym::Retarget { to } => conn.verif_set_remote_addr_from_signaling(addr(to)),
            Sym::SelectedPair { to } => conn.verif_set_remote_addr_from_selected_pair(addr(to)),
            Sym::SetRtcp { to } => {
                conn.set_remote_rtcp_addr(Some(addr(to)));
                rtcp_is_configured = true;
            }
        }

        let after_addr = *conn.remote_addr.read();
        let after_latched = conn.rtp_latched.load(Ordering::Relaxed);
        let after_rtcp = *conn.remote_rtcp_addr.read();
        let ctx = |what: &str| -> String {
            format!(
                "step {} {:?}: {} (remote_addr {} -> {}, latched {} -> {}, rtcp {:?} -> {:?})",
                i, sym, what, before_addr, after_addr, before_latched, after_latched, before_rtcp,
                after_rtcp
            )
        };

        match *sym {
            Sym::Reset => {
                if after_addr != before_addr {
                    return Err(Fail::new("reset-moved-rtp-addr", ctx("reset changed the RTP destination")));
                }
                if after_latched {
                    return Err(Fail::new("reset-kept-latch", ctx("latch still committed after reset")));
                }
                cands.clear();
                total = 0;
                rtcp_moves_in_epoch = 0;
            }
            Sym::Retarget { to } => {
                if after_addr != addr(to) {
                    return Err(Fail::new("retarget-ignored", ctx("signaling retarget did not set the RTP destination")));
                }
                if after_latched {
                    return Err(Fail::new("retarget-kept-latch", ctx("latch still committed after signaling retarget")));
                }
                cands.clear();
                total = 0;
                rtcp_moves_in_epoch = 0;
            }
            Sym::SelectedPair { to } => {
                if before_latched {
                    if after_addr != before_addr {
                        return Err(Fail::new(
                            "latched-addr-moved-by-selected-pair",
                            ctx("a selected-pair update moved a latched RTP destination"),
                        ));
                    }
                } else if after_addr != addr(to) && after_addr != before_addr {
                    return Err(Fail::new("selected-pair-wrong-addr", ctx("selected-pair update set an unrelated address")));
                }
                if after_latched != before_latched {
                    return Err(Fail::new("selected-pair-changed-latch", ctx("selected-pair update changed the latch flag")));
                }
            }
            Sym::SetRtcp { .. } => {
                if after_addr != before_addr || after_latched != before_latched {
                    return Err(Fail::new("set-rtcp-touched-rtp", ctx("configuring the RTCP address touched RTP latch state")));
                }
                rtcp_moves_in_epoch = 0;
            }
            _ => {}
        }

        if is_traffic {
            // stickiness
            if before_latched && after_addr != before_addr {
                return Err(Fail::new(
                    "latched-addr-moved",
                    ctx("traffic moved the RTP destination although the latch was committed"),
                ));
            }
            if before_latched && !after_latched {
                return Err(Fail::new("latch-dropped-by-traffic", ctx("traffic cleared a committed latch")));
            }
            // legitimacy
            if after_addr != before_addr {
                match matching_rtp_from {
                    None => {
                        return Err(Fail::new(
                            "addr-moved-by-illegitimate-packet",
                            ctx("RTCP or wrong-SSRC RTP moved the RTP destination"),
                        ));
                    }
                    Some(_) => {
                        if !ever_rtp_src.contains(&after_addr) {
                            return Err(Fail::new(
                                "addr-moved-to-non-source",
                                ctx("RTP destination moved to an address that never sent matching RTP"),
                            ));
                        }
                    }
                }
            }
            if !before_latched && after_latched {
                let Some(src) = matching_rtp_from else {
                    return Err(Fail::new(
                        "latch-committed-by-illegitimate-packet",
                        ctx("RTCP or wrong-SSRC RTP committed the latch"),
                    ));
                };
                if max == 0 {
                    if after_addr != addr(src) {
                        return Err(Fail::new(
                            "immediate-latch-wrong-addr",
                            ctx("immediate latch committed an address other than the packet source"),
                        ));
                    }
                } else {
                    let ok = permitted(&cands, total, max);
                    if !ok.iter().any(|s| addr(*s) == after_addr) {
                        return Err(Fail::new(
                            "commit-not-permitted-by-rules",
                            format!(
                                "{}; candidates {:?}, total {}, max {}, permitted {:?}",
                                ctx("committed source is not permitted by marker/consecutive/majority rules"),
                                cands, total, max, ok
                            ),
                        ));
                    }
                }
            }
            // commitment: the documented rules are "evaluated in order on every new RTP packet"; a
            // marker candidate "is selected immediately", a consecutive run (>= 2 sequential steps
            // - RTP sequence numbers are modulo 2^16 - with >= 3 packets overall) "is selected":
            // when either condition holds after this packet the latch must be committed now.
            // (Which candidate wins is judged leniently above; that a decision is due is not ambiguous.)
            if matching_rtp_from.is_some() && !before_latched && !after_latched && max > 0 {
                let by_marker = cands.iter().any(|c| c.has_marker);
                let by_run = total >= 3 && cands.iter().any(|c| c.run >= 2);
                if by_marker || by_run {
                    return Err(Fail::new(
                        if by_marker { "no-commit-although-marker-rule-fired" } else { "no-commit-although-consecutive-rule-fired" },
                        format!(
                            "{}; candidates {:?}, total {}, max {}",
                            ctx("a documented decision rule is satisfied after this packet but the latch is still open"),
                            cands, total, max
                        ),
                    ));
                }
            }
            // commitment: at most `max` probation packets
            if matching_rtp_from.is_some() && !after_latched {
                if max == 0 || total >= max {
                    return Err(Fail::new(
                        "no-commit-after-probation",
                        ctx(&format!(
                            "{} matching RTP packets observed (probation {}), latch still open",
                            total, max
                        )),
                    ));
                }
            }
            // RTCP destination
            if after_rtcp != before_rtcp {
                let Sym::Rtcp { src, .. } = *sym else {
                    return Err(Fail::new("rtcp-addr-moved-by-rtp", ctx("an RTP packet changed the RTCP destination")));
                };
                if !rtcp_is_configured || before_rtcp.is_none() {
                    return Err(Fail::new(
                        "rtcp-addr-set-when-unconfigured",
                        ctx("RTCP arrival set an RTCP destination although none was configured"),
                    ));
                }
                if after_rtcp != Some(addr(src)) {
                    return Err(Fail::new("rtcp-addr-wrong", ctx("RTCP destination set to something other than the RTCP source")));
                }
                rtcp_moves_in_epoch += 1;
                if rtcp_moves_in_epoch > 1 {
                    return Err(Fail::new(
                        "rtcp-addr-moved-twice",
                        ctx("RTCP arrivals moved the RTCP destination more than once without a reset"),
                    ));
                }
            }
        } else if after_rtcp != before_rtcp && !matches!(sym, Sym::SetRtcp { .. }) {
            return Err(Fail::new("control-op-changed-rtcp-addr", ctx("control op changed the RTCP destination")));
        }
        if after_latched && !before_latched {
            cands.clear();
            total = 0;
        }
    }
    Ok(sources_seen.len())
}

fn alphabet() -> Vec<Sym> {
    let mut a = Vec::new();
    for src in 0..3u8 {
        for marker in [false, true] {
            for next in [true, false] {
                a.push(Sym::Rtp { src, marker, next });
            }
        }
        a.push(Sym::RtpOther { src });
        a.push(Sym::Rtcp { src, pt: 201 });
        a.push(Sym::Rtcp { src, pt: 210 });
    }
    a.push(Sym::Reset);
    a.push(Sym::Retarget { to: 0 });
    a.push(Sym::Retarget { to: 4 });
    a.push(Sym::SelectedPair { to: 1 });
    a.push(Sym::SelectedPair { to: 5 });
    a
}

fn settings(max_probation: u8) -> Vec<Setting> {
    let mut v = Vec::new();
    for probation in 0..=max_probation {
        for ssrc_known in [true, false] {
            for rtcp_configured in [false, true] {
                v.push(Setting {
                    probation,
                    ssrc_known,
                    rtcp_configured,
                    base_seq: [100, 50, 65534],
                    jump: 7,
                });
            }
        }
    }
    v
}

/// Enumerate every sequence of exactly `len` symbols for one setting, sharded by first symbol.
fn enumerate(setting: &Setting, len: usize, alpha: &[Sym]) -> (u64, u64, Option<(Vec<Sym>, Fail)>) {
    use std::sync::atomic::{AtomicBool, AtomicU64};
    let evals = AtomicU64::new(0);
    let nontrivial = AtomicU64::new(0);
    let stop = AtomicBool::new(false);
    let fail: parking_lot::Mutex<Option<(Vec<Sym>, Fail)>> = parking_lot::Mutex::new(None);
    let n = alpha.len();
    let shards: Vec<usize> = (0..n).collect();
    let threads = std::thread::available_parallelism().map(|x| x.get()).unwrap_or(8).min(16);
    let next = AtomicU64::new(0);
    std::thread::scope(|sc| {
        for _ in 0..threads {
            sc.spawn(|| {
                loop {
                    let k = next.fetch_add(1, Ordering::Relaxed) as usize;
                    if k >= shards.len() || stop.load(Ordering::Relaxed) {
                        break;
                    }
                    let first = shards[k];
                    let mut idx = vec![0usize; len];
                    idx[0] = first;
                    let mut seq: Vec<Sym> = idx.iter().map(|&i| alpha[i]).collect();
                    let mut local_e = 0u64;
                    let mut local_n = 0u64;
                    'outer: loop {
                        for (p, &i) in idx.iter().enumerate() {
                            seq[p] = alpha[i];
                        }
                        local_e += 1;
                        match interpret(setting, &seq) {
                            Ok(sources) => {
                                if sources >= 2 {
                                    local_n += 1;
                                }
                            }
                            Err(f) => {
                                let mut g = fail.lock();
                                if g.is_none() {
                                    *g = Some((seq.clone(), f));
                                }
                                stop.store(true, Ordering::Relaxed);
                                break 'outer;
                            }
                        }
                        // odometer over positions 1..len
                        let mut p = len;
                        loop {
                            if p == 1 {
                                break 'outer;
                            }
                            p -= 1;
                            idx[p] += 1;
                            if idx[p] < n {
                                break;
                            }
                            idx[p] = 0;
                        }
                        if len == 1 {
                            break;
                        }
                    }
                    evals.fetch_add(local_e, Ordering::Relaxed);
                    nontrivial.fetch_add(local_n, Ordering::Relaxed);
                }
            });
        }
    });
    (
        evals.load(Ordering::Relaxed),
        nontrivial.load(Ordering::Relaxed),
        fail.into_inner(),
    )
}

/// Greedy shrink of a failing enumerated sequence: drop symbols while it still fails.
fn shrink_seq(setting: &Setting, mut seq: Vec<Sym>) -> (Vec<Sym>, Fail) {
    let mut f = interpret(setting, &seq).err().expect("must fail");
    let mut i = 0;
    while i < seq.len() {
        let mut t = seq.clone();
        t.remove(i);
        match interpret(setting, &t) {
            Err(f2) => {
                seq = t;
                f = f2;
            }
            Ok(_) => i += 1,
        }
    }
    (seq, f)
}

fn sym_strategy() -> impl Strategy<Value = Sym> {
    prop_oneof![
        10 => (0..3u8, any::<bool>(), prop::bool::weighted(0.7)).prop_map(|(src, marker, next)| Sym::Rtp { src, marker, next }),
        8 => (0..3u8, prop::bool::weighted(0.15), prop::bool::weighted(0.7)).prop_map(|(src, marker, next)| Sym::Rtp { src, marker, next }),
        3 => (0..3u8).prop_map(|src| Sym::RtpOther { src }),
        3 => (0..3u8, prop_oneof![2 => Just(201u8), 1 => Just(200u8), 3 => 200..=211u8]).prop_map(|(src, pt)| Sym::Rtcp { src, pt }),
        1 => Just(Sym::Reset),
        1 => (0..6u8).prop_map(|to| Sym::Retarget { to }),
        1 => (0..6u8).prop_map(|to| Sym::SelectedPair { to }),
        1 => (0..7u8).prop_map(|to| Sym::SetRtcp { to }),
    ]
}

fn seq_base() -> impl Strategy<Value = u16> {
    prop_oneof![
        Just(0u16),
        Just(1u16),
        Just(65535u16),
        Just(65534u16),
        Just(32767u16),
        Just(32768u16),
        any::<u16>(),
    ]
}

fn case_strategy() -> impl Strategy<Value = Case> {
    (
        0..=8u8,
        any::<bool>(),
        any::<bool>(),
        [seq_base(), seq_base(), seq_base()],
        prop_oneof![Just(2u16), Just(7), Just(32768), Just(65535), any::<u16>()],
        prop::collection::vec(sym_strategy(), 1..60),
    )
        .prop_map(|(probation, ssrc_known, rtcp_configured, base_seq, jump, seq)| Case {
            setting: Setting {
                probation,
                ssrc_known,
                rtcp_configured,
                base_seq,
                jump,
            },
            seq,
        })
}

fn check_case(c: &Case, rec: &CaseRec) -> Check {
    let sources = interpret(&c.setting, &c.seq)?;
    rec.set_nontrivial(sources >= 2);
    rec.label(format!("probation={}", c.setting.probation));
    if c.seq.iter().any(|s| matches!(s, Sym::Reset | Sym::Retarget { .. })) {
        rec.label("has-reset-or-retarget");
    }
    if c.setting.base_seq.iter().any(|b| *b >= 65500) {
        rec.label("seq-base-near-wrap");
    }
    Ok(())
}

pub fn run(ctx: &mut Ctx) {
    ctx.level = "exploration";
    ctx.rule = "exhaustive: every sequence of length <= L over a 26-symbol alphabet ({source A,B,C} x {RTP matching SSRC x marker x seq step, RTP other SSRC, RTCP type 201 / 210 (random: 200..=211) with a report block on the expected SSRC} + reset + signaling retarget x2 + selected-pair update x2) for each setting (probation x SSRC known/unknown x RTCP address configured); random: proptest sequences up to 60 symbols, probation 0..8, random/wrapping sequence bases. Non-trivial = traffic from >= 2 distinct sources after latching was enabled; enumerated sequences are distinct by construction, random ones by digest.".into();
    ctx.assumptions = vec![
        "initial remote address is non-zero (signaling supplied one) and the socket is not an inbound TCP stream".into(),
        "'lowest first_seq' tie-breaks are accepted under any of: first-arrival or minimum-seen sequence number, plain or wrap-aware comparison".into(),
    ];

    // random sequences (also the replay / regression path)
    let n_random = ctx.scale(100_000u32, 2_000_000u32);
    ctx.sub("random", n_random, case_strategy(), check_case);

    if ctx.is_replay() {
        if let Some(c) = ctx.replay_case::<Case>("enum") {
            ctx.run_one("enum", &c, &check_case);
        }
        return;
    }
    for c in ctx.regression_cases::<Case>("enum") {
        ctx.run_one("enum", &c, &check_case);
    }

    let alpha = alphabet();
    let (max_len, max_probation) = ctx.scale((4usize, 3u8), (5usize, 3u8));
    let mut samples = Vec::new();
    let mut complete = true;
    'all: for setting in settings(max_probation) {
        for len in 1..=max_len {
            let (e, n, fail) = enumerate(&setting, len, &alpha);
            let label = format!("enum:len={}", len);
            ctx.bulk("enum", e, n, &[(label.as_str(), e)], Vec::new());
            if let Some((seq, _f)) = fail {
                let (seq, f) = shrink_seq(&setting, seq);
                let case = Case { setting: setting.clone(), seq };
                let v = serde_json::to_value(&case).unwrap();
                if ctx.is_known(&f.signature) {
                    ctx.note_excluded(&f.signature, 1);
                } else {
                    ctx.violation("enum", &v, &f);
                }
                complete = false;
                break 'all;
            }
        }
        if samples.len() < 3 {
            let k = pick((setting.probation as u16) << 13, alpha.len());
            samples.push(json!({"setting": setting, "seq": [alpha[k], alpha[(k + 9) % alpha.len()], alpha[1], alpha[20]]}));
        }
    }
    // thorough: length 6 for the probation settings where commitment needs the most packets
    if ctx.thorough() && complete {
        for setting in settings(3).into_iter().filter(|s| s.probation == 3 && s.ssrc_known) {
            let (e, n, fail) = enumerate(&setting, 6, &alpha);
            ctx.bulk("enum", e, n, &[("enum:len=6", e)], Vec::new());
            if let Some((seq, _)) = fail {
                let (seq, f) = shrink_seq(&setting, seq);
                let case = Case { setting: setting.clone(), seq };
                ctx.violation("enum", &serde_json::to_value(&case).unwrap(), &f);
                complete = false;
                break;
            }
        }
    }
    ctx.bulk("enum", 0, 0, &[], samples);
    ctx.set_exhaustive(false); // the random part is a sample; the enumerated part is complete to its bound
    ctx.set_extra("enumeration_complete_to_bound", json!(complete));
    ctx.set_extra("enumeration_max_len", json!(max_len));
    ctx.set_extra("alphabet_size", json!(alpha.len()));
}
