//! C15 — RTP and RTCP encode/decode are mutually inverse and standards-conformant.
//!
//! RTP half (this file): logical packet round trip, wire-level differential against
//! the webrtc-rs `rtp` crate and a harness-owned RFC 3550 / RFC 8285 byte builder,
//! header-extension set/get, RTX wrap/unwrap. RTCP half: `c15_rtcp.rs`.

use crate::engine::{CaseRec, Check, Ctx, Fail};
use crate::ensure;
use crate::props::c15_rtcp;
use crate::refimpl::rtpwire::{self, Elem, RtpFields};
use bytes::Bytes;
use proptest::prelude::*;
use rustrtc::rtp::{RtpHeader, RtpHeaderExtension, RtpPacket};
use rustrtc::rtx::{RtxSenderConfig, decode_osn, encode_osn, unwrap_rtx_packet, wrap_rtx_packet};
use serde::{Deserialize, Serialize};
use webrtc_util::marshal::{Marshal, Unmarshal};

// ---------------------------------------------------------------- shared strategies

pub fn u16b() -> impl Strategy<Value = u16> {
    prop_oneof![
        1 => Just(0u16), 1 => Just(1u16), 1 => Just(65535u16), 1 => Just(65534u16),
        1 => Just(32767u16), 1 => Just(32768u16), 4 => any::<u16>(),
    ]
}

pub fn u32b() -> impl Strategy<Value = u32> {
    prop_oneof![
        1 => Just(0u32), 1 => Just(1u32), 1 => Just(u32::MAX), 1 => Just(0x7FFF_FFFFu32),
        1 => Just(0x8000_0000u32), 5 => any::<u32>(),
    ]
}

/// Byte string of a boundary-biased length; long ones are a cheap deterministic pattern.
pub fn blob(max: usize) -> impl Strategy<Value = Vec<u8>> {
    let small = max.min(24);
    prop_oneof![
        3 => prop::collection::vec(any::<u8>(), 0..=small),
        2 => (prop_oneof![Just(0usize), Just(1), Just(2), Just(3), Just(4), Just(max), 0..=max], any::<u8>(), 1u8..=255)
            .prop_map(move |(n, seed, step)| (0..n.min(max)).map(|i| seed.wrapping_add((i as u8).wrapping_mul(step))).collect()),
    ]
}

pub fn run_guarded<T>(f: impl FnOnce() -> T) -> Option<T> {
    std::panic::catch_unwind(std::panic::AssertUnwindSafe(f)).ok()
}

// ---------------------------------------------------------------- logical RTP packet

#[derive(Clone, Debug, Serialize, Deserialize, PartialEq, Eq)]
pub struct ElemL {
    pub id: u8,
    #[serde(with = "crate::engine::hexbytes")]
    pub data: Vec<u8>,
}

#[derive(Clone, Debug, Serialize, Deserialize)]
pub enum ExtL {
    None,
    /// RFC 8285 one-byte form; gaps[i] padding bytes precede element i
    OneByte { elems: Vec<ElemL>, gaps: Vec<u8> },
    /// RFC 8285 two-byte form
    TwoByte { elems: Vec<ElemL>, gaps: Vec<u8> },
    /// RFC 3550 §5.3.1 opaque extension with another profile; data is 32-bit aligned
    Raw {
        profile: u16,
        #[serde(with = "crate::engine::hexbytes")]
        data: Vec<u8>,
    },
}

#[derive(Clone, Debug, Serialize, Deserialize)]
pub struct RtpL {
    pub marker: bool,
    pub pt: u8,
    pub seq: u16,
    pub ts: u32,
    pub ssrc: u32,
    pub csrcs: Vec<u32>,
    pub ext: ExtL,
    #[serde(with = "crate::engine::hexbytes")]
    pub payload: Vec<u8>,
    pub padding: u8,
}

fn to_elems(e: &[ElemL]) -> Vec<Elem> {
    e.iter().map(|x| Elem { id: x.id, data: x.data.clone() }).collect()
}

impl ExtL {
    /// (profile, block) with interior padding as described by `gaps`.
    pub fn block(&self, with_gaps: bool) -> Option<(u16, Vec<u8>)> {
        match self {
            ExtL::None => None,
            ExtL::OneByte { elems, gaps } => Some((
                0xBEDE,
                rtpwire::one_byte_block(&to_elems(elems), if with_gaps { gaps } else { &[] }),
            )),
            ExtL::TwoByte { elems, gaps } => Some((
                0x1000,
                rtpwire::two_byte_block(&to_elems(elems), if with_gaps { gaps } else { &[] }),
            )),
            ExtL::Raw { profile, data } => Some((*profile, data.clone())),
        }
    }
    pub fn elems(&self) -> &[ElemL] {
        match self {
            ExtL::OneByte { elems, .. } | ExtL::TwoByte { elems, .. } => elems,
            _ => &[],
        }
    }
}

impl RtpL {
    pub fn to_rtc(&self, with_gaps: bool) -> RtpPacket {
        let mut h = RtpHeader::new(self.pt, self.seq, self.ts, self.ssrc);
        h.marker = self.marker;
        h.csrcs = self.csrcs.clone();
        h.extension = self.ext.block(with_gaps).map(|(p, d)| RtpHeaderExtension::new(p, d));
        RtpPacket { header: h, payload: Bytes::from(self.payload.clone()), padding_len: self.padding }
    }

    pub fn wire(&self, with_gaps: bool, pad_fill: u8) -> Vec<u8> {
        let blk = self.ext.block(with_gaps);
        rtpwire::rtp_packet(&RtpFields {
            marker: self.marker,
            pt: self.pt,
            seq: self.seq,
            ts: self.ts,
            ssrc: self.ssrc,
            csrcs: &self.csrcs,
            ext: blk.as_ref().map(|(p, d)| (*p, d.as_slice())),
            payload: &self.payload,
            padding: self.padding,
            pad_fill,
        })
    }

    pub fn to_ref(&self) -> rtp::packet::Packet {
        let (extension, extension_profile, extensions) = match &self.ext {
            ExtL::None => (false, 0, vec![]),
            ExtL::OneByte { elems, .. } => (true, 0xBEDE, elems.clone()),
            ExtL::TwoByte { elems, .. } => (true, 0x1000, elems.clone()),
            ExtL::Raw { profile, data } => (true, *profile, vec![ElemL { id: 0, data: data.clone() }]),
        };
        rtp::packet::Packet {
            header: rtp::header::Header {
                version: 2,
                padding: self.padding != 0,
                extension,
                marker: self.marker,
                payload_type: self.pt,
                sequence_number: self.seq,
                timestamp: self.ts,
                ssrc: self.ssrc,
                csrc: self.csrcs.clone(),
                extension_profile,
                extensions: extensions
                    .into_iter()
                    .map(|e| rtp::header::Extension { id: e.id, payload: Bytes::from(e.data) })
                    .collect(),
                extensions_padding: 0,
            },
            payload: Bytes::from(self.payload.clone()),
        }
    }

    /// Boundary coordinates used (the non-trivial rule).
    pub fn boundaries(&self, rec: &CaseRec) -> bool {
        let mut b = false;
        let mut l = |c: bool, s: &str| {
            if c {
                rec.label(s);
                b = true;
            }
        };
        l(self.csrcs.len() == 15, "rtp:csrc=15");
        l(self.padding == 255, "rtp:padding=255");
        l(self.padding == 1, "rtp:padding=1");
        l(self.payload.is_empty(), "rtp:payload-empty");
        l(self.seq == 0 || self.seq == 65535, "rtp:seq-boundary");
        l(self.ts == 0 || self.ts == u32::MAX, "rtp:ts-boundary");
        l(self.pt == 127 || self.pt == 0, "rtp:pt-boundary");
        match &self.ext {
            ExtL::None => {}
            ExtL::OneByte { elems, gaps } => {
                l(true, "rtp:ext-one-byte");
                l(elems.iter().any(|e| e.data.len() == 16), "rtp:ext-elem-16");
                l(elems.len() == 14, "rtp:ext-14-elems");
                l(elems.is_empty(), "rtp:ext-empty-block");
                l(gaps.iter().any(|g| *g > 0), "rtp:ext-interior-padding");
            }
            ExtL::TwoByte { elems, gaps } => {
                l(true, "rtp:ext-two-byte");
                l(elems.iter().any(|e| e.data.is_empty()), "rtp:ext2-elem-0");
                l(elems.iter().any(|e| e.data.len() == 255), "rtp:ext2-elem-255");
                l(gaps.iter().any(|g| *g > 0), "rtp:ext-interior-padding");
            }
            ExtL::Raw { .. } => l(true, "rtp:ext-raw-profile"),
        }
        b
    }
}

fn one_byte_ext() -> impl Strategy<Value = ExtL> {
    let ids: Vec<u8> = (1..=14).collect();
    prop_oneof![
        1 => Just(14usize), 1 => Just(0usize), 1 => Just(1usize), 5 => 0usize..=14
    ]
    .prop_flat_map(move |n| proptest::sample::subsequence(ids.clone(), n).prop_shuffle())
    .prop_flat_map(|ids| {
        let n = ids.len();
        (
            Just(ids),
            prop::collection::vec(
                prop_oneof![2 => Just(1usize), 2 => Just(16usize), 1 => Just(3usize), 4 => 1usize..=16]
                    .prop_flat_map(|l| prop::collection::vec(any::<u8>(), l)),
                n,
            ),
            prop::collection::vec(prop_oneof![6 => Just(0u8), 1 => 1u8..=3], n),
        )
    })
    .prop_map(|(ids, datas, gaps)| ExtL::OneByte {
        elems: ids.into_iter().zip(datas).map(|(id, data)| ElemL { id, data }).collect(),
        gaps,
    })
}

fn two_byte_ext() -> impl Strategy<Value = ExtL> {
    prop::collection::btree_set(
        prop_oneof![1 => Just(1u8), 1 => Just(255u8), 1 => Just(14u8), 1 => Just(15u8), 1 => Just(16u8), 4 => 1u8..=255],
        0..6,
    )
    .prop_map(|s| s.into_iter().collect::<Vec<u8>>())
    .prop_shuffle()
    .prop_flat_map(|ids| {
        let n = ids.len();
        (
            Just(ids),
            prop::collection::vec(
                prop_oneof![2 => Just(0usize), 1 => Just(1usize), 1 => Just(16usize), 1 => Just(17usize), 1 => Just(255usize), 4 => 0usize..=40]
                    .prop_flat_map(|l| blob(l).prop_map(move |mut v| { v.resize(l, 0x5A); v })),
                n,
            ),
            prop::collection::vec(prop_oneof![6 => Just(0u8), 1 => 1u8..=3], n),
        )
    })
    .prop_map(|(ids, datas, gaps)| ExtL::TwoByte {
        elems: ids.into_iter().zip(datas).map(|(id, data)| ElemL { id, data }).collect(),
        gaps,
    })
}

fn raw_ext() -> impl Strategy<Value = ExtL> {
    (any::<u16>(), 0usize..=8, any::<u8>()).prop_map(|(p, words, seed)| {
        // 0xBEDE and the RFC 8285 two-byte range 0x1000..=0x100F have their own generators
        let profile = if p == 0xBEDE || (0x1000..=0x100F).contains(&p) { 0xABCD } else { p };
        ExtL::Raw { profile, data: (0..words * 4).map(|i| seed.wrapping_add(i as u8)).collect() }
    })
}

pub fn ext_strategy() -> impl Strategy<Value = ExtL> {
    prop_oneof![
        3 => Just(ExtL::None),
        4 => one_byte_ext(),
        3 => two_byte_ext(),
        1 => raw_ext(),
    ]
}

pub fn rtp_strategy() -> impl Strategy<Value = RtpL> {
    (
        any::<bool>(),
        prop_oneof![1 => Just(0u8), 1 => Just(127u8), 1 => Just(96u8), 3 => 0u8..=127],
        u16b(),
        u32b(),
        u32b(),
        prop_oneof![3 => Just(0usize), 2 => Just(15usize), 1 => Just(1usize), 2 => 0usize..=15]
            .prop_flat_map(|n| prop::collection::vec(u32b(), n)),
        ext_strategy(),
        blob(1400),
        prop_oneof![5 => Just(0u8), 2 => Just(1u8), 2 => Just(255u8), 1 => Just(4u8), 2 => any::<u8>()],
    )
        .prop_map(|(marker, pt, seq, ts, ssrc, csrcs, ext, payload, padding)| RtpL {
            marker, pt, seq, ts, ssrc, csrcs, ext, payload, padding,
        })
}

// ---------------------------------------------------------------- RTP oracles

fn ref_parse_rtp(w: &[u8]) -> Result<rtp::packet::Packet, String> {
    let mut b = Bytes::copy_from_slice(w);
    match run_guarded(|| rtp::packet::Packet::unmarshal(&mut b)) {
        Some(Ok(p)) => Ok(p),
        Some(Err(e)) => Err(format!("reference error: {e}")),
        None => Err("reference panicked".into()),
    }
}

/// Field-by-field comparison of a rustrtc packet with what the reference parsed from the same bytes.
fn cmp_rtc_ref(p: &RtpPacket, r: &rtp::packet::Packet) -> Result<(), String> {
    let h = &p.header;
    let rh = &r.header;
    macro_rules! eqf {
        ($a:expr, $b:expr, $n:expr) => {
            if ($a) != ($b) {
                return Err(format!("{}: rustrtc {:?} vs reference {:?}", $n, $a, $b));
            }
        };
    }
    eqf!(2u8, rh.version, "version");
    eqf!(p.padding_len != 0, rh.padding, "padding flag");
    eqf!(h.marker, rh.marker, "marker");
    eqf!(h.payload_type, rh.payload_type, "payload type");
    eqf!(h.sequence_number, rh.sequence_number, "sequence number");
    eqf!(h.timestamp, rh.timestamp, "timestamp");
    eqf!(h.ssrc, rh.ssrc, "ssrc");
    eqf!(h.csrcs, rh.csrc, "csrc list");
    eqf!(h.extension.is_some(), rh.extension, "extension flag");
    if let Some(e) = &h.extension {
        eqf!(e.profile, rh.extension_profile, "extension profile");
        if e.profile == 0xBEDE || e.profile == 0x1000 {
            for x in &rh.extensions {
                // first occurrence wins in both implementations
                let first = rh.extensions.iter().find(|y| y.id == x.id).unwrap();
                let got = h.get_extension(x.id);
                if got.as_ref() != Some(&first.payload) {
                    return Err(format!("extension id {}: rustrtc {:?} vs reference {:?}", x.id, got, first.payload));
                }
            }
        } else {
            eqf!(rh.extensions.len(), 1usize, "raw extension count");
            eqf!(e.data, rh.extensions[0].payload, "raw extension data");
        }
    }
    eqf!(p.payload, r.payload, "payload");
    Ok(())
}

fn cmp_rtc_logical(p: &RtpPacket, c: &RtpL, block: &Option<(u16, Vec<u8>)>, padding: u8) -> Result<(), String> {
    let h = &p.header;
    macro_rules! eqf {
        ($a:expr, $b:expr, $n:expr) => {
            if ($a) != ($b) {
                return Err(format!("{}: parsed {:?} vs logical {:?}", $n, $a, $b));
            }
        };
    }
    eqf!(h.marker, c.marker, "marker");
    eqf!(h.payload_type, c.pt, "payload type");
    eqf!(h.sequence_number, c.seq, "sequence number");
    eqf!(h.timestamp, c.ts, "timestamp");
    eqf!(h.ssrc, c.ssrc, "ssrc");
    eqf!(h.csrcs, c.csrcs, "csrcs");
    let got = h.extension.as_ref().map(|e| (e.profile, e.data.to_vec()));
    eqf!(&got, block, "extension block");
    eqf!(p.payload.as_ref(), c.payload.as_slice(), "payload");
    eqf!(p.padding_len, padding, "padding length");
    Ok(())
}

/// get_extension agrees with the logical element list for every id.
fn check_get_extension(h: &RtpHeader, ext: &ExtL) -> Check {
    let ids: Vec<u8> = match ext {
        ExtL::OneByte { .. } => (1..=14).collect(),
        ExtL::TwoByte { .. } => (1..=255).collect(),
        _ => vec![1, 7, 14, 200],
    };
    for id in ids {
        let want = ext.elems().iter().find(|e| e.id == id).map(|e| e.data.clone());
        let got = h.get_extension(id).map(|b| b.to_vec());
        ensure!(
            got == want,
            "get-extension-mismatch",
            "get_extension({}) = {:?}, logical element {:?}",
            id, got, want
        );
    }
    Ok(())
}

pub fn check_rtp_roundtrip(c: &RtpL, rec: &CaseRec) -> Check {
    rec.set_nontrivial(c.boundaries(rec));
    let p = c.to_rtc(true);
    let w = p
        .marshal()
        .map_err(|e| Fail::new("rtp-marshal-rejected-wellformed", format!("marshal error {e} for {:?}", c)))?;
    let mut w2 = vec![0xEE; 3];
    p.marshal_into(&mut w2);
    ensure!(w2 == w, "rtp-marshal-into-differs", "marshal_into produced different bytes than marshal");
    // standards conformance: identical to the RFC 3550/8285 byte layout built by the harness
    let model = c.wire(true, c.padding);
    ensure!(
        w == model,
        "rtp-marshal-not-rfc-layout",
        "marshal bytes differ from RFC layout: got {} want {}",
        crate::engine::hex(&w[..w.len().min(80)]),
        crate::engine::hex(&model[..model.len().min(80)])
    );
    // inverse law
    let q = RtpPacket::parse(&w)
        .map_err(|e| Fail::new("rtp-parse-rejected-own-output", format!("parse(marshal(x)) failed: {e}")))?;
    ensure!(q == p, "rtp-roundtrip-mismatch", "parse(marshal(x)) != x: got {:?} want {:?}", q, p);
    let q2 = RtpPacket::parse_bytes(Bytes::from(w.clone()))
        .map_err(|e| Fail::new("rtp-parse-rejected-own-output", format!("parse_bytes failed: {e}")))?;
    ensure!(q2 == p, "rtp-roundtrip-mismatch", "parse_bytes(marshal(x)) != x");
    // independent implementation reads the same fields
    let r = ref_parse_rtp(&w).map_err(|e| Fail::new("rtp-ref-rejects-marshalled", e))?;
    cmp_rtc_ref(&p, &r).map_err(|e| Fail::new("rtp-ref-fields-differ", e))?;
    let want_elems: Vec<(u8, Vec<u8>)> = match &c.ext {
        ExtL::Raw { data, .. } => vec![(0, data.clone())],
        e => e.elems().iter().map(|x| (x.id, x.data.clone())).collect(),
    };
    let got_elems: Vec<(u8, Vec<u8>)> = r.header.extensions.iter().map(|x| (x.id, x.payload.to_vec())).collect();
    ensure!(
        got_elems == want_elems,
        "rtp-ref-extension-list-differs",
        "reference sees extensions {:?}, logical {:?}",
        got_elems, want_elems
    );
    check_get_extension(&q.header, &c.ext)
}

#[derive(Clone, Debug, Serialize, Deserialize)]
pub struct RtpWireCase {
    pub pkt: RtpL,
    /// true: bytes marshalled by the webrtc-rs reference; false: harness RFC builder
    pub via_ref: bool,
    pub pad_fill: u8,
}

pub fn rtp_wire_strategy() -> impl Strategy<Value = RtpWireCase> {
    (rtp_strategy(), any::<bool>(), prop_oneof![Just(0u8), any::<u8>()])
        .prop_map(|(pkt, via_ref, pad_fill)| RtpWireCase { pkt, via_ref, pad_fill })
}

pub fn check_rtp_wire(c: &RtpWireCase, rec: &CaseRec) -> Check {
    rec.set_nontrivial(c.pkt.boundaries(rec));
    rec.label(if c.via_ref { "rtpwire:reference-marshalled" } else { "rtpwire:rfc-builder" });
    let (w, block, padding) = if c.via_ref {
        let rp = c.pkt.to_ref();
        let w = match run_guarded(|| rp.marshal()) {
            Some(Ok(b)) => b.to_vec(),
            other => {
                return Err(Fail::new(
                    "harness-reference-marshal-failed",
                    format!("reference could not marshal {:?}: {:?}", c.pkt, other.map(|r| r.map(|_| ()))),
                ));
            }
        };
        // the reference pads to the next multiple of 4 (a full word when already aligned)
        let padding = if c.pkt.padding == 0 {
            0
        } else {
            let r = c.pkt.payload.len() % 4;
            if r == 0 { 4 } else { (4 - r) as u8 }
        };
        (w, c.pkt.ext.block(false), padding)
    } else {
        (c.pkt.wire(true, c.pad_fill), c.pkt.ext.block(true), c.pkt.padding)
    };
    let p = RtpPacket::parse(&w).map_err(|e| {
        Fail::new("rtp-parse-rejected-canonical", format!("rustrtc rejects canonical wire packet: {e}; {}", crate::engine::hex(&w[..w.len().min(96)])))
    })?;
    cmp_rtc_logical(&p, &c.pkt, &block, padding).map_err(|e| Fail::new("rtp-parse-fields-differ", e))?;
    let r = ref_parse_rtp(&w).map_err(|e| Fail::new("harness-reference-rejects-canonical", e))?;
    cmp_rtc_ref(&p, &r).map_err(|e| Fail::new("rtp-ref-fields-differ", e))?;
    check_get_extension(&p.header, &c.pkt.ext)?;
    // marshal(parse(w)) read by the reference gives the same fields as w read by the reference
    let w2 = p
        .marshal()
        .map_err(|e| Fail::new("rtp-remarshal-rejected", format!("marshal(parse(w)) failed: {e}")))?;
    let r2 = ref_parse_rtp(&w2).map_err(|e| Fail::new("rtp-ref-rejects-marshalled", e))?;
    ensure!(
        r2 == r,
        "rtp-remarshal-ref-fields-differ",
        "reference parses marshal(parse(w)) to {:?} but w to {:?}",
        r2, r
    );
    let keep = w.len() - padding as usize;
    ensure!(
        w2.len() == w.len() && w2[..keep] == w[..keep] && w2.last() == w.last(),
        "rtp-remarshal-bytes-differ",
        "marshal(parse(w)) differs from w outside the ignorable padding octets"
    );
    let p2 = RtpPacket::parse(&w2).map_err(|e| Fail::new("rtp-parse-rejected-own-output", format!("{e}")))?;
    ensure!(p2 == p, "rtp-roundtrip-mismatch", "parse(marshal(parse(w))) != parse(w)");
    Ok(())
}

// ---------------------------------------------------------------- header extension set / get

#[derive(Clone, Debug, Serialize, Deserialize)]
pub struct ExtOp {
    pub id: u8,
    #[serde(with = "crate::engine::hexbytes")]
    pub data: Vec<u8>,
}

#[derive(Clone, Debug, Serialize, Deserialize)]
pub struct ExtCase {
    pub base: ExtL,
    pub ops: Vec<ExtOp>,
}

pub fn ext_case_strategy() -> impl Strategy<Value = ExtCase> {
    let op = (
        prop_oneof![12 => 1u8..=14, 1 => Just(0u8), 1 => Just(15u8), 1 => 16u8..=255],
        prop_oneof![3 => Just(1usize), 3 => Just(16usize), 8 => 1usize..=16, 1 => Just(0usize), 1 => Just(17usize)]
            .prop_flat_map(|l| prop::collection::vec(any::<u8>(), l)),
    )
        .prop_map(|(id, data)| ExtOp { id, data });
    (
        prop_oneof![3 => Just(ExtL::None), 8 => one_byte_ext(), 1 => two_byte_ext(), 1 => raw_ext()],
        prop::collection::vec(op, 1..8),
    )
        .prop_map(|(base, ops)| ExtCase { base, ops })
}

pub fn check_ext_set_get(c: &ExtCase, rec: &CaseRec) -> Check {
    let mut h = RtpHeader::new(96, 1, 2, 3);
    h.extension = c.base.block(true).map(|(p, d)| RtpHeaderExtension::new(p, d));
    let modifiable = matches!(c.base, ExtL::None | ExtL::OneByte { .. });
    let all_ids: Vec<u8> = if matches!(c.base, ExtL::TwoByte { .. }) { (1..=255).collect() } else { (1..=14).collect() };
    // ordered model of the element list
    let mut model: Vec<(u8, Vec<u8>)> = c.base.elems().iter().map(|e| (e.id, e.data.clone())).collect();
    let mut nontrivial = false;
    for (i, op) in c.ops.iter().enumerate() {
        let valid = (1..=14).contains(&op.id) && (1..=16).contains(&op.data.len());
        let before = h.clone();
        let before_get: Vec<Option<Bytes>> = all_ids.iter().map(|id| h.get_extension(*id)).collect();
        let res = h.set_extension(op.id, &op.data);
        match res {
            Err(e) => {
                ensure!(
                    !(valid && modifiable),
                    "set-extension-rejected-valid",
                    "op {} set_extension({}, {} bytes) on a one-byte/absent block failed: {}",
                    i, op.id, op.data.len(), e
                );
                ensure!(h == before, "set-extension-error-modified-header", "op {} failed with {} but changed the header", i, e);
                rec.label(if valid { "ext:set-rejected-unsupported-profile" } else { "ext:set-rejected-invalid-arg" });
            }
            Ok(()) => {
                ensure!(
                    valid,
                    "set-extension-accepted-invalid",
                    "op {} set_extension({}, {} bytes) is not encodable in the one-byte form but returned Ok",
                    i, op.id, op.data.len()
                );
                let got = h.get_extension(op.id).map(|b| b.to_vec());
                ensure!(
                    got.as_deref() == Some(op.data.as_slice()),
                    "set-then-get-mismatch",
                    "op {} set_extension({}, {}) then get_extension = {:?}",
                    i, op.id, crate::engine::hex(&op.data), got
                );
                for (k, id) in all_ids.iter().enumerate() {
                    if *id == op.id {
                        continue;
                    }
                    let now = h.get_extension(*id);
                    ensure!(
                        now == before_get[k],
                        "set-extension-disturbed-other",
                        "op {} set_extension({}) changed extension {}: {:?} -> {:?}",
                        i, op.id, id, before_get[k], now
                    );
                }
                if let Some(m) = model.iter_mut().find(|m| m.0 == op.id) {
                    m.1 = op.data.clone();
                    rec.label("ext:replace-existing");
                    if !model.is_empty() && model.len() > 1 {
                        nontrivial = true;
                    }
                } else {
                    if !model.is_empty() {
                        nontrivial = true;
                    }
                    model.push((op.id, op.data.clone()));
                    rec.label("ext:append-new");
                }
                if op.data.len() == 16 || op.data.len() == 1 {
                    nontrivial = true;
                    rec.label("ext:set-len-boundary");
                }
                // the rebuilt block is still a conformant packet: the reference sees exactly the model list
                let pkt = RtpPacket { header: h.clone(), payload: Bytes::from_static(b"xy"), padding_len: 0 };
                let w = pkt.marshal().map_err(|e| {
                    Fail::new("set-extension-unmarshalable", format!("op {}: header no longer marshals: {e}", i))
                })?;
                let r = ref_parse_rtp(&w).map_err(|e| Fail::new("set-extension-ref-rejects", e))?;
                let got: Vec<(u8, Vec<u8>)> = r.header.extensions.iter().map(|x| (x.id, x.payload.to_vec())).collect();
                ensure!(
                    got == model && r.header.extension_profile == 0xBEDE && r.payload.as_ref() == b"xy",
                    "set-extension-ref-list-differs",
                    "op {}: reference sees {:?}, model {:?}",
                    i, got, model
                );
            }
        }
    }
    if matches!(&c.base, ExtL::OneByte { gaps, .. } if gaps.iter().any(|g| *g > 0)) {
        rec.label("ext:base-interior-padding");
    }
    rec.set_nontrivial(nontrivial);
    Ok(())
}

// ---------------------------------------------------------------- RTX

#[derive(Clone, Debug, Serialize, Deserialize)]
pub struct RtxCase {
    pub orig: RtpL,
    pub rtx_ssrc: u32,
    pub rtx_pt: u8,
    pub rtx_seq: u16,
    /// send the RTX packet through the reference marshaller instead of rustrtc's
    pub via_ref: bool,
}

pub fn rtx_strategy() -> impl Strategy<Value = RtxCase> {
    (rtp_strategy(), u32b(), 0u8..=127, u16b(), any::<bool>())
        .prop_map(|(orig, rtx_ssrc, rtx_pt, rtx_seq, via_ref)| RtxCase { orig, rtx_ssrc, rtx_pt, rtx_seq, via_ref })
}

pub fn check_rtx(c: &RtxCase, rec: &CaseRec) -> Check {
    let o = c.orig.to_rtc(true);
    let cfg = RtxSenderConfig { rtx_ssrc: c.rtx_ssrc, rtx_payload_type: c.rtx_pt };
    let x = wrap_rtx_packet(&o, &cfg, c.rtx_seq);
    // RFC 4588 §4: RTX header carries the RTX stream's SSRC / PT / own sequence number, the original timestamp;
    // payload = OSN (2 bytes, network order) followed by the original payload
    ensure!(
        x.header.ssrc == c.rtx_ssrc && x.header.payload_type == c.rtx_pt && x.header.sequence_number == c.rtx_seq,
        "rtx-header-identity",
        "RTX packet header {:?} does not carry the RTX stream identity {:?}/{}",
        x.header, cfg, c.rtx_seq
    );
    ensure!(
        x.header.timestamp == c.orig.ts && x.header.marker == c.orig.marker,
        "rtx-header-timestamp-marker",
        "RTX packet timestamp/marker {:?} differ from original",
        x.header
    );
    let mut want_payload = c.orig.seq.to_be_bytes().to_vec();
    want_payload.extend_from_slice(&c.orig.payload);
    ensure!(x.payload.as_ref() == want_payload.as_slice(), "rtx-payload-layout", "RTX payload is not OSN || original payload");
    ensure!(decode_osn(&encode_osn(c.orig.seq)) == Some(c.orig.seq), "rtx-osn-codec", "decode_osn(encode_osn(x)) != x");
    // through the wire
    let w = if c.via_ref {
        let rp = rtp::packet::Packet {
            header: rtp::header::Header {
                version: 2,
                marker: c.orig.marker,
                payload_type: c.rtx_pt,
                sequence_number: c.rtx_seq,
                timestamp: c.orig.ts,
                ssrc: c.rtx_ssrc,
                ..Default::default()
            },
            payload: Bytes::from(want_payload.clone()),
        };
        rp.marshal().map_err(|e| Fail::new("harness-reference-marshal-failed", format!("{e}")))?.to_vec()
    } else {
        x.marshal().map_err(|e| Fail::new("rtx-marshal-failed", format!("{e}")))?
    };
    let r = ref_parse_rtp(&w).map_err(|e| Fail::new("rtx-ref-rejects", e))?;
    ensure!(
        r.payload.as_ref() == want_payload.as_slice() && r.header.ssrc == c.rtx_ssrc && r.header.sequence_number == c.rtx_seq,
        "rtx-ref-fields-differ",
        "reference reads the RTX packet differently: {:?}",
        r.header
    );
    let xr = RtpPacket::parse(&w).map_err(|e| Fail::new("rtx-parse-failed", format!("{e}")))?;
    let u = unwrap_rtx_packet(&xr, c.orig.ssrc, c.orig.pt)
        .ok_or_else(|| Fail::new("rtx-unwrap-none", "unwrap_rtx_packet returned None for a wrapped packet"))?;
    ensure!(
        u.header.sequence_number == c.orig.seq
            && u.header.timestamp == c.orig.ts
            && u.header.marker == c.orig.marker
            && u.payload.as_ref() == c.orig.payload.as_slice(),
        "rtx-unwrap-mismatch",
        "unwrap(wrap(p)) = seq {} ts {} m {} payload {} bytes; original seq {} ts {} m {} payload {} bytes",
        u.header.sequence_number, u.header.timestamp, u.header.marker, u.payload.len(),
        c.orig.seq, c.orig.ts, c.orig.marker, c.orig.payload.len()
    );
    ensure!(
        u.header.ssrc == c.orig.ssrc && u.header.payload_type == c.orig.pt,
        "rtx-unwrap-identity",
        "unwrap did not apply the primary SSRC/PT"
    );
    // shorter than the OSN -> None
    let mut short = xr.clone();
    short.payload = Bytes::from_static(&[7]);
    ensure!(unwrap_rtx_packet(&short, 1, 1).is_none(), "rtx-unwrap-short-accepted", "1-byte RTX payload unwrapped");
    let mut nt = false;
    for (cond, l) in [
        (c.orig.seq == 0 || c.orig.seq == 65535, "rtx:osn-boundary"),
        (c.orig.payload.is_empty(), "rtx:empty-payload"),
        (c.orig.padding != 0, "rtx:orig-padded"),
        (!matches!(c.orig.ext, ExtL::None), "rtx:orig-has-extension"),
        (c.rtx_seq == 65535 || c.rtx_seq == 0, "rtx:rtx-seq-boundary"),
    ] {
        if cond {
            rec.label(l);
            nt = true;
        }
    }
    if c.orig.marker {
        rec.label("rtx:marker");
    }
    rec.label(if c.via_ref { "rtx:reference-marshalled" } else { "rtx:rustrtc-marshalled" });
    rec.set_nontrivial(nt);
    Ok(())
}

// ---------------------------------------------------------------- out-of-range RTP values (well-formed output)

pub fn run(ctx: &mut Ctx) {
    ctx.level = "exploration";
    ctx.rule = "Cases are logical RTP packets / RTCP compounds built by construction inside RFC field ranges with boundary bias (0/15 CSRCs; padding 0/1/255; one-byte ext with 0..14 elements of 1..16 bytes and interior padding; two-byte ext with elements of 0/255 bytes; other profiles; SR/RR with 0/1/31 blocks and packets_lost in {-2^23,-1,0,2^23-1}; SDES text 0/1/254/255 bytes incl. multi-byte UTF-8; BYE 0..31 sources, reason 0..255; FIR/PLI; NACK sets with wrap runs, dense 17-runs, duplicates; REMB mantissa 2^18-1 x exponent 0..46 and arbitrary u64, 0/255 SSRCs; TWCC run-length/1-bit/2-bit status chunks with small/large deltas, tail length = 0..3 mod 4; compounds of 1..6), plus the same values marshalled by webrtc-rs rtp/rtcp 0.17 or by a harness RFC byte builder (255-byte padding, padded RTCP, wrap-crossing NACK pairs, interleaved APP/XR). Non-trivial = the value uses at least one boundary coordinate (each is labelled in `classes`) or is a compound of >= 2 packets; distinct = distinct serialized case (digest).".into();
    ctx.assumptions = vec![
        "well-formed = inside RFC 3550/4585/5104/8285 field ranges: <=15 CSRCs, <=31 report blocks/chunks/sources, SDES/BYE text <=255 bytes, SDES item types 1..=255 (1..=8 when compared with the reference, which maps others to END), 24-bit packets_lost / TWCC reference time, >=1 NACK entry, FIR/REMB media SSRC 0; values outside are exercised only by the separate `oversize` sub-check whose oracle is 'error or well-formed truncated output'".into(),
        "logical equality: NACK loss lists compared as sets; REMB compared at the representable value (18 significant bits); TWCC tail compared modulo zero padding to 32 bits; a BYE without reason and one with an empty reason are the same packet on the reference side".into(),
        "REMB wire exponents whose value exceeds u64 are not generated (not representable in rustrtc's API); SR/RR profile-specific extensions are not generated (rustrtc does not model them)".into(),
        "TWCC feedback always reports at least one received packet (webrtc-rs rejects a chunk list that ends exactly at the packet end)".into(),
        "set_extension on a two-byte or non-RFC8285 block may fail (documented: only 0xBEDE is modifiable) provided the header is left unchanged".into(),
        "packets_for_nack is called once per fresh handler, so the 25 ms resend cooldown (wall clock) never takes part in a decision".into(),
    ];

    let n = |q: u32, t: u32| ctx.scale(q, t);
    ctx.sub("rtp-roundtrip", n(40_000, 1_000_000), rtp_strategy(), check_rtp_roundtrip);
    ctx.sub("rtp-wire", n(40_000, 1_000_000), rtp_wire_strategy(), check_rtp_wire);
    ctx.sub("ext-set-get", n(40_000, 1_000_000), ext_case_strategy(), check_ext_set_get);
    ctx.sub("rtx", n(30_000, 600_000), rtx_strategy(), check_rtx);
    c15_rtcp::run(ctx);
    ctx.set_exhaustive(false);
}
