//! C01 — reliable ordered data channels deliver every message exactly once, in order,
//! under every finite fault history (drop / duplicate / reorder / delay per SCTP packet,
//! addressed by side, chunk class and ordinal), including faults on association-setup chunks.

use super::sctp_common::*;
use crate::engine::{AsyncCheck, CaseRec, Check, Ctx, Fail};
use crate::net::fault::{Action, Rule, Side};
use crate::net::wire::SClass;
use proptest::prelude::*;
use serde::{Deserialize, Serialize};
use std::sync::Arc;

#[derive(Clone, Debug, Serialize, Deserialize)]
pub struct Case {
    pub w: Workload,
    pub n: NetSpec,
}

fn chan(id: u16) -> ChanSpec {
    ChanSpec {
        id,
        ordered: true,
        rel: Rel::Reliable,
        inband_by: None,
        label: format!("c{id}"),
        protocol: String::new(),
        late_ms: None,
    }
}

/// A partially reliable channel that shares the association with the channels under test. C01 asserts
/// nothing about what it delivers (C12 does); it is there because what happens to its chunks
/// (abandonment, FORWARD-TSN) must not cost a reliable channel a message.
fn background_chan(id: u16, rel: Rel, ordered: bool) -> ChanSpec {
    ChanSpec {
        id,
        ordered,
        rel,
        inband_by: None,
        label: format!("bg{id}"),
        protocol: String::new(),
        late_ms: None,
    }
}

fn background_strategy() -> impl Strategy<Value = Vec<(Rel, bool)>> {
    let one = (
        prop_oneof![
            3 => (0..3u16).prop_map(Rel::Rexmit),
            1 => (20..200u16).prop_map(Rel::Timed),
        ],
        any::<bool>(),
    );
    prop_oneof![
        13 => Just(Vec::new()),
        5 => prop::collection::vec(one.clone(), 1..=1),
        2 => prop::collection::vec(one, 2..=2),
    ]
}

fn workload_strategy(max_msgs: usize, max_size: u32) -> impl Strategy<Value = Workload> {
    ((1..=3usize), background_strategy()).prop_flat_map(move |(nch, bg)| {
        let mut chans: Vec<ChanSpec> = (0..nch).map(|i| chan(100 + i as u16)).collect();
        for (i, (rel, ordered)) in bg.iter().enumerate() {
            chans.push(background_chan(200 + i as u16, rel.clone(), *ordered));
        }
        let total = chans.len();
        let op = (
            side_strategy(),
            0..total,
            size_strategy(max_size),
            prop_oneof![4 => Just(0u16), 2 => 1..10u16, 1 => 10..80u16],
        )
            .prop_map(|(side, chan, size, gap_ms)| SendOp {
                side,
                chan,
                task: chan as u8,
                size,
                gap_ms,
            });
        prop::collection::vec(op, 1..=max_msgs).prop_map(move |sends| Workload {
            chans: chans.clone(),
            sends,
        })
    })
}

fn rwnd_strategy() -> impl Strategy<Value = u32> {
    prop_oneof![
        6 => Just(128 * 1024u32),
        1 => Just(4 * 1024u32),
        1 => Just(8 * 1024u32),
        1 => Just(16 * 1024u32),
        1 => Just(32 * 1024u32),
    ]
}

fn net_strategy() -> impl Strategy<Value = NetSpec> {
    (
        prop::collection::vec(setup_rule(), 0..3),
        prop::collection::vec(data_rule(10), 0..6),
        prop::bool::weighted(0.45),
        tsn_strategy(),
        tsn_strategy(),
        rwnd_strategy(),
    )
        .prop_map(|(setup, data, use_setup, tsn_a, tsn_b, rwnd)| {
            let mut rules = if use_setup { setup } else { vec![] };
            rules.extend(data);
            NetSpec {
                rules,
                tsn_a,
                tsn_b,
                rwnd,
                ..NetSpec::default_fast()
            }
        })
}

fn case_strategy(max_msgs: usize, max_size: u32) -> impl Strategy<Value = Case> {
    (workload_strategy(max_msgs, max_size), net_strategy()).prop_map(|(w, n)| Case { w, n })
}

fn tail_gap_strategy() -> impl Strategy<Value = Case> {
    (
        side_strategy(),
        prop_oneof![10..60usize, 60..140usize, 140..320usize],
        prop_oneof![Just(1u32), 100..700u32, Just(1172u32), 1173..3000u32],
        0..6u16,
        prop_oneof![
            Just(Action::Drop),
            (20..200u8, 50..400u16).prop_map(|(count, max_ms)| Action::HoldBack { count, max_ms }),
            (100..500u16).prop_map(|ms| Action::Delay { ms }),
        ],
        prop::collection::vec(data_rule(40), 0..3),
        tsn_strategy(),
    )
        .prop_map(|(side, n, size, ordinal, action, extra, tsn)| {
            let sends = (0..n)
                .map(|_| SendOp { side, chan: 0, task: 0, size, gap_ms: 0 })
                .collect();
            let mut rules = vec![Rule { from: side, class: SClass::Data, ordinal, action }];
            rules.extend(extra);
            Case {
                w: Workload { chans: vec![chan(100)], sends },
                n: NetSpec {
                    rules,
                    tsn_a: tsn,
                    tsn_b: tsn,
                    ..NetSpec::default_fast()
                },
            }
        })
}

/// Many rounds of "one small message, its first transmission is lost, nothing else is in flight":
/// each loss is a tail loss repaired by the probe / T3 path, over and over on one association, with a
/// small or default receive window; afterwards the network is perfect and more messages follow.
/// (Sender-side accounting that drifts a little per repaired tail loss only shows after many rounds.)
fn tail_loss_rounds_strategy() -> impl Strategy<Value = Case> {
    (
        side_strategy(),
        0..4usize,
        6..28usize,
        prop_oneof![3 => 900..1172u32, 1 => 100..900u32, 1 => 1173..2400u32],
        prop_oneof![Just(60u16), 90..160u16, 160..300u16],
        2..7usize,
        prop_oneof![3 => Just(2u16), 1 => Just(3u16)],
        rwnd_strategy(),
        tsn_strategy(),
    )
        .prop_map(|(side, warm, rounds, size, gap_ms, tail, step, rwnd, tsn)| {
            let mut sends = Vec::new();
            for _ in 0..warm {
                sends.push(SendOp { side, chan: 0, task: 0, size, gap_ms: 15 });
            }
            for _ in 0..rounds {
                sends.push(SendOp { side, chan: 0, task: 0, size, gap_ms });
            }
            for _ in 0..tail {
                sends.push(SendOp { side, chan: 0, task: 0, size, gap_ms: 10 });
            }
            // DATA packets are numbered per side in sending order, retransmissions included: with one
            // chunk per round and one repairing retransmission, every `step`-th packet is a first transmission
            let per_msg = if size > 1172 { 2 } else { 1 } as u16;
            let first = (warm as u16) * per_msg;
            let rules = (0..rounds as u16)
                .map(|k| Rule { from: side, class: SClass::Data, ordinal: first + k * step * per_msg, action: Action::Drop })
                .collect();
            Case {
                w: Workload { chans: vec![chan(100)], sends },
                n: NetSpec {
                    rules,
                    tsn_a: tsn,
                    tsn_b: tsn,
                    rwnd,
                    ..NetSpec::default_fast()
                },
            }
        })
}

fn stall_signature(c: &Case, fired: &[bool]) -> String {
    let mut setup: Vec<String> = c
        .n
        .rules
        .iter()
        .zip(fired)
        .filter(|(r, f)| **f && matches!(r.class, SClass::Init | SClass::InitAck | SClass::CookieEcho | SClass::CookieAck))
        .map(|(r, _)| {
            let kind = match r.action {
                Action::Drop => "drop",
                Action::Dup { .. } => "dup",
                Action::Delay { .. } | Action::HoldBack { .. } => "late",
                _ => "other",
            };
            format!("{:?}:{}", r.class, kind)
        })
        .collect();
    setup.sort();
    setup.dedup();
    if setup.is_empty() {
        "stall:data-path-faults-only".to_string()
    } else {
        format!("stall:setup[{}]", setup.join(","))
    }
}

pub fn judge(c: &Case, r: &RunResult, rec: &CaseRec) -> Check {
    let (setup_f, data_f) = fired_classes(&c.n, &r.rules_fired);
    rec.set_nontrivial(setup_f || data_f);
    if setup_f {
        rec.label("fault-on-setup-chunk");
    }
    if data_f {
        rec.label("fault-on-data-path");
    }
    if c.n.tsn_a.is_some() || c.n.tsn_b.is_some() {
        rec.label("initial-tsn-forced");
    }
    for (rule, f) in c.n.rules.iter().zip(&r.rules_fired) {
        if *f {
            rec.label(format!("fired:{:?}", rule.class));
        }
    }
    if c.w.sends.iter().any(|s| s.side == Side::A) && c.w.sends.iter().any(|s| s.side == Side::B) {
        rec.label("bidirectional");
    }
    if c.w.sends.iter().any(|s| s.size > 1172) {
        rec.label("fragmented-message");
    }
    if !r.dtls_connected {
        return Err(Fail::new("harness-dtls-not-connected", "DTLS did not connect on a fault-free datagram path"));
    }
    // safety: per (receiver, channel) delivered == prefix of submitted
    if c.w.chans.iter().any(|ch| ch.rel != Rel::Reliable) {
        rec.label("pr-background-channel");
    }
    if c.n.rwnd < 64 * 1024 {
        rec.label("small-receive-window");
    }
    for (ci, ch) in c.w.chans.iter().enumerate() {
        if ch.rel != Rel::Reliable || !ch.ordered {
            // background channel: nothing is asserted about it here
            continue;
        }
        for recv_side in [Side::A, Side::B] {
            let send_side = recv_side.other();
            let expected: Vec<usize> = c
                .w
                .sends
                .iter()
                .enumerate()
                .filter(|(_, s)| s.side == send_side && s.chan == ci)
                .map(|(i, _)| i)
                .collect();
            let failed_ops: Vec<usize> = r.submits.iter().filter(|s| !s.ok).map(|s| s.op).collect();
            let called: Vec<usize> = r.submits.iter().map(|s| s.op).collect();
            let delivered: Vec<&bytes::Bytes> = r
                .events
                .iter()
                .filter(|e| e.side == recv_side && e.chan_id == ch.id)
                .filter_map(|e| match &e.kind {
                    EvKind::Msg(b) => Some(b),
                    _ => None,
                })
                .collect();
            let mut p = 0usize;
            for (k, d) in delivered.iter().enumerate() {
                // skip ops whose send_data returned Err (not accepted)
                loop {
                    if p < expected.len() && failed_ops.contains(&expected[p]) {
                        let want = msg_bytes(uid_of(expected[p]), c.w.sends[expected[p]].size);
                        if want.as_slice() == d.as_ref() {
                            break;
                        }
                        p += 1;
                    } else {
                        break;
                    }
                }
                if p >= expected.len() {
                    return Err(Fail::new(
                        "delivered-more-than-submitted",
                        format!("channel {} at {:?}: delivery #{} ({} bytes) beyond the {} submitted messages", ch.id, recv_side, k, d.len(), expected.len()),
                    ));
                }
                let op = expected[p];
                let want = msg_bytes(uid_of(op), c.w.sends[op].size);
                if want.as_slice() != d.as_ref() {
                    // classify
                    let pos = expected.iter().position(|&o| msg_bytes(uid_of(o), c.w.sends[o].size).as_slice() == d.as_ref());
                    let (sig, what) = match pos {
                        Some(q) if q < p => ("duplicate-delivery", format!("message #{q} delivered again at position {k}")),
                        Some(q) => ("lost-or-reordered", format!("message #{q} delivered at position {k} where #{p} was expected")),
                        None => ("altered-or-fabricated", format!("delivery #{k} ({} bytes) matches no submitted message (expected #{p}, {} bytes)", d.len(), want.len())),
                    };
                    return Err(Fail::new(
                        sig,
                        format!("channel {} at {:?}: {}; trace: {}", ch.id, recv_side, what, describe_trace(&r.trace, 60)),
                    ));
                }
                if !called.contains(&op) {
                    return Err(Fail::new("delivered-before-submitted", format!("op {op} delivered but never submitted")));
                }
                p += 1;
            }
        }
    }
    // liveness: everything delivered unless a side reported closure
    let closed = r.close_reason.iter().any(|c| c.is_some());
    if !closed && (!r.senders_done || !r.complete) {
        let sig = stall_signature(c, &r.rules_fired);
        let delivered = r.events.iter().filter(|e| matches!(e.kind, EvKind::Msg(_))).count();
        if quiescent_stall(r, std::time::Duration::from_secs(5)) {
            // nothing but heartbeats for >= 12 RTO-max: a definitive stall, not slowness
            return Err(Fail::stall(
                format!("{}:quiescent", sig),
                format!(
                    "no closure reported, only {}/{} messages delivered (senders_done={}) and the association has been silent (heartbeats only) for {:.1}s; A: {} | B: {}; trace: {}",
                    delivered,
                    c.w.sends.len(),
                    r.senders_done,
                    r.end_us.saturating_sub(last_activity_us(&r.trace)) as f64 / 1e6,
                    r.diag[0],
                    r.diag[1],
                    describe_trace_tail(&r.trace, 24)
                ),
            ));
        }
        return Err(Fail::timing(
            sig,
            format!(
                "no closure reported, yet only {}/{} messages delivered (senders_done={}) {:.1}s after the last fault/submit; A: {} | B: {}; trace: {}",
                delivered,
                c.w.sends.len(),
                r.senders_done,
                (r.end_us.saturating_sub(r.last_fault_us.max(r.last_submit_us))) as f64 / 1e6,
                r.diag[0],
                r.diag[1],
                describe_trace(&r.trace, 40)
            ),
        ));
    }
    if closed {
        rec.label("association-closed");
    }
    Ok(())
}

fn checker(limits: fn() -> Limits) -> AsyncCheck<Case> {
    Arc::new(move |c: Case| {
        Box::pin(async move {
            let rec = CaseRec::default();
            let res = match run_case(&c.w, &c.n, &limits()).await {
                Ok(r) => judge(&c, &r, &rec),
                Err(e) => Err(Fail::new("harness-error", format!("rig failed: {e}"))),
            };
            (rec, res)
        })
    })
}

fn quick_limits() -> Limits {
    Limits {
        complete_within: std::time::Duration::from_secs(12),
        settle: std::time::Duration::from_millis(80),
        hard_cap: std::time::Duration::from_secs(40),
    }
}

/// Every setup chunk x a fixed list of actions x first/second occurrence, on a bidirectional workload.
fn setup_matrix() -> Vec<Case> {
    let actions = [
        Action::Drop,
        Action::Dup { copies: 1, gap_ms: 0 },
        Action::Dup { copies: 1, gap_ms: 40 },
        Action::Dup { copies: 2, gap_ms: 250 },
        Action::Delay { ms: 30 },
        Action::Delay { ms: 300 },
        Action::HoldBack { count: 2, max_ms: 200 },
    ];
    let mut out = Vec::new();
    for class in [SClass::Init, SClass::InitAck, SClass::CookieEcho, SClass::CookieAck] {
        for a in &actions {
            let from = match class {
                SClass::Init | SClass::CookieEcho => Side::A,
                _ => Side::B,
            };
            let mut sends = Vec::new();
            for i in 0..12u32 {
                sends.push(SendOp {
                    side: if i % 2 == 0 { Side::A } else { Side::B },
                    chan: 0,
                    task: 0,
                    size: [10, 1172, 3000, 1, 0, 5000][(i % 6) as usize],
                    gap_ms: if i < 2 { 0 } else { 20 },
                });
            }
            out.push(Case {
                w: Workload { chans: vec![chan(100)], sends },
                n: NetSpec {
                    rules: vec![Rule { from, class, ordinal: 0, action: a.clone() }],
                    ..NetSpec::default_fast()
                },
            });
        }
    }
    out
}

pub fn run(ctx: &mut Ctx) {
    ctx.level = "exploration";
    ctx.rule = "proptest-generated (workload, fault plan) pairs run on two real IceConn+DTLS+SCTP endpoints joined by the harness network: 1-3 reliable ordered channels (in 35% of cases sharing the association with 1-2 partially reliable background channels whose deliveries are not judged here), receive window 4 KiB - 128 KiB, messages in both directions (sizes 0/1/1171-1173/2344/4-8 KiB/uniform), 0-8 fault rules (drop/dup/delay/hold-back) addressed by side, SCTP chunk class and ordinal incl. INIT/INIT-ACK/COOKIE-ECHO/COOKIE-ACK, forced initial TSNs near 0, 2^31 and 2^32; plus a fixed setup-chunk matrix (4 classes x 7 actions), tail-gap workloads (one early loss, deep out-of-order queue, nothing submitted afterwards) and tail-loss-rounds (6-27 rounds of a lone message whose first transmission is lost, then a perfect network). Non-trivial = at least one fault rule fired; distinct by case digest.".into();
    ctx.assumptions = vec![
        "faults are applied to SCTP packets between DTLS decryption and SCTP input (one SCTP packet per DTLS record per datagram; DTLS has no replay window, so this equals datagram-level faults); the datagram path itself is loss-free".into(),
        "applications send only after the channel announced Open".into(),
        "liveness bound: 12 s (quick) / 30 s (thorough) after the last fault effect or submit with RTO max 0.4 s; a miss counts only if it repeats in 3 solo re-runs (DESIGN 2.6)".into(),
        "SCTP RTO configured to 100/50/400 ms (initial/min/max) to make histories cheap".into(),
    ];
    let rt = tokio::runtime::Builder::new_multi_thread()
        .worker_threads(16)
        .enable_all()
        .build()
        .unwrap();
    let limits: fn() -> Limits = if ctx.thorough() { Limits::default } else { quick_limits };

    // fixed matrix over setup chunks (enumerated, not sampled)
    if !ctx.is_replay() {
        let matrix = setup_matrix();
        let chk = checker(limits);
        let results: Vec<(Case, (CaseRec, Check))> = rt.block_on(async {
            let mut hs = Vec::new();
            for c in matrix {
                let chk = chk.clone();
                hs.push(tokio::spawn(async move {
                    let r = chk(c.clone()).await;
                    (c, r)
                }));
            }
            let mut out = Vec::new();
            for h in hs {
                out.push(h.await.unwrap());
            }
            out
        });
        for (c, (rec, mut res)) in results {
            let v = serde_json::to_value(&c).unwrap();
            if let Err(f) = &res {
                if f.timing || f.stall {
                    // DESIGN 2.6: must repeat alone
                    let mut again = Err(f.clone());
                    for _ in 0..3 {
                        again = rt.block_on(chk(c.clone())).1;
                        if again.is_ok() {
                            rec.inconclusive_timing();
                            break;
                        }
                    }
                    res = again;
                }
            }
            if let Err(f) = ctx.record("setup-matrix", &v, &rec, &res) {
                ctx.violation("setup-matrix", &v, &f);
            }
        }
    } else if let Some(c) = ctx.replay_case::<Case>("setup-matrix") {
        let chk = checker(limits);
        let (rec, res) = rt.block_on(chk(c.clone()));
        let v = serde_json::to_value(&c).unwrap();
        match ctx.record("setup-matrix", &v, &rec, &res) {
            Ok(()) => println!("replay: property=C01 sub=setup-matrix PASS"),
            Err(f) => ctx.violation("setup-matrix", &v, &f),
        }
    }

    let n = ctx.scale(2500usize, 30_000usize);
    ctx.sub_async(&rt, "faulted-workload", n, 48, case_strategy(24, 16 * 1024), checker(limits));
    // deep out-of-order queue at the very end of a workload: one early packet is lost / held back,
    // everything else arrives, nothing is submitted afterwards (recovery must not depend on new DATA)
    let n_tail = ctx.scale(300usize, 4000usize);
    ctx.sub_async(&rt, "tail-gap", n_tail, 32, tail_gap_strategy(), checker(limits));
    // repeated tail losses on one association (each repaired by the probe / T3 path), small and default windows
    let n_rounds = ctx.scale(160usize, 2000usize);
    ctx.sub_async(&rt, "tail-loss-rounds", n_rounds, 40, tail_loss_rounds_strategy(), checker(limits));
    let n_big = ctx.scale(60usize, 600usize);
    ctx.sub_async(&rt, "large-workload", n_big, 12, case_strategy(240, 16 * 1024), checker(limits));
    rt.shutdown_timeout(std::time::Duration::from_secs(2));
}
