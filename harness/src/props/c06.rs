//! C06 — only authenticated STUN connectivity checks can influence ICE state.
//!
//! A live `IceTransport` (WebRTC mode, loopback) is brought to one of
//! {New, Checking, Connected} in one of two roles on one of four socket kinds.
//! Harness-owned sockets then send hand-built STUN Binding requests / responses
//! (own byte builder on top of `refimpl::stunwire`, cross-checked against the
//! webrtc-rs `stun` crate in the `selfcheck-builder` sub-check). The observable
//! ICE state (transport state, remote candidates, selected pair, nomination
//! watch, selected socket) is snapshotted before and after every message:
//!
//! * request without (USERNAME == "<local ufrag>:..." AND MESSAGE-INTEGRITY ==
//!   HMAC-SHA1 under the LOCAL password): snapshot must be unchanged;
//! * response whose transaction id is not outstanding: snapshot must be unchanged;
//! * authenticated requests / responses to outstanding transactions are positive
//!   controls: not judged, only labelled (they show the observation is live).

use crate::engine::{AsyncCheck, CaseRec, Check, Ctx, Fail, hexbytes};
use crate::refimpl::stunwire as sw;
use parking_lot::Mutex;
use proptest::prelude::*;
use rustrtc::transports::ice::IceParameters;
use rustrtc::{
    IceCandidate, IceGathererState, IceRole, IceTcpPolicy, IceTransport, IceTransportState,
    RtcConfiguration,
};
use serde::{Deserialize, Serialize};
use serde_json::json;
use std::collections::{BTreeMap, HashSet};
use std::net::SocketAddr;
use std::sync::Arc;
use std::sync::atomic::{AtomicBool, Ordering};
use std::time::{Duration, Instant};
use tokio::io::{AsyncReadExt, AsyncWriteExt};
use tokio::net::{TcpSocket, TcpStream, UdpSocket};

// ------------------------------------------------------------------ case model

#[derive(Clone, Copy, Debug, PartialEq, Eq, Hash, Serialize, Deserialize)]
pub enum Kind {
    /// one UDP socket per agent (default)
    Udp,
    /// process-wide shared single-port UDP mux (`ice_udp_mux`)
    UdpMux,
    /// per-agent passive ICE-TCP listener (`ice_tcp_policy = Enabled`), RFC 4571 framing
    TcpPassive,
    /// process-wide shared passive TCP listener (`tcp_port_range_start == tcp_port_range_end`)
    TcpShared,
}

#[derive(Clone, Copy, Debug, PartialEq, Eq, Hash, Serialize, Deserialize)]
pub enum Role {
    Controlling,
    Controlled,
}

#[derive(Clone, Copy, Debug, PartialEq, Eq, Hash, Serialize, Deserialize)]
pub enum St {
    New,
    Checking,
    Connected,
    /// Connected with the genuine peer, but nomination has not happened (controlled: the peer never sends
    /// USE-CANDIDATE; controlling: the peer leaves the nominating check unanswered)
    Pending,
}

#[derive(Clone, Copy, Debug, PartialEq, Eq, Hash, Serialize, Deserialize)]
pub struct Scenario {
    pub kind: Kind,
    pub role: Role,
    pub state: St,
}

#[derive(Clone, Copy, Debug, PartialEq, Eq, Serialize, Deserialize)]
pub enum Src {
    /// the address of a remote candidate the agent already knows
    Known,
    /// a socket the agent has never heard of (new one per message); on 127.0.0.1 = same IP as the known
    /// remote candidate, other port
    Fresh,
    /// another loopback IP (127.0.0.2 / 127.0.0.3), bound to the SAME port number as the known (in Connected:
    /// the selected) remote candidate
    SamePortOtherIp,
    /// another loopback IP, fresh port
    OtherIpFreshPort,
}

#[derive(Clone, Copy, Debug, PartialEq, Eq, Serialize, Deserialize)]
pub enum User {
    Absent,
    /// neither half is right (several malformed shapes, chosen by `fill.junk`)
    Wrong,
    /// "remote:local" - what the agent itself sends
    Swapped,
    /// "local:<not the remote ufrag>" - RFC 8445 7.3 only requires the first half
    HalfRight,
    /// "local:remote"
    Right,
}

#[derive(Clone, Copy, Debug, PartialEq, Eq, Serialize, Deserialize)]
pub enum Mi {
    Absent,
    Random,
    /// correct HMAC construction under a key that is not a password of this session
    WrongKey,
    /// HMAC under the REMOTE password (the key of the agent's own outgoing checks)
    RemotePwd,
    /// HMAC under the local password, then a covered byte is changed
    Tampered,
    Correct,
    /// MESSAGE-INTEGRITY attribute of `len` != 20 bytes: the first min(len, 20) bytes of the CORRECT HMAC
    /// (`correct`) or garbage, padded with junk beyond 20. `std_len`: the HMAC input uses the header length
    /// of a regular 24-byte attribute; otherwise the length of the attribute as it is really encoded.
    Shaped { len: u8, correct: bool, std_len: bool },
    /// a wrong 20-byte MESSAGE-INTEGRITY followed by a correct one (which covers the wrong one)
    TwoWrongFirst,
    /// a correct MESSAGE-INTEGRITY followed by a wrong one
    TwoCorrectFirst,
    /// correct MESSAGE-INTEGRITY placed before USERNAME and all other attributes
    BeforeUsername,
    /// correct MESSAGE-INTEGRITY after USERNAME; PRIORITY / ICE-CONTROL* / USE-CANDIDATE (or SOFTWARE) follow it
    ThenAttrs,
}

fn mi_label(mi: Mi) -> String {
    match mi {
        Mi::Shaped { len, correct, std_len } => format!(
            "Shaped({},len={}{})",
            if correct { "hmac-prefix" } else { "garbage" },
            len,
            if correct && !std_len { ",enc-len" } else { "" }
        ),
        m => format!("{:?}", m),
    }
}

#[derive(Clone, Copy, Debug, PartialEq, Eq, Serialize, Deserialize)]
pub enum Fp {
    Absent,
    Valid,
    Invalid,
}

#[derive(Clone, Debug, PartialEq, Eq, Serialize, Deserialize)]
pub struct Fill {
    #[serde(with = "hexbytes")]
    pub txid: Vec<u8>,
    pub priority: u32,
    pub tiebreak: u64,
    pub junk: u32,
    pub software: bool,
}

#[derive(Clone, Debug, PartialEq, Eq, Serialize, Deserialize)]
pub struct Req {
    pub src: Src,
    pub user: User,
    pub mi: Mi,
    pub uc: bool,
    /// PRIORITY and ICE-CONTROLLING / ICE-CONTROLLED present
    pub ice: bool,
    pub fp: Fp,
    pub fill: Fill,
}

#[derive(Clone, Copy, Debug, PartialEq, Eq, Serialize, Deserialize)]
pub enum RespTx {
    Random,
    /// id of a transaction of this agent that already completed (answered, or timed out)
    Completed,
    /// id of a transaction that is outstanding right now (positive control)
    Outstanding,
}

#[derive(Clone, Debug, PartialEq, Eq, Serialize, Deserialize)]
pub struct Resp {
    pub src: Src,
    /// None = success response, Some(code) = error response
    pub error: Option<u16>,
    pub tx: RespTx,
    /// MESSAGE-INTEGRITY under the remote password present
    pub mi: bool,
    pub fp: Fp,
    pub fill: Fill,
}

/// What a forged request keeps of the anchor (an earlier AUTHENTICATED request of the same case).
#[derive(Clone, Copy, Debug, PartialEq, Eq, Serialize, Deserialize)]
pub enum Content {
    /// newly built request with the credentials given by `user` / `mi` (never valid ones)
    Forged,
    /// the anchor's attributes up to MESSAGE-INTEGRITY, MESSAGE-INTEGRITY removed
    MiStripped,
    /// the anchor's bytes with one HMAC bit flipped
    MiCorrupted,
    /// the anchor's bytes with only USE-CANDIDATE (or, if already there, SOFTWARE) inserted before the
    /// unchanged MESSAGE-INTEGRITY - which no longer covers the content
    PlusUc,
    /// the anchor's bytes with the MESSAGE-INTEGRITY attribute cut down to the first 0 / 1 / 2 / 4 / 19 bytes
    /// of its (correct) value
    MiTruncated,
    /// the anchor's bytes as they are (a retransmission; with `same_txid == false` only the id is replaced)
    Exact,
}

#[derive(Clone, Copy, Debug, PartialEq, Eq, Serialize, Deserialize)]
pub enum From {
    /// the very socket the anchor was sent from
    Anchor,
    Fresh,
    Known,
    /// another loopback IP with the port number of the known / selected remote candidate
    SamePortOtherIp,
}

#[derive(Clone, Debug, PartialEq, Eq, Serialize, Deserialize)]
pub enum Anchor {
    /// send this authenticated request first
    Own(Req),
    /// the last authenticated check of the genuine harness peer (Connected / Pending scenarios)
    Genuine,
    /// whatever authenticated request was sent last in this case
    Last,
}

/// History-dependent forged request.
#[derive(Clone, Debug, PartialEq, Eq, Serialize, Deserialize)]
pub struct Forge {
    pub anchor: Anchor,
    pub same_txid: bool,
    pub from: From,
    pub content: Content,
    pub user: User,
    pub mi: Mi,
    pub uc: bool,
    pub ice: bool,
    pub fp: Fp,
    pub fill: Fill,
}

#[derive(Clone, Debug, PartialEq, Eq, Serialize, Deserialize)]
pub enum Msg {
    Req(Req),
    Resp(Resp),
    Forge(Forge),
}

/// Configuration of the agent under test beyond mode / role / socket kind: every `RtcConfiguration` knob the ICE
/// request / response / nomination / packet paths read.
#[derive(Clone, Copy, Debug, Default, PartialEq, Eq, Serialize, Deserialize)]
pub struct Cfg {
    /// `enable_latching` (meant for RTP/SRTP SIP endpoints, must not open anything in WebRTC mode)
    pub latching: bool,
    /// `enable_ice_lite`
    pub ice_lite: bool,
    /// `prefer_srflx_over_natted_host`
    pub prefer_srflx: bool,
    /// `buffer_drop_strategy = DropOldest` and `rtp_buffer_capacity = 2`
    pub tiny_buffer: bool,
    /// `probation_max_packets = Some(3)`
    pub probation: bool,
    /// `external_ip = 203.0.113.7`
    pub external_ip: bool,
    /// `stun_timeout = 2 s`, `ice_disconnect_threshold = 60 s`, `ice_connection_timeout = 90 s`
    pub timeouts: bool,
}

#[derive(Clone, Debug, PartialEq, Eq, Serialize, Deserialize)]
pub struct Case {
    pub sc: Scenario,
    #[serde(default)]
    pub cfg: Cfg,
    pub msgs: Vec<Msg>,
}

pub const KINDS: [Kind; 4] = [Kind::Udp, Kind::UdpMux, Kind::TcpPassive, Kind::TcpShared];
pub const ROLES: [Role; 2] = [Role::Controlling, Role::Controlled];
pub const STATES: [St; 4] = [St::New, St::Checking, St::Connected, St::Pending];

fn scenarios() -> Vec<Scenario> {
    let mut v = Vec::new();
    for kind in KINDS {
        for role in ROLES {
            for state in STATES {
                v.push(Scenario { kind, role, state });
            }
        }
    }
    v
}

// ------------------------------------------------------------------ STUN byte builder

const T_BINDING_REQUEST: u16 = 0x0001;
const T_BINDING_SUCCESS: u16 = 0x0101;
const T_BINDING_ERROR: u16 = 0x0111;
const A_USERNAME: u16 = 0x0006;
const A_MI: u16 = 0x0008;
const A_ERROR_CODE: u16 = 0x0009;
const A_XOR_MAPPED: u16 = 0x0020;
const A_PRIORITY: u16 = 0x0024;
const A_USE_CANDIDATE: u16 = 0x0025;
const A_SOFTWARE: u16 = 0x8022;
const A_FINGERPRINT: u16 = 0x8028;
const A_ICE_CONTROLLED: u16 = 0x8029;
const A_ICE_CONTROLLING: u16 = 0x802A;

enum MiSpec {
    None,
    Key(Vec<u8>),
    Raw([u8; 20]),
    KeyThenTamper(Vec<u8>),
    Shaped { key: Vec<u8>, len: usize, correct: bool, std_len: bool, junk: u32 },
}

fn push_attr(b: &mut Vec<u8>, typ: u16, v: &[u8]) {
    b.extend_from_slice(&typ.to_be_bytes());
    b.extend_from_slice(&(v.len() as u16).to_be_bytes());
    b.extend_from_slice(v);
    while b.len() % 4 != 0 {
        b.push(0);
    }
}

fn set_len(b: &mut [u8], l: usize) {
    b[2..4].copy_from_slice(&(l as u16).to_be_bytes());
}

/// RFC 5389 section 6 / 15.4 / 15.5 message: header, attributes, then MESSAGE-INTEGRITY and FINGERPRINT.
fn build_stun(msg_type: u16, txid: &[u8], attrs: &[(u16, Vec<u8>)], mi: MiSpec, fp: Fp) -> Vec<u8> {
    build_stun_post(msg_type, txid, attrs, mi, &[], fp)
}

/// As `build_stun`, with attributes `post` placed AFTER MESSAGE-INTEGRITY (and before FINGERPRINT). The HMAC
/// covers the message up to MESSAGE-INTEGRITY with the length field pointing at its end (RFC 5389 15.4).
fn build_stun_post(msg_type: u16, txid: &[u8], attrs: &[(u16, Vec<u8>)], mi: MiSpec, post: &[(u16, Vec<u8>)], fp: Fp) -> Vec<u8> {
    let mut b = Vec::with_capacity(160);
    b.extend_from_slice(&msg_type.to_be_bytes());
    b.extend_from_slice(&[0, 0]);
    b.extend_from_slice(&sw::MAGIC.to_be_bytes());
    let mut id = [0u8; 12];
    for (i, x) in txid.iter().take(12).enumerate() {
        id[i] = *x;
    }
    b.extend_from_slice(&id);
    for (t, v) in attrs {
        push_attr(&mut b, *t, v);
    }
    let mut tamper = false;
    match mi {
        MiSpec::None => {}
        MiSpec::Raw(r) => push_attr(&mut b, A_MI, &r),
        MiSpec::Key(k) => {
            let l = b.len() - 20 + 24;
            set_len(&mut b, l);
            let h = sw::hmac_sha1(&k, &b);
            push_attr(&mut b, A_MI, &h);
        }
        MiSpec::KeyThenTamper(k) => {
            let l = b.len() - 20 + 24;
            set_len(&mut b, l);
            let h = sw::hmac_sha1(&k, &b);
            push_attr(&mut b, A_MI, &h);
            tamper = true;
        }
        MiSpec::Shaped { key, len, correct, std_len, junk } => {
            let padded = (len + 3) & !3;
            let l = b.len() - 20 + 4 + if std_len { 20 } else { padded };
            set_len(&mut b, l);
            let h = sw::hmac_sha1(&key, &b);
            let mut v = Vec::with_capacity(len);
            for i in 0..len {
                let filler = (junk.rotate_left(i as u32 * 5) as u8) ^ (i as u8).wrapping_mul(0x3d) ^ 0xa5;
                v.push(if correct && i < 20 { h[i] } else { filler });
            }
            push_attr(&mut b, A_MI, &v);
        }
    }
    for (t, v) in post {
        push_attr(&mut b, *t, v);
    }
    if tamper {
        b[19] ^= 0x80; // last transaction-id byte: covered by the HMAC
    }
    match fp {
        Fp::Absent => {}
        Fp::Valid | Fp::Invalid => {
            let l = b.len() - 20 + 8;
            set_len(&mut b, l);
            let mut c = sw::crc32(&b) ^ 0x5354_554e;
            if fp == Fp::Invalid {
                c ^= 0x0100_0001;
            }
            push_attr(&mut b, A_FINGERPRINT, &c.to_be_bytes());
        }
    }
    let l = b.len() - 20;
    set_len(&mut b, l);
    b
}

#[derive(Clone, Debug)]
pub struct Creds {
    pub l_ufrag: String,
    pub l_pwd: String,
    pub r_ufrag: String,
    pub r_pwd: String,
}

const R_UFRAG: &str = "vfyRemoteUfrag01";
const R_PWD: &str = "vfyRemotePassword0123456789abcdef";

fn username_for(user: User, junk: u32, c: &Creds) -> Option<String> {
    match user {
        User::Absent => None,
        User::Right => Some(format!("{}:{}", c.l_ufrag, c.r_ufrag)),
        User::Swapped => Some(format!("{}:{}", c.r_ufrag, c.l_ufrag)),
        User::HalfRight => Some(match junk % 4 {
            0 => format!("{}:zzzz", c.l_ufrag),
            1 => format!("{}:", c.l_ufrag),
            2 => format!("{}:{}", c.l_ufrag, c.r_ufrag.to_uppercase()),
            _ => format!("{}:{}x", c.l_ufrag, c.r_ufrag),
        }),
        User::Wrong => Some(match junk % 8 {
            0 => format!("{:08x}:{:08x}", junk, junk.rotate_left(13)),
            1 => format!("{}{}", c.l_ufrag, c.r_ufrag), // no colon
            2 => String::new(),
            3 => format!(":{}", c.r_ufrag),
            4 => format!("{}X:{}", c.l_ufrag, c.r_ufrag),
            5 => {
                let cut = c.l_ufrag.len().saturating_sub(1);
                format!("{}:{}", &c.l_ufrag[..cut], c.r_ufrag)
            }
            6 => format!("x{}:{}", c.l_ufrag, c.r_ufrag),
            _ => format!("{}:{}", "u".repeat(300), c.r_ufrag),
        }),
    }
}

fn mi_for(mi: Mi, fill: &Fill, c: &Creds) -> MiSpec {
    match mi {
        Mi::Absent => MiSpec::None,
        Mi::Random => {
            let mut r = [0u8; 20];
            for (i, x) in r.iter_mut().enumerate() {
                *x = fill.txid[i % 12] ^ (fill.junk.rotate_left(i as u32) as u8) ^ (fill.priority >> (i % 4 * 8)) as u8;
            }
            MiSpec::Raw(r)
        }
        Mi::WrongKey => MiSpec::Key(match (fill.junk >> 8) % 6 {
            0 => b"wrongpassword".to_vec(),
            1 => {
                let mut k = c.l_pwd.clone().into_bytes();
                if let Some(last) = k.last_mut() {
                    *last ^= 0x01;
                }
                k
            }
            2 => c.l_pwd.to_uppercase().into_bytes().into_iter().chain(*b"_").collect(),
            3 => Vec::new(),
            4 => format!("{}0", c.l_pwd).into_bytes(),
            _ => c.l_ufrag.clone().into_bytes(),
        }),
        Mi::RemotePwd => MiSpec::Key(c.r_pwd.clone().into_bytes()),
        Mi::Tampered => MiSpec::KeyThenTamper(c.l_pwd.clone().into_bytes()),
        Mi::Correct | Mi::TwoWrongFirst | Mi::TwoCorrectFirst | Mi::BeforeUsername | Mi::ThenAttrs => {
            MiSpec::Key(c.l_pwd.clone().into_bytes())
        }
        Mi::Shaped { len, correct, std_len } => {
            MiSpec::Shaped { key: c.l_pwd.clone().into_bytes(), len: len as usize, correct, std_len, junk: fill.junk }
        }
    }
}

fn wrong_mi_value(fill: &Fill) -> Vec<u8> {
    (0..20u32).map(|i| fill.txid[(i % 12) as usize] ^ (fill.junk.rotate_right(i) as u8) ^ 0x5a).collect()
}

/// Build the Binding request of `r` against an agent with credentials `c` in role `agent_role`.
fn build_request(r: &Req, c: &Creds, agent_role: Role) -> Vec<u8> {
    let mut attrs: Vec<(u16, Vec<u8>)> = Vec::new();
    if r.fill.software {
        attrs.push((A_SOFTWARE, b"c06-harness".to_vec()));
    }
    if let Some(u) = username_for(r.user, r.fill.junk, c) {
        attrs.push((A_USERNAME, u.into_bytes()));
    }
    if r.ice {
        attrs.push((A_PRIORITY, r.fill.priority.to_be_bytes().to_vec()));
        // the peer of a controlled agent is controlling; bit 7 of junk flips it (role conflict shape)
        let peer_controlling = (agent_role == Role::Controlled) ^ (r.fill.junk & 0x80 != 0);
        let t = if peer_controlling { A_ICE_CONTROLLING } else { A_ICE_CONTROLLED };
        attrs.push((t, r.fill.tiebreak.to_be_bytes().to_vec()));
    }
    if r.uc {
        attrs.push((A_USE_CANDIDATE, Vec::new()));
    }
    let mut post: Vec<(u16, Vec<u8>)> = Vec::new();
    match r.mi {
        Mi::TwoWrongFirst => attrs.push((A_MI, wrong_mi_value(&r.fill))),
        Mi::TwoCorrectFirst => post.push((A_MI, wrong_mi_value(&r.fill))),
        Mi::BeforeUsername => {
            let cut = attrs.iter().position(|a| a.0 != A_SOFTWARE).unwrap_or(attrs.len());
            post = attrs.split_off(cut);
        }
        Mi::ThenAttrs => {
            let cut = attrs.iter().position(|a| a.0 != A_SOFTWARE && a.0 != A_USERNAME).unwrap_or(attrs.len());
            post = attrs.split_off(cut);
            if post.is_empty() {
                post.push((A_SOFTWARE, b"after-integrity".to_vec()));
            }
        }
        _ => {}
    }
    build_stun_post(T_BINDING_REQUEST, &r.fill.txid, &attrs, mi_for(r.mi, &r.fill, c), &post, r.fp)
}

fn build_response(txid: &[u8], error: Option<u16>, mapped: SocketAddr, mi: bool, fp: Fp, c: &Creds) -> Vec<u8> {
    let mut id = [0u8; 12];
    id.copy_from_slice(&txid[..12]);
    let mut attrs: Vec<(u16, Vec<u8>)> = Vec::new();
    let t = match error {
        None => {
            attrs.push((A_XOR_MAPPED, sw::xor_addr_value(&mapped, &id)));
            T_BINDING_SUCCESS
        }
        Some(code) => {
            let mut v = vec![0, 0, (code / 100) as u8, (code % 100) as u8];
            v.extend_from_slice(b"error");
            attrs.push((A_ERROR_CODE, v));
            T_BINDING_ERROR
        }
    };
    let m = if mi { MiSpec::Key(c.r_pwd.clone().into_bytes()) } else { MiSpec::None };
    build_stun(t, &id, &attrs, m, fp)
}

/// A genuine, fully authenticated connectivity check from the harness peer.
fn genuine_request(txid: [u8; 12], uc: bool, c: &Creds, agent_role: Role) -> Vec<u8> {
    let r = Req {
        src: Src::Known,
        user: User::Right,
        mi: Mi::Correct,
        uc,
        ice: true,
        fp: Fp::Valid,
        fill: Fill { txid: txid.to_vec(), priority: 0x6e00_1eff, tiebreak: 0x0102_0304_0506_0708, junk: 0, software: false },
    };
    build_request(&r, c, agent_role)
}

#[derive(Clone, Copy, Debug, PartialEq, Eq)]
enum Auth {
    /// the FIRST MESSAGE-INTEGRITY is a well-formed 20-byte attribute that verifies under the local password over
    /// the bytes preceding it, and a USERNAME "<local ufrag>:..." precedes it. Attributes after it (a second
    /// MESSAGE-INTEGRITY, USE-CANDIDATE, ...) do not change that; whether they are honoured is the receiver's business.
    Valid,
    /// some well-formed MESSAGE-INTEGRITY of the message verifies over the bytes preceding it and some USERNAME is
    /// right, but not in the canonical layout (MESSAGE-INTEGRITY before USERNAME; a wrong MESSAGE-INTEGRITY in front
    /// of the verifying one). RFC 5389 15.4 lets a strict receiver drop these and the sender did know the password:
    /// either outcome is accepted.
    Either,
    Invalid,
}

/// The oracle's notion of "carries this session's username and a MESSAGE-INTEGRITY computed with the
/// local password", decided on the bytes of THIS message with the independent reader / HMAC.
fn verdict(bytes: &[u8], c: &Creds) -> Auth {
    let Ok(w) = sw::parse_strict(bytes) else { return Auth::Invalid };
    let right = |a: &sw::Tlv| std::str::from_utf8(&a.value).map(|u| u.starts_with(&format!("{}:", c.l_ufrag))).unwrap_or(false);
    let verifies =
        |a: &sw::Tlv| a.value.len() == 20 && sw::expected_integrity(bytes, a.offset, c.l_pwd.as_bytes())[..] == a.value[..];
    let Some(first_mi) = w.attrs.iter().position(|a| a.typ == A_MI) else { return Auth::Invalid };
    let first_user_ok = w.attrs[..first_mi].iter().find(|a| a.typ == A_USERNAME).map(right).unwrap_or(false);
    if first_user_ok && verifies(&w.attrs[first_mi]) {
        return Auth::Valid;
    }
    let any_user = w.attrs.iter().filter(|a| a.typ == A_USERNAME).any(right);
    let any_mi = w.attrs.iter().filter(|a| a.typ == A_MI).any(verifies);
    if any_user && any_mi { Auth::Either } else { Auth::Invalid }
}

fn authenticated(bytes: &[u8], c: &Creds) -> bool {
    verdict(bytes, c) == Auth::Valid
}

/// Bytes of a forged request derived from the authenticated `anchor` bytes.
fn forge_bytes(f: &Forge, anchor: &[u8], c: &Creds, agent_role: Role) -> Vec<u8> {
    let Ok(w) = sw::parse_strict(anchor) else { return anchor.to_vec() };
    let mut t = w.txid;
    if !f.same_txid {
        t.copy_from_slice(&f.fill.txid[..12]);
        if t == w.txid {
            t[0] ^= 0x55;
        }
    }
    let head: Vec<(u16, Vec<u8>)> =
        w.attrs.iter().take_while(|a| a.typ != A_MI && a.typ != A_FINGERPRINT).map(|a| (a.typ, a.value.clone())).collect();
    let mut orig = [0u8; 20];
    if let Some(a) = w.attrs.iter().find(|a| a.typ == A_MI && a.value.len() == 20) {
        orig.copy_from_slice(&a.value);
    }
    match f.content {
        Content::Forged => {
            let mi = match f.mi {
                Mi::Absent | Mi::Random | Mi::WrongKey | Mi::RemotePwd | Mi::Shaped { .. } => f.mi,
                _ => Mi::WrongKey,
            };
            let r = Req {
                src: Src::Fresh,
                user: f.user,
                mi,
                uc: f.uc,
                ice: f.ice,
                fp: f.fp,
                fill: Fill { txid: t.to_vec(), ..f.fill.clone() },
            };
            build_request(&r, c, agent_role)
        }
        Content::Exact if f.same_txid => anchor.to_vec(),
        Content::Exact => build_stun(w.msg_type, &t, &head, MiSpec::Raw(orig), f.fp),
        Content::MiStripped => build_stun(w.msg_type, &t, &head, MiSpec::None, f.fp),
        Content::MiCorrupted => {
            let mut m = orig;
            let bit = (f.fill.junk % 160) as usize;
            m[bit / 8] ^= 1 << (bit % 8);
            build_stun(w.msg_type, &t, &head, MiSpec::Raw(m), f.fp)
        }
        Content::MiTruncated => {
            let l = [0usize, 1, 2, 4, 19][(f.fill.junk % 5) as usize];
            let mut h = head.clone();
            h.push((A_MI, orig[..l].to_vec()));
            build_stun(w.msg_type, &t, &h, MiSpec::None, f.fp)
        }
        Content::PlusUc => {
            let mut h = head.clone();
            if h.iter().any(|a| a.0 == A_USE_CANDIDATE) {
                h.push((A_SOFTWARE, b"x".to_vec()));
            } else {
                h.push((A_USE_CANDIDATE, Vec::new()));
            }
            build_stun(w.msg_type, &t, &h, MiSpec::Raw(orig), f.fp)
        }
    }
}

// ------------------------------------------------------------------ observation

#[derive(Clone, Debug, PartialEq, Eq)]
struct Snap {
    state: String,
    cands: Vec<(String, String, String)>,
    /// (local socket address, remote socket address, remote candidate type) of `get_selected_pair()`
    pair: Option<(String, String)>,
    /// the same as published on the selected-pair watch
    pair_watch: Option<(String, String)>,
    nomination: Option<bool>,
    socket: Option<String>,
}

fn snap(t: &IceTransport) -> Snap {
    let mut cands: Vec<(String, String, String)> = t
        .remote_candidates()
        .iter()
        .map(|c| (c.address.to_string(), format!("{:?}", c.typ), c.transport.clone()))
        .collect();
    cands.sort();
    Snap {
        state: format!("{:?}", t.state()),
        cands,
        pair: t.get_selected_pair().map(|p| {
            (format!("{}/{}", p.local.address, p.local.transport), format!("{}/{:?}/{}", p.remote.address, p.remote.typ, p.remote.transport))
        }),
        pair_watch: t.subscribe_selected_pair().borrow().as_ref().map(|p| {
            (format!("{}/{}", p.local.address, p.local.transport), format!("{}/{:?}/{}", p.remote.address, p.remote.typ, p.remote.transport))
        }),
        nomination: *t.subscribe_nomination_complete().borrow(),
        socket: t.subscribe_selected_socket().borrow().as_ref().map(|s| s.diag()),
    }
}

/// Effects of one message, in three groups: candidate list / selection+state+nomination / socket only.
fn effects(a: &Snap, b: &Snap) -> [Vec<String>; 3] {
    let mut g0 = Vec::new();
    let mut g1 = Vec::new();
    let mut g2 = Vec::new();
    // multiset difference of candidate lists
    let mut before = a.cands.clone();
    let mut added: Vec<&(String, String, String)> = Vec::new();
    for c in &b.cands {
        if let Some(i) = before.iter().position(|x| x == c) {
            before.remove(i);
        } else {
            added.push(c);
        }
    }
    if added.iter().any(|c| c.1 == "PeerReflexive") {
        g0.push("prflx-candidate-added".to_string());
    }
    if added.iter().any(|c| c.1 != "PeerReflexive") {
        g0.push("candidate-added".to_string());
    }
    if !before.is_empty() {
        g0.push("candidate-removed".to_string());
    }
    if a.pair != b.pair || a.pair_watch != b.pair_watch {
        g1.push("pair-selected".to_string());
    }
    if a.state != b.state {
        if b.state == "Connected" {
            g1.push("connected".to_string());
        } else {
            g1.push(format!("state:{}->{}", a.state, b.state));
        }
    }
    if a.nomination != b.nomination {
        if b.nomination == Some(true) {
            g1.push("nominated".to_string());
        } else {
            g1.push(format!("nomination:{:?}->{:?}", a.nomination, b.nomination));
        }
    }
    if a.socket != b.socket && a.pair == b.pair && a.pair_watch == b.pair_watch {
        g2.push("selected-socket-changed".to_string());
    }
    [g0, g1, g2]
}

const P_REQ: &str = "unauthenticated-request:";
const P_RESP: &str = "unsolicited-response:";

/// Signatures that can be tolerated as known findings (anything else always alarms).
fn signature_universe() -> Vec<String> {
    let mut v = Vec::new();
    for p in [P_REQ, P_RESP] {
        for a in ["prflx-candidate-added", "candidate-added", "candidate-removed", "selected-socket-changed"] {
            v.push(format!("{p}{a}"));
        }
        let parts = ["pair-selected", "connected", "nominated"];
        for m in 1..8u32 {
            let s: Vec<&str> = parts.iter().enumerate().filter(|(i, _)| m & (1 << i) != 0).map(|(_, x)| *x).collect();
            v.push(format!("{p}{}", s.join("+")));
        }
    }
    v
}

// ------------------------------------------------------------------ live rig

#[derive(Clone, Debug)]
pub struct Env {
    pub mux_port: u16,
    pub tcp_shared_port: u16,
}

#[derive(Default)]
struct Seen {
    /// Binding requests from the agent: (txid, first seen, answered)
    requests: Vec<([u8; 12], Instant, bool)>,
    /// transaction ids of responses that arrived on this socket
    responses: HashSet<[u8; 12]>,
    agent_src: Option<SocketAddr>,
}

struct Peer {
    sock: Arc<UdpSocket>,
    addr: SocketAddr,
    seen: Arc<Mutex<Seen>>,
    #[allow(dead_code)]
    answer: Arc<AtomicBool>,
    task: tokio::task::JoinHandle<()>,
}

impl Drop for Peer {
    fn drop(&mut self) {
        self.task.abort();
    }
}

async fn peer(creds: Creds, answer: bool, answer_uc: bool) -> Result<Peer, String> {
    let sock = Arc::new(UdpSocket::bind("127.0.0.1:0").await.map_err(|e| format!("bind: {e}"))?);
    let addr = sock.local_addr().map_err(|e| e.to_string())?;
    let seen = Arc::new(Mutex::new(Seen::default()));
    let answer = Arc::new(AtomicBool::new(answer));
    let (s2, seen2, ans2) = (sock.clone(), seen.clone(), answer.clone());
    let task = tokio::spawn(async move {
        let mut buf = [0u8; 2048];
        loop {
            let Ok((n, from)) = s2.recv_from(&mut buf).await else { break };
            let Ok(w) = sw::parse_strict(&buf[..n]) else { continue };
            if w.method != 1 {
                continue;
            }
            match w.class {
                0 => {
                    let nominating = w.attrs.iter().any(|a| a.typ == A_USE_CANDIDATE);
                    let do_answer = ans2.load(Ordering::SeqCst) && (answer_uc || !nominating);
                    {
                        let mut g = seen2.lock();
                        g.agent_src = Some(from);
                        if let Some(e) = g.requests.iter_mut().find(|e| e.0 == w.txid) {
                            e.2 |= do_answer;
                        } else {
                            g.requests.push((w.txid, Instant::now(), do_answer));
                        }
                    }
                    if do_answer {
                        let resp = build_response(&w.txid, None, from, true, Fp::Valid, &creds);
                        let _ = s2.send_to(&resp, from).await;
                    }
                }
                2 | 3 => {
                    seen2.lock().responses.insert(w.txid);
                }
                _ => {}
            }
        }
    });
    Ok(Peer { sock, addr, seen, answer, task })
}

enum Keep {
    Udp(#[allow(dead_code)] UdpSocket),
    Tcp(#[allow(dead_code)] TcpStream),
}

struct Live {
    t: IceTransport,
    creds: Creds,
    role: Role,
    kind: Kind,
    udp_target: SocketAddr,
    tcp_target: Option<SocketAddr>,
    /// the known remote candidate (silent K in New/Checking, answering genuine peer P in Connected)
    known: Peer,
    known_tcp_sock: Option<TcpSocket>,
    known_tcp: Option<TcpStream>,
    keep: Vec<Keep>,
    fast_timeout: bool,
    /// stun_timeout shortened by the generated configuration
    short_stun: bool,
    grave_secs: u64,
    /// sockets bound on other loopback IPs with the known candidate's port: (ip, tcp, index in `keep`)
    alt: Vec<(u8, bool, usize)>,
    /// last authenticated check of the genuine harness peer
    genuine: Option<AnchorRef>,
    /// last authenticated request of this case, whoever sent it
    last_auth: Option<AnchorRef>,
}

#[derive(Clone)]
struct AnchorRef {
    bytes: Vec<u8>,
    /// None = the known socket, Some(i) = `keep[i]`
    src: Option<usize>,
}

#[derive(Clone, Copy, Debug)]
enum Via {
    Known,
    Fresh,
    Keep(usize),
    /// 127.0.0.<ip>, port of the known remote candidate (`same_port`) or a fresh one
    AltIp { ip: u8, same_port: bool },
}

fn via_of(src: Src, junk: u32) -> Via {
    let ip = if junk & 0x100 == 0 { 2 } else { 3 };
    match src {
        Src::Known => Via::Known,
        Src::Fresh => Via::Fresh,
        Src::SamePortOtherIp => Via::AltIp { ip, same_port: true },
        Src::OtherIpFreshPort => Via::AltIp { ip, same_port: false },
    }
}

impl From {
    fn via(self, anchor: &AnchorRef) -> Via {
        match self {
            From::Fresh => Via::Fresh,
            From::Known => Via::Known,
            From::SamePortOtherIp => Via::AltIp { ip: 2, same_port: true },
            From::Anchor => match anchor.src {
                None => Via::Known,
                Some(i) => Via::Keep(i),
            },
        }
    }
}

impl Drop for Live {
    fn drop(&mut self) {
        self.t.stop();
        // A stopped agent keeps retransmitting its pending checks for up to stun_timeout /
        // nomination_timeout. Keep every harness socket it may still be talking to bound until
        // then, otherwise the freed port can be handed to ANOTHER case's agent, which would see
        // the stale checks as requests from a stranger (cross-talk between cases).
        let grave = Duration::from_secs(self.grave_secs);
        let keep = std::mem::take(&mut self.keep);
        let k = self.known.sock.clone();
        let kt = self.known_tcp.take();
        let ks = self.known_tcp_sock.take();
        if let Ok(h) = tokio::runtime::Handle::try_current() {
            h.spawn(async move {
                tokio::time::sleep(grave).await;
                drop((keep, k, kt, ks));
            });
        }
    }
}

fn config_for(kind: Kind, env: &Env, fast_timeout: bool, pending: bool, k: &Cfg) -> RtcConfiguration {
    let mut cfg = RtcConfiguration::default();
    cfg.enable_latching = k.latching;
    cfg.enable_ice_lite = k.ice_lite;
    cfg.prefer_srflx_over_natted_host = k.prefer_srflx;
    if k.tiny_buffer {
        cfg.buffer_drop_strategy = rustrtc::config::BufferDropStrategy::DropOldest;
        cfg.rtp_buffer_capacity = 2;
    }
    if k.probation {
        cfg.probation_max_packets = Some(3);
    }
    if k.external_ip {
        cfg.external_ip = Some("203.0.113.7".to_string());
    }
    if k.timeouts {
        cfg.stun_timeout = Duration::from_secs(2);
        cfg.ice_disconnect_threshold = Duration::from_secs(60);
        cfg.ice_connection_timeout = Duration::from_secs(90);
    }
    cfg.bind_ip = Some("127.0.0.1".to_string());
    cfg.disable_ipv6 = true;
    if pending {
        // must not run into the nomination timeout while it is observed
        cfg.nomination_timeout = Duration::from_secs(14);
    }
    if fast_timeout {
        cfg.stun_timeout = Duration::from_millis(300);
    }
    match kind {
        Kind::Udp => {}
        Kind::UdpMux => {
            cfg.ice_udp_mux = true;
            cfg.ice_udp_mux_port = Some(env.mux_port);
        }
        Kind::TcpPassive => {
            cfg.ice_tcp_policy = IceTcpPolicy::Enabled;
        }
        Kind::TcpShared => {
            cfg.tcp_port_range_start = Some(env.tcp_shared_port);
            cfg.tcp_port_range_end = Some(env.tcp_shared_port);
        }
    }
    cfg
}

async fn gathered(cfg: RtcConfiguration, role: Role) -> Result<IceTransport, String> {
    let (t, runner) = IceTransport::new(cfg);
    tokio::spawn(runner);
    t.set_role(match role {
        Role::Controlling => IceRole::Controlling,
        Role::Controlled => IceRole::Controlled,
    });
    let mut rx = t.subscribe_gathering_state();
    t.start_gathering().map_err(|e| format!("start_gathering: {e}"))?;
    let ok = tokio::time::timeout(Duration::from_secs(8), async {
        loop {
            if *rx.borrow() == IceGathererState::Complete {
                return true;
            }
            if rx.changed().await.is_err() {
                return false;
            }
        }
    })
    .await;
    if ok != Ok(true) {
        t.stop();
        return Err("gathering did not complete".into());
    }
    Ok(t)
}

fn is_tcp(kind: Kind) -> bool {
    matches!(kind, Kind::TcpPassive | Kind::TcpShared)
}

async fn wait_until(limit: Duration, mut f: impl FnMut() -> bool) -> bool {
    let t0 = Instant::now();
    loop {
        if f() {
            return true;
        }
        if t0.elapsed() > limit {
            return false;
        }
        tokio::time::sleep(Duration::from_millis(5)).await;
    }
}

async fn build_live(case: &Case, env: &Env) -> Result<Live, String> {
    let sc = case.sc;
    let wants_completed = case.msgs.iter().any(|m| matches!(m, Msg::Resp(r) if r.tx == RespTx::Completed));
    let fast_timeout = sc.state == St::Checking && wants_completed;
    let t = gathered(config_for(sc.kind, env, fast_timeout, sc.state == St::Pending, &case.cfg), sc.role).await?;
    let lp = t.local_parameters();
    let creds = Creds {
        l_ufrag: lp.username_fragment.clone(),
        l_pwd: lp.password.clone(),
        r_ufrag: R_UFRAG.to_string(),
        r_pwd: R_PWD.to_string(),
    };
    let locals = t.local_candidates();
    let udp_target = locals
        .iter()
        .find(|c| c.transport == "udp")
        .map(|c| c.address)
        .ok_or_else(|| format!("no UDP host candidate gathered ({:?})", sc.kind))?;
    let tcp_target = locals.iter().find(|c| c.transport == "tcp").map(|c| c.address);
    if is_tcp(sc.kind) && tcp_target.is_none() {
        return Err(format!("no passive TCP candidate gathered ({:?})", sc.kind));
    }
    let with_peer = matches!(sc.state, St::Connected | St::Pending);
    let known = peer(creds.clone(), with_peer, sc.state != St::Pending).await?;
    let mut live = Live {
        t,
        creds,
        role: sc.role,
        kind: sc.kind,
        udp_target,
        tcp_target,
        known,
        known_tcp_sock: None,
        known_tcp: None,
        keep: Vec::new(),
        fast_timeout,
        short_stun: case.cfg.timeouts,
        // a stopped agent can still retransmit: checks (Checking: stun_timeout 5 s) or the nominating check of a
        // controlling agent held before nomination (14 s); otherwise nothing is outstanding
        grave_secs: match (sc.state, sc.role) {
            (St::Pending, Role::Controlling) => 15,
            (St::Checking, _) => 11,
            _ => 6,
        },
        alt: Vec::new(),
        genuine: None,
        last_auth: None,
    };
    let uses_known = case.msgs.iter().any(|m| match m {
        Msg::Req(r) => r.src != Src::Fresh,
        Msg::Resp(r) => r.src != Src::Fresh,
        Msg::Forge(f) => f.from != From::Fresh || matches!(&f.anchor, Anchor::Own(r) if r.src != Src::Fresh),
    });
    let remote = IceParameters::new(R_UFRAG, R_PWD);
    if is_tcp(sc.kind) && uses_known {
        let s = TcpSocket::new_v4().map_err(|e| e.to_string())?;
        s.bind("127.0.0.1:0".parse().unwrap()).map_err(|e| e.to_string())?;
        let a = s.local_addr().map_err(|e| e.to_string())?;
        live.t.add_remote_candidate(IceCandidate::tcp(a, 1, "active"));
        live.known_tcp_sock = Some(s);
    }
    match sc.state {
        St::New => {
            if uses_known && !is_tcp(sc.kind) {
                live.t.add_remote_candidate(IceCandidate::host(live.known.addr, 1));
            }
        }
        St::Checking => {
            live.t.add_remote_candidate(IceCandidate::host(live.known.addr, 1));
            live.t.start(remote).map_err(|e| format!("start: {e}"))?;
            let seen = live.known.seen.clone();
            if !wait_until(Duration::from_secs(4), || !seen.lock().requests.is_empty()).await {
                return Err("agent never sent a connectivity check to the unreachable candidate".into());
            }
            if fast_timeout {
                // let the first transaction(s) run into stun_timeout (300 ms)
                tokio::time::sleep(Duration::from_millis(380)).await;
            }
        }
        St::Connected | St::Pending => {
            live.t.add_remote_candidate(IceCandidate::host(live.known.addr, 1));
            if sc.kind == Kind::UdpMux {
                // a genuine peer's first authenticated check also creates the mux routing entry
                let b = genuine_request(*b"c06-mux-rt-0", false, &live.creds, sc.role);
                let _ = live.known.sock.send_to(&b, live.udp_target).await;
                tokio::time::sleep(Duration::from_millis(30)).await;
            }
            live.t.start(remote).map_err(|e| format!("start: {e}"))?;
            let t = live.t.clone();
            if !wait_until(Duration::from_secs(6), || t.state() == IceTransportState::Connected).await {
                return Err(format!("agent did not reach Connected with the genuine peer (state {:?})", t.state()));
            }
            if sc.state == St::Connected {
                if sc.role == Role::Controlled {
                    let b = genuine_request(*b"c06-nominate", true, &live.creds, sc.role);
                    let _ = live.known.sock.send_to(&b, live.udp_target).await;
                }
                let ok = wait_until(Duration::from_secs(6), || {
                    t.state() == IceTransportState::Connected
                        && t.get_selected_pair().is_some()
                        && *t.subscribe_nomination_complete().borrow() == Some(true)
                })
                .await;
                if !ok {
                    return Err(format!("nomination with the genuine peer did not complete: {:?}", snap(&t)));
                }
            } else {
                // controlled: own check answered -> pair selected, waiting for the peer's USE-CANDIDATE;
                // controlling: Connected, nominating check outstanding (the peer does not answer it)
                let want_pair = sc.role == Role::Controlled;
                let seen = live.known.seen.clone();
                let ok = wait_until(Duration::from_secs(6), || {
                    t.get_selected_pair().is_some() == want_pair && (want_pair || seen.lock().requests.len() >= 2)
                })
                .await;
                if !ok || t.subscribe_nomination_complete().borrow().is_some() {
                    return Err(format!("could not hold the agent before nomination: {:?}", snap(&t)));
                }
            }
            // every genuine peer also runs its own (authenticated, non-nominating) checks: the anchor for
            // forged requests that re-use something of the genuine peer
            let b = genuine_request(*b"c06-genuine1", false, &live.creds, sc.role);
            let _ = live.known.sock.send_to(&b, live.udp_target).await;
            let seen = live.known.seen.clone();
            wait_until(Duration::from_millis(400), || seen.lock().responses.contains(b"c06-genuine1")).await;
            live.genuine = Some(AnchorRef { bytes: b.clone(), src: None });
            live.last_auth = live.genuine.clone();
        }
    }
    Ok(live)
}

/// Outcome of sending one message.
struct Sent {
    delivered: bool,
    answered: bool,
    authorised: bool,
    note: Option<&'static str>,
}

/// One wire message (a `Msg::Forge` with its own anchor expands to two steps).
#[derive(Clone, Debug)]
enum Step {
    Req(Req),
    Resp(Resp),
    Forge(Forge),
}

fn default_anchor(fill: &Fill) -> Req {
    let mut f = fill.clone();
    f.txid = f.txid.iter().map(|b| b.wrapping_add(0x3b)).collect();
    Req { src: Src::Fresh, user: User::Right, mi: Mi::Correct, uc: false, ice: true, fp: Fp::Valid, fill: f }
}

fn spec_verdict(r: &Req) -> Auth {
    if !matches!(r.user, User::Right | User::HalfRight) {
        return Auth::Invalid;
    }
    match r.mi {
        Mi::Correct | Mi::TwoCorrectFirst | Mi::ThenAttrs => Auth::Valid,
        Mi::TwoWrongFirst | Mi::BeforeUsername => Auth::Either,
        _ => Auth::Invalid,
    }
}

fn spec_authenticated(r: &Req) -> bool {
    spec_verdict(r) == Auth::Valid
}

/// Flatten a case into wire steps; a forged request always has an authenticated anchor before it.
fn steps_of(case: &Case) -> Vec<Step> {
    let mut have = matches!(case.sc.state, St::Connected | St::Pending);
    let mut out = Vec::new();
    for m in &case.msgs {
        match m {
            Msg::Req(r) => {
                have |= spec_authenticated(r);
                out.push(Step::Req(r.clone()));
            }
            Msg::Resp(r) => out.push(Step::Resp(r.clone())),
            Msg::Forge(f) => {
                match &f.anchor {
                    Anchor::Own(r) => {
                        let mut r = r.clone();
                        if !spec_authenticated(&r) {
                            r.user = User::Right;
                            r.mi = Mi::Correct;
                        }
                        out.push(Step::Req(r));
                        have = true;
                    }
                    Anchor::Genuine | Anchor::Last => {
                        if !have {
                            out.push(Step::Req(default_anchor(&f.fill)));
                            have = true;
                        }
                    }
                }
                out.push(Step::Forge(f.clone()));
            }
        }
    }
    out
}

async fn read_frame(s: &mut TcpStream, limit: Duration) -> Option<Vec<u8>> {
    tokio::time::timeout(limit, async {
        let mut l = [0u8; 2];
        s.read_exact(&mut l).await.ok()?;
        let n = u16::from_be_bytes(l) as usize;
        let mut b = vec![0u8; n];
        s.read_exact(&mut b).await.ok()?;
        Some(b)
    })
    .await
    .ok()
    .flatten()
}

impl Live {
    async fn tcp_send(&mut self, via: Via, bytes: &[u8], expect_reply: bool) -> (bool, bool, Option<usize>) {
        let Some(target) = self.tcp_target else { return (false, false, None) };
        let mut framed = (bytes.len() as u16).to_be_bytes().to_vec();
        framed.extend_from_slice(bytes);
        let via = match via {
            Via::AltIp { ip, same_port } => {
                let cached = self.alt.iter().find(|e| e.0 == ip && e.1 && same_port).map(|e| e.2);
                match cached {
                    Some(i) => Via::Keep(i),
                    None => {
                        let port = if same_port { self.known.addr.port() } else { 0 };
                        let Ok(s) = TcpSocket::new_v4() else { return (false, false, None) };
                        if s.bind(SocketAddr::from(([127, 0, 0, ip], port))).is_err() {
                            return (false, false, None);
                        }
                        let Ok(Ok(st)) = tokio::time::timeout(Duration::from_secs(2), s.connect(target)).await else {
                            return (false, false, None);
                        };
                        let _ = st.set_nodelay(true);
                        self.keep.push(Keep::Tcp(st));
                        if same_port {
                            self.alt.push((ip, true, self.keep.len() - 1));
                        }
                        Via::Keep(self.keep.len() - 1)
                    }
                }
            }
            v => v,
        };
        if let Via::Keep(i) = via {
            if let Some(Keep::Tcp(st)) = self.keep.get_mut(i) {
                if st.write_all(&framed).await.is_err() {
                    return (false, false, Some(i));
                }
                let answered = expect_reply && read_frame(st, Duration::from_millis(400)).await.is_some();
                return (true, answered, Some(i));
            }
        }
        match via {
            Via::Known => {
                if self.known_tcp.is_none() {
                    if let Some(s) = self.known_tcp_sock.take() {
                        match tokio::time::timeout(Duration::from_secs(2), s.connect(target)).await {
                            Ok(Ok(st)) => {
                                let _ = st.set_nodelay(true);
                                self.known_tcp = Some(st);
                            }
                            _ => return (false, false, None),
                        }
                    }
                }
                let Some(st) = self.known_tcp.as_mut() else { return (false, false, None) };
                if st.write_all(&framed).await.is_err() {
                    return (false, false, None);
                }
                let answered = expect_reply && read_frame(st, Duration::from_millis(400)).await.is_some();
                (true, answered, None)
            }
            Via::Fresh | Via::Keep(_) | Via::AltIp { .. } => {
                let Ok(Ok(mut st)) = tokio::time::timeout(Duration::from_secs(2), TcpStream::connect(target)).await else {
                    return (false, false, None);
                };
                let _ = st.set_nodelay(true);
                if st.write_all(&framed).await.is_err() {
                    return (false, false, None);
                }
                let answered = expect_reply && read_frame(&mut st, Duration::from_millis(400)).await.is_some();
                self.keep.push(Keep::Tcp(st));
                (true, answered, Some(self.keep.len() - 1))
            }
        }
    }

    async fn udp_send(&mut self, via: Via, bytes: &[u8], txid: [u8; 12], expect_reply: bool) -> (bool, bool, Option<usize>) {
        async fn reply(s: &UdpSocket, txid: [u8; 12]) -> bool {
            let mut buf = [0u8; 2048];
            let t0 = Instant::now();
            while t0.elapsed() < Duration::from_millis(400) {
                let left = Duration::from_millis(400).saturating_sub(t0.elapsed());
                match tokio::time::timeout(left, s.recv_from(&mut buf)).await {
                    Ok(Ok((n, _))) => {
                        if sw::parse_strict(&buf[..n]).map(|w| w.txid == txid && w.class >= 2).unwrap_or(false) {
                            return true;
                        }
                    }
                    _ => return false,
                }
            }
            false
        }
        let via = match via {
            Via::AltIp { ip, same_port } => {
                let cached = self.alt.iter().find(|e| e.0 == ip && !e.1 && same_port).map(|e| e.2);
                match cached {
                    Some(i) => Via::Keep(i),
                    None => {
                        let port = if same_port { self.known.addr.port() } else { 0 };
                        let Ok(s) = UdpSocket::bind(SocketAddr::from(([127, 0, 0, ip], port))).await else {
                            return (false, false, None);
                        };
                        self.keep.push(Keep::Udp(s));
                        if same_port {
                            self.alt.push((ip, false, self.keep.len() - 1));
                        }
                        Via::Keep(self.keep.len() - 1)
                    }
                }
            }
            v => v,
        };
        if let Via::Keep(i) = via {
            if let Some(Keep::Udp(s)) = self.keep.get(i) {
                if s.send_to(bytes, self.udp_target).await.is_err() {
                    return (false, false, Some(i));
                }
                let answered = expect_reply && reply(s, txid).await;
                return (true, answered, Some(i));
            }
        }
        match via {
            Via::Known => {
                if self.known.sock.send_to(bytes, self.udp_target).await.is_err() {
                    return (false, false, None);
                }
                let seen = self.known.seen.clone();
                // (a re-used transaction id may already have been answered: then only the pause counts)
                let already = seen.lock().responses.contains(&txid);
                let answered = expect_reply
                    && !already
                    && wait_until(Duration::from_millis(400), || seen.lock().responses.contains(&txid)).await;
                if already {
                    tokio::time::sleep(Duration::from_millis(60)).await;
                }
                (true, answered, None)
            }
            Via::Fresh | Via::Keep(_) | Via::AltIp { .. } => {
                let Ok(s) = UdpSocket::bind("127.0.0.1:0").await else { return (false, false, None) };
                if s.send_to(bytes, self.udp_target).await.is_err() {
                    return (false, false, None);
                }
                let answered = expect_reply && reply(&s, txid).await;
                self.keep.push(Keep::Udp(s));
                (true, answered, Some(self.keep.len() - 1))
            }
        }
    }

    async fn send_request(&mut self, via: Via, bytes: &[u8]) -> (bool, bool, Option<usize>) {
        let mut txid = [0u8; 12];
        txid.copy_from_slice(&bytes[8..20]);
        if is_tcp(self.kind) { self.tcp_send(via, bytes, true).await } else { self.udp_send(via, bytes, txid, true).await }
    }

    async fn send(&mut self, m: &Step) -> Sent {
        match m {
            Step::Req(r) => {
                let bytes = build_request(r, &self.creds, self.role);
                let via = via_of(r.src, r.fill.junk);
                let (delivered, answered, idx) = self.send_request(via, &bytes).await;
                let v = verdict(&bytes, &self.creds);
                if v == Auth::Valid && delivered {
                    self.last_auth = Some(AnchorRef { bytes, src: idx });
                }
                Sent {
                    delivered,
                    answered,
                    authorised: v != Auth::Invalid,
                    note: if v == Auth::Either { Some("authorised:either-layout") } else { None },
                }
            }
            Step::Forge(f) => {
                let anchor = match &f.anchor {
                    Anchor::Genuine => self.genuine.clone().or_else(|| self.last_auth.clone()),
                    _ => self.last_auth.clone(),
                };
                let Some(anchor) = anchor else {
                    return Sent { delivered: false, answered: false, authorised: false, note: Some("forge:anchor-unavailable") };
                };
                let bytes = forge_bytes(f, &anchor.bytes, &self.creds, self.role);
                let (delivered, answered, idx) = self.send_request(f.from.via(&anchor), &bytes).await;
                let v = verdict(&bytes, &self.creds);
                if v == Auth::Valid && delivered {
                    self.last_auth = Some(AnchorRef { bytes, src: idx });
                }
                Sent { delivered, answered, authorised: v != Auth::Invalid, note: None }
            }
            Step::Resp(r) => {
                let (txid, authorised, note) = self.pick_txid(r);
                let mapped = self.known.seen.lock().agent_src.unwrap_or(self.udp_target);
                let bytes = build_response(&txid, r.error, mapped, r.mi, r.fp, &self.creds);
                let via = via_of(r.src, r.fill.junk);
                // TCP kinds also own a UDP socket: half of the responses go there
                let (delivered, _, _) = if is_tcp(self.kind) && r.fill.junk & 0x10 != 0 {
                    self.tcp_send(via, &bytes, false).await
                } else {
                    self.udp_send(via, &bytes, txid, false).await
                };
                Sent { delivered, answered: false, authorised, note }
            }
        }
    }

    /// Transaction id for a response: (id, matches an outstanding transaction, note).
    fn pick_txid(&self, r: &Resp) -> ([u8; 12], bool, Option<&'static str>) {
        let mut rnd = [0u8; 12];
        rnd.copy_from_slice(&r.fill.txid[..12]);
        let g = self.known.seen.lock();
        let k = r.fill.junk as usize;
        match r.tx {
            RespTx::Random => (rnd, false, None),
            RespTx::Completed => {
                let done: Vec<[u8; 12]> = g
                    .requests
                    .iter()
                    .filter(|e| {
                        if e.2 {
                            e.1.elapsed() > Duration::from_millis(20)
                        } else {
                            // unanswered: completed only by running into the (shortened) stun_timeout
                            self.fast_timeout && e.1.elapsed() > Duration::from_millis(345)
                        }
                    })
                    .map(|e| e.0)
                    .collect();
                if done.is_empty() {
                    (rnd, false, Some("resp:completed-unavailable"))
                } else {
                    (done[k % done.len()], false, Some("resp:completed-replayed"))
                }
            }
            RespTx::Outstanding => {
                let limit = if self.fast_timeout {
                    Duration::from_millis(250)
                } else if self.short_stun {
                    Duration::from_millis(1500)
                } else {
                    Duration::from_millis(4500)
                };
                let open: Vec<[u8; 12]> = g.requests.iter().filter(|e| !e.2 && e.1.elapsed() < limit).map(|e| e.0).collect();
                if open.is_empty() {
                    (rnd, false, Some("resp:outstanding-unavailable"))
                } else {
                    (open[open.len() - 1], true, Some("resp:outstanding-answered"))
                }
            }
        }
    }
}

const SETTLE: Duration = Duration::from_millis(150);

fn describe(m: &Step) -> String {
    match m {
        Step::Req(r) => format!(
            "request src={:?} user={:?} mi={} use-candidate={} ice-attrs={} fp={:?}",
            r.src, r.user, mi_label(r.mi), r.uc, r.ice, r.fp
        ),
        Step::Resp(r) => format!("response src={:?} error={:?} tx={:?} mi={} fp={:?}", r.src, r.error, r.tx, r.mi, r.fp),
        Step::Forge(f) => format!(
            "forged request re-using an authenticated one: anchor={} same-txid={} from={:?} content={:?} user={:?} mi={} use-candidate={} fp={:?}",
            match &f.anchor {
                Anchor::Own(r) => format!("own(src={:?},uc={})", r.src, r.uc),
                Anchor::Genuine => "genuine-peer".to_string(),
                Anchor::Last => "last-authenticated".to_string(),
            },
            f.same_txid, f.from, f.content, f.user, mi_label(f.mi), f.uc, f.fp
        ),
    }
}

/// Run one case against a live agent and judge it.
async fn run_case(case: Case, env: Arc<Env>, known: Arc<HashSet<String>>) -> (CaseRec, Check) {
    let rec = CaseRec::default();
    let sc = case.sc;
    rec.label(format!("kind={:?}", sc.kind));
    rec.label(format!("role={:?}", sc.role));
    rec.label(format!("state={:?}", sc.state));
    rec.label(if case.cfg.latching { "cfg:latching=on" } else { "cfg:latching=off" });
    for (on, name) in [
        (case.cfg.ice_lite, "cfg:ice-lite"),
        (case.cfg.prefer_srflx, "cfg:prefer-srflx"),
        (case.cfg.tiny_buffer, "cfg:tiny-buffer"),
        (case.cfg.probation, "cfg:probation"),
        (case.cfg.external_ip, "cfg:external-ip"),
        (case.cfg.timeouts, "cfg:timeouts"),
    ] {
        if on {
            rec.label(name);
        }
    }
    if case.cfg.latching
        && case.msgs.iter().any(|m| match m {
            Msg::Req(r) => r.src == Src::SamePortOtherIp,
            Msg::Resp(r) => r.src == Src::SamePortOtherIp,
            Msg::Forge(f) => f.from == From::SamePortOtherIp,
        })
    {
        rec.label("latching-on+same-port-other-ip");
    }
    let mut live = match build_live(&case, &env).await {
        Ok(l) => l,
        Err(e) => {
            return (rec, Err(Fail::timing("harness-setup", format!("could not build scenario {:?}: {e}", sc))));
        }
    };
    // baseline must be quiescent
    tokio::time::sleep(Duration::from_millis(40)).await;
    let mut cur = snap(&live.t);
    tokio::time::sleep(Duration::from_millis(80)).await;
    let again = snap(&live.t);
    if cur != again {
        return (
            rec,
            Err(Fail::timing("harness-baseline-unstable", format!("{:?}: baseline moved on its own: {:?} -> {:?}", sc, cur, again))),
        );
    }
    let want = if sc.state == St::Pending { "Connected".to_string() } else { format!("{:?}", sc.state) };
    if cur.state != want {
        return (rec, Err(Fail::timing("harness-setup", format!("{:?}: agent is in state {} after setup", sc, cur.state))));
    }
    let mut failures: Vec<Fail> = Vec::new();
    let mut prev_authorised = false;
    let mut any_unauth = false;
    let steps = steps_of(&case);
    for (i, m) in steps.iter().enumerate() {
        let t0 = Instant::now();
        let sent = live.send(m).await;
        let min_end = t0 + SETTLE;
        let end = std::cmp::max(min_end, Instant::now() + Duration::from_millis(40));
        tokio::time::sleep(end.saturating_duration_since(Instant::now())).await;
        let after = snap(&live.t);
        let eff = effects(&cur, &after);
        let changed = eff.iter().any(|g| !g.is_empty());
        match m {
            Step::Forge(f) => {
                rec.label(format!("forge:content={:?}", f.content));
                rec.label(format!("forge:from={:?}", f.from));
                rec.label(if f.same_txid { "forge:txid=re-used" } else { "forge:txid=new" });
                rec.label(match &f.anchor {
                    Anchor::Own(_) => "forge:anchor=own",
                    Anchor::Genuine => "forge:anchor=genuine-peer",
                    Anchor::Last => "forge:anchor=last",
                });
                if sent.answered {
                    rec.label("req:answered-by-agent");
                }
            }
            Step::Req(r) => {
                rec.label(format!("req:user={:?}", r.user));
                rec.label(format!("req:mi={}", mi_label(r.mi)));
                rec.label(format!("req:src={:?}", r.src));
                rec.label(if r.uc { "req:use-candidate" } else { "req:plain" });
                if sent.answered {
                    rec.label("req:answered-by-agent");
                }
            }
            Step::Resp(r) => {
                rec.label(format!("resp:tx={:?}", r.tx));
            }
        }
        if let Some(n) = sent.note {
            rec.label(n);
        }
        if !sent.delivered {
            rec.label("not-delivered");
        }
        let all: Vec<String> = eff.iter().flatten().cloned().collect();
        if sent.authorised {
            rec.label(if changed { "authorised:had-effect" } else { "authorised:no-effect" });
            if changed {
                rec.label(format!("authorised-effect={}", all.join("+")));
            }
        } else {
            any_unauth = true;
            let prefix = if matches!(m, Step::Resp(_)) { P_RESP } else { P_REQ };
            if changed {
                rec.label(format!("effect={}{}", prefix, all.join("+")));
            } else {
                rec.label("unauthorised:no-effect");
            }
            for g in eff.iter().filter(|g| !g.is_empty()) {
                let sig = format!("{}{}", prefix, g.join("+"));
                let msg = format!(
                    "{:?}: message {} ({}) without valid credentials / outstanding transaction changed ICE state: {} | before {:?} | after {:?} | delivered={} answered={}",
                    sc, i, describe(m), all.join("+"), cur, after, sent.delivered, sent.answered
                );
                let unknown = !known.contains(&sig);
                failures.push(if unknown && prev_authorised { Fail::timing(sig, msg) } else { Fail::new(sig, msg) });
            }
        }
        let stop = sent.authorised && matches!(m, Step::Resp(_));
        prev_authorised = sent.authorised;
        cur = after;
        if stop {
            // an honoured response starts legitimate follow-up activity (nomination); nothing after it is judged
            break;
        }
    }
    rec.set_nontrivial(any_unauth);
    drop(live);
    let res = match failures.iter().position(|f| !known.contains(&f.signature)) {
        Some(i) => Err(failures.swap_remove(i)),
        None => match failures.into_iter().next() {
            Some(f) => Err(f),
            None => Ok(()),
        },
    };
    (rec, res)
}

fn checker(env: Arc<Env>, known: Arc<HashSet<String>>) -> AsyncCheck<Case> {
    Arc::new(move |c: Case| {
        let env = env.clone();
        let known = known.clone();
        Box::pin(async move { run_case(c, env, known).await })
    })
}

// ------------------------------------------------------------------ generators

fn fill_strategy() -> impl Strategy<Value = Fill> {
    (
        prop::collection::vec(any::<u8>(), 12),
        prop_oneof![Just(0u32), Just(u32::MAX), Just(0x7e00_00ff), any::<u32>()],
        any::<u64>(),
        any::<u32>(),
        any::<bool>(),
    )
        .prop_map(|(txid, priority, tiebreak, junk, software)| Fill { txid, priority, tiebreak, junk, software })
}

fn scenario_strategy() -> impl Strategy<Value = Scenario> {
    (0..4usize, 0..2usize, 0..4usize).prop_map(|(k, r, s)| Scenario { kind: KINDS[k], role: ROLES[r], state: STATES[s] })
}

fn src_strategy() -> impl Strategy<Value = Src> {
    prop_oneof![3 => Just(Src::Fresh), 3 => Just(Src::Known), 2 => Just(Src::SamePortOtherIp), 1 => Just(Src::OtherIpFreshPort)]
}

fn fp_strategy() -> impl Strategy<Value = Fp> {
    prop_oneof![3 => Just(Fp::Valid), 1 => Just(Fp::Invalid), 1 => Just(Fp::Absent)]
}

fn shaped_strategy() -> impl Strategy<Value = Mi> {
    (
        prop_oneof![
            Just(0u8), Just(1u8), Just(2u8), Just(4u8), Just(19u8), Just(21u8), Just(22u8), Just(23u8), Just(24u8)
        ],
        prop::bool::weighted(0.75),
        any::<bool>(),
    )
        .prop_map(|(len, correct, std_len)| Mi::Shaped { len, correct, std_len })
}

fn req_strategy() -> impl Strategy<Value = Req> {
    (
        src_strategy(),
        prop_oneof![
            2 => Just(User::Absent), 2 => Just(User::Wrong), 1 => Just(User::Swapped),
            2 => Just(User::HalfRight), 4 => Just(User::Right)
        ],
        prop_oneof![
            2 => Just(Mi::Absent), 1 => Just(Mi::Random), 2 => Just(Mi::WrongKey),
            2 => Just(Mi::RemotePwd), 2 => Just(Mi::Tampered), 2 => Just(Mi::Correct),
            4 => shaped_strategy(), 1 => Just(Mi::TwoWrongFirst), 1 => Just(Mi::TwoCorrectFirst),
            1 => Just(Mi::BeforeUsername), 1 => Just(Mi::ThenAttrs)
        ],
        prop::bool::weighted(0.6),
        prop::bool::weighted(0.7),
        fp_strategy(),
        fill_strategy(),
    )
        .prop_map(|(src, user, mi, uc, ice, fp, fill)| Req { src, user, mi, uc, ice, fp, fill })
}

fn resp_strategy() -> impl Strategy<Value = Resp> {
    (
        src_strategy(),
        prop_oneof![3 => Just(None), 1 => Just(Some(401u16)), 1 => Just(Some(487u16)), 1 => Just(Some(400u16))],
        prop_oneof![3 => Just(RespTx::Random), 3 => Just(RespTx::Completed)],
        any::<bool>(),
        fp_strategy(),
        fill_strategy(),
    )
        .prop_map(|(src, error, tx, mi, fp, fill)| Resp { src, error, tx, mi, fp, fill })
}

/// An authenticated request to anchor a forgery on (mostly a plain check: a nominating one would
/// legitimately connect the agent and hide what the forgery does).
fn auth_req_strategy() -> impl Strategy<Value = Req> {
    (
        src_strategy(),
        prop_oneof![4 => Just(User::Right), 1 => Just(User::HalfRight)],
        prop::bool::weighted(0.2),
        prop::bool::weighted(0.8),
        prop_oneof![4 => Just(Fp::Valid), 1 => Just(Fp::Absent)],
        fill_strategy(),
    )
        .prop_map(|(src, user, uc, ice, fp, fill)| Req { src, user, mi: Mi::Correct, uc, ice, fp, fill })
}

fn forge_strategy() -> impl Strategy<Value = Forge> {
    (
        prop_oneof![5 => auth_req_strategy().prop_map(Anchor::Own), 3 => Just(Anchor::Genuine), 2 => Just(Anchor::Last)],
        prop::bool::weighted(0.7),
        prop_oneof![3 => Just(From::Fresh), 3 => Just(From::Anchor), 2 => Just(From::Known), 2 => Just(From::SamePortOtherIp)],
        prop_oneof![
            4 => Just(Content::Forged), 2 => Just(Content::MiStripped), 2 => Just(Content::MiCorrupted),
            2 => Just(Content::MiTruncated), 2 => Just(Content::PlusUc), 1 => Just(Content::Exact)
        ],
        prop_oneof![
            2 => Just(User::Absent), 2 => Just(User::Wrong), 1 => Just(User::Swapped),
            1 => Just(User::HalfRight), 3 => Just(User::Right)
        ],
        prop_oneof![
            3 => Just(Mi::Absent), 1 => Just(Mi::Random), 2 => Just(Mi::WrongKey), 2 => Just(Mi::RemotePwd),
            3 => shaped_strategy()
        ],
        prop::bool::weighted(0.8),
        prop::bool::weighted(0.7),
        fp_strategy(),
        fill_strategy(),
    )
        .prop_map(|(anchor, same_txid, from, content, user, mi, uc, ice, fp, fill)| Forge {
            anchor,
            same_txid,
            from,
            content,
            user,
            mi,
            uc,
            ice,
            fp,
            fill,
        })
}

fn cfg_strategy() -> impl Strategy<Value = Cfg> {
    (
        any::<bool>(),
        prop::bool::weighted(0.25),
        prop::bool::weighted(0.25),
        prop::bool::weighted(0.25),
        prop::bool::weighted(0.25),
        prop::bool::weighted(0.25),
        prop::bool::weighted(0.25),
    )
        .prop_map(|(latching, ice_lite, prefer_srflx, tiny_buffer, probation, external_ip, timeouts)| Cfg {
            latching,
            ice_lite,
            prefer_srflx,
            tiny_buffer,
            probation,
            external_ip,
            timeouts,
        })
}

/// Enumerated sub-checks cross `enable_latching` fully; the other knobs rotate over the cells (each on in a third).
fn cfg_rot(latching: bool, k: usize) -> Cfg {
    let h = (k as u64).wrapping_mul(0x9E37_79B9_7F4A_7C15) >> 20;
    Cfg {
        latching,
        ice_lite: h % 3 == 0,
        prefer_srflx: (h / 3) % 3 == 0,
        tiny_buffer: (h / 9) % 3 == 0,
        probation: (h / 27) % 3 == 0,
        external_ip: (h / 81) % 3 == 0,
        timeouts: (h / 243) % 3 == 0,
    }
}

fn seq_strategy() -> impl Strategy<Value = Case> {
    (
        scenario_strategy(),
        cfg_strategy(),
        prop::collection::vec(
            prop_oneof![
                4 => req_strategy().prop_map(Msg::Req),
                1 => resp_strategy().prop_map(Msg::Resp),
                3 => forge_strategy().prop_map(Msg::Forge)
            ],
            1..=10,
        ),
    )
        .prop_map(|(sc, cfg, msgs)| Case { sc, cfg, msgs })
}

const CROSS_USERS: [User; 4] = [User::Absent, User::Wrong, User::HalfRight, User::Right];
const CROSS_MIS: [Mi; 4] = [Mi::Absent, Mi::WrongKey, Mi::RemotePwd, Mi::Correct];
const CROSS_SRCS: [Src; 3] = [Src::Known, Src::Fresh, Src::SamePortOtherIp];

/// scenario x enable_latching x source x USERNAME x MESSAGE-INTEGRITY x USE-CANDIDATE, one message per fresh agent.
/// PRIORITY/ICE-CONTROL* presence, FINGERPRINT validity and the other configuration knobs rotate over the cells
/// (and with `round`).
fn cross_requests(fills: &[Fill], round: usize) -> Vec<Case> {
    let mut out = Vec::new();
    for (si, sc) in scenarios().into_iter().enumerate() {
        let mut j = 0usize;
        for latching in [false, true] {
            for src in CROSS_SRCS {
                for user in CROSS_USERS {
                    for mi in CROSS_MIS {
                        for uc in [false, true] {
                            let p = j + si + round;
                            let q = (j >> 1) + (si >> 1) + (round >> 1);
                            let fill = fills[out.len() % fills.len()].clone();
                            out.push(Case {
                                sc,
                                cfg: cfg_rot(latching, out.len() + round * 7919),
                                msgs: vec![Msg::Req(Req {
                                    src,
                                    user,
                                    mi,
                                    uc,
                                    ice: p & 1 == 0,
                                    fp: if q & 1 == 0 { Fp::Valid } else { Fp::Invalid },
                                    fill,
                                })],
                            });
                            j += 1;
                        }
                    }
                }
            }
        }
    }
    out
}

/// scenario x enable_latching x anchor {own authenticated check from a fresh / the known address, the genuine
/// peer's check} x forged content x what is re-used {transaction id, source address, both, id from another IP with
/// the known candidate's port}; the forged request always asks for nomination.
fn history_requests(fills: &[Fill], round: usize) -> Vec<Case> {
    let mut out = Vec::new();
    for (si, sc) in scenarios().into_iter().enumerate() {
        let reuse = vec![(true, From::Fresh), (false, From::Anchor), (true, From::Anchor), (true, From::SamePortOtherIp)];
        let mut anchors: Vec<(Option<Src>, Vec<(bool, From)>)> = vec![
            (Some(Src::Fresh), {
                let mut r = reuse.clone();
                r.push((true, From::Known));
                r
            }),
            (Some(Src::Known), reuse.clone()),
        ];
        if matches!(sc.state, St::Connected | St::Pending) {
            anchors.push((None, reuse.clone()));
        }
        let mut j = 0usize;
        for latching in [false, true] {
            for (a_src, reuses) in anchors.iter() {
                for (content, user, mi) in [
                    (Content::Forged, User::Absent, Mi::Absent),
                    (Content::Forged, User::Right, Mi::WrongKey),
                    (Content::MiStripped, User::Right, Mi::Absent),
                    (Content::MiCorrupted, User::Right, Mi::Random),
                    (Content::PlusUc, User::Right, Mi::Random),
                    (Content::MiTruncated, User::Right, Mi::Random),
                    (Content::Forged, User::Right, Mi::Shaped { len: 1, correct: true, std_len: true }),
                ] {
                    for (same_txid, from) in reuses.iter().copied() {
                        let p = j + si + round;
                        let fill = fills[out.len() % fills.len()].clone();
                        let anchor = match a_src {
                            Some(src) => Anchor::Own(Req {
                                src: *src,
                                user: User::Right,
                                mi: Mi::Correct,
                                uc: false,
                                ice: true,
                                fp: Fp::Valid,
                                fill: fills[(out.len() + 7) % fills.len()].clone(),
                            }),
                            None => Anchor::Genuine,
                        };
                        out.push(Case {
                            sc,
                            cfg: cfg_rot(latching, out.len() + round * 7919),
                            msgs: vec![Msg::Forge(Forge {
                                anchor,
                                same_txid,
                                from,
                                content,
                                user,
                                mi,
                                uc: true,
                                ice: p & 1 == 0,
                                fp: if (p >> 1) & 1 == 0 { Fp::Valid } else { Fp::Invalid },
                                fill,
                            })],
                        });
                        j += 1;
                    }
                }
            }
        }
    }
    out
}

/// MESSAGE-INTEGRITY shapes: every request carries the RIGHT USERNAME and asks for nomination, so the attribute's
/// shape is the only thing between the sender and the ICE state.
fn mi_shapes() -> Vec<Mi> {
    let mut v = Vec::new();
    for len in [0u8, 1, 2, 4, 19] {
        v.push(Mi::Shaped { len, correct: true, std_len: true });
        v.push(Mi::Shaped { len, correct: true, std_len: false });
        v.push(Mi::Shaped { len, correct: false, std_len: true });
    }
    for len in [21u8, 22, 23, 24] {
        v.push(Mi::Shaped { len, correct: true, std_len: true });
    }
    v.push(Mi::Shaped { len: 21, correct: true, std_len: false });
    v.push(Mi::Shaped { len: 24, correct: true, std_len: false });
    v.extend([Mi::TwoWrongFirst, Mi::TwoCorrectFirst, Mi::BeforeUsername, Mi::ThenAttrs]);
    v
}

/// scenario x MESSAGE-INTEGRITY shape, one message per fresh agent; source / USERNAME half / ICE attrs rotate.
fn cross_mi_shapes(fills: &[Fill], round: usize) -> Vec<Case> {
    let mut out = Vec::new();
    for (si, sc) in scenarios().into_iter().enumerate() {
        for (j, mi) in mi_shapes().into_iter().enumerate() {
            let p = j + si + round;
            let fill = fills[out.len() % fills.len()].clone();
            out.push(Case {
                sc,
                cfg: cfg_rot((p >> 1) & 1 == 1, out.len() + round * 7919),
                msgs: vec![Msg::Req(Req {
                    src: [Src::Fresh, Src::Known, Src::SamePortOtherIp, Src::OtherIpFreshPort][p % 4],
                    user: if (p / 2) % 4 == 3 { User::HalfRight } else { User::Right },
                    mi,
                    uc: true,
                    ice: (p >> 2) & 1 == 0,
                    fp: if (p >> 1) & 1 == 0 { Fp::Valid } else { Fp::Absent },
                    fill,
                })],
            });
        }
    }
    out
}

fn cross_responses(fills: &[Fill]) -> Vec<Case> {
    let mut out = Vec::new();
    for sc in scenarios() {
        for src in [Src::Known, Src::Fresh, Src::SamePortOtherIp] {
            for error in [None, Some(401u16)] {
                for tx in [RespTx::Random, RespTx::Completed] {
                    for mi in [false, true] {
                        let fill = fills[out.len() % fills.len()].clone();
                        out.push(Case {
                            sc,
                            cfg: cfg_rot(out.len() % 2 == 1, out.len()),
                            msgs: vec![Msg::Resp(Resp { src, error, tx, mi, fp: Fp::Valid, fill })],
                        });
                    }
                }
            }
        }
        if sc.state == St::Checking {
            // positive control: a response to an outstanding transaction is honoured
            for error in [None, Some(487u16)] {
                let fill = fills[out.len() % fills.len()].clone();
                out.push(Case {
                    sc,
                    cfg: Cfg::default(),
                    msgs: vec![Msg::Resp(Resp { src: Src::Known, error, tx: RespTx::Outstanding, mi: true, fp: Fp::Valid, fill })],
                });
            }
        }
    }
    out
}

// ------------------------------------------------------------------ builder self-check (differential)

#[derive(Clone, Debug, Serialize, Deserialize)]
pub struct SelfCase {
    pub req: Req,
    pub controlled: bool,
}

fn selfcheck(c: &SelfCase, rec: &CaseRec) -> Check {
    use stun::attributes::{ATTR_USE_CANDIDATE, ATTR_USERNAME};
    use stun::fingerprint::FINGERPRINT;
    use stun::integrity::MessageIntegrity;
    use stun::message::{BINDING_REQUEST, Message};
    let creds = Creds {
        l_ufrag: "0123456789abcdef".into(),
        l_pwd: "00112233445566778899aabbccddeeff".into(),
        r_ufrag: R_UFRAG.into(),
        r_pwd: R_PWD.into(),
    };
    let role = if c.controlled { Role::Controlled } else { Role::Controlling };
    let bytes = build_request(&c.req, &creds, role);
    // (a check of the generator, not of the property: never counted as non-trivial)
    if !matches!(c.req.mi, Mi::Shaped { .. }) {
        rec.label(format!("selfcheck:mi={:?}", c.req.mi));
    }
    let mut m = Message::new();
    if let Err(e) = m.unmarshal_binary(&bytes) {
        return Err(Fail::new("selfcheck-reference-rejects", format!("webrtc-rs stun cannot parse the built request: {e}")));
    }
    crate::ensure!(m.typ == BINDING_REQUEST, "selfcheck-type", "type {:?}", m.typ);
    let want_user = username_for(c.req.user, c.req.fill.junk, &creds);
    let got_user = m.get(ATTR_USERNAME).ok();
    crate::ensure!(
        got_user == want_user.clone().map(|s| s.into_bytes()),
        "selfcheck-username",
        "USERNAME {:?} vs wanted {:?}",
        got_user,
        want_user
    );
    crate::ensure!(m.contains(ATTR_USE_CANDIDATE) == c.req.uc, "selfcheck-use-candidate", "USE-CANDIDATE presence");
    // layouts whose FIRST MESSAGE-INTEGRITY is a regular, verifying one
    let first_mi_good = matches!(c.req.mi, Mi::Correct | Mi::TwoCorrectFirst | Mi::ThenAttrs | Mi::BeforeUsername);
    let ok_local = MessageIntegrity::new_short_term_integrity(creds.l_pwd.clone()).check(&mut m).is_ok();
    let ok_remote = MessageIntegrity::new_short_term_integrity(creds.r_pwd.clone()).check(&mut m).is_ok();
    crate::ensure!(
        ok_local == first_mi_good,
        "selfcheck-integrity-local",
        "reference says integrity under the local password is {} for {:?}",
        ok_local,
        c.req.mi
    );
    crate::ensure!(
        ok_remote == (c.req.mi == Mi::RemotePwd),
        "selfcheck-integrity-remote",
        "reference says integrity under the remote password is {} for {:?}",
        ok_remote,
        c.req.mi
    );
    if c.req.fp != Fp::Absent {
        let ok = FINGERPRINT.check(&m).is_ok();
        crate::ensure!(ok == (c.req.fp == Fp::Valid), "selfcheck-fingerprint", "reference fingerprint check {} for {:?}", ok, c.req.fp);
    }
    // the implementation under test must be able to read the very same bytes (no vacuous "ignored because malformed")
    let d = rustrtc::transports::ice::stun::StunMessage::decode(&bytes)
        .map_err(|e| Fail::new("selfcheck-rustrtc-rejects", format!("rustrtc cannot decode the built request: {e}")))?;
    crate::ensure!(
        d.class == rustrtc::transports::ice::stun::StunClass::Request && d.use_candidate == c.req.uc && d.transaction_id[..] == bytes[8..20],
        "selfcheck-rustrtc-decode",
        "rustrtc decoded {:?}",
        d
    );
    crate::ensure!(
        verdict(&bytes, &creds) == spec_verdict(&c.req),
        "selfcheck-oracle",
        "byte-level authentication verdict {:?} disagrees with the generated credentials {:?}/{:?}",
        verdict(&bytes, &creds),
        c.req.user,
        c.req.mi
    );
    if let Mi::Shaped { len, correct, std_len } = c.req.mi {
        // the attribute really has that length and - for the prefix shapes - really is a prefix of the HMAC an
        // implementation would compute for this layout
        let w = sw::parse_strict(&bytes).map_err(|e| Fail::new("selfcheck-strict", e))?;
        let a = w.attrs.iter().find(|a| a.typ == A_MI).ok_or_else(|| Fail::new("selfcheck-shape", "no MESSAGE-INTEGRITY"))?;
        crate::ensure!(a.value.len() == len as usize, "selfcheck-shape", "length {} vs {}", a.value.len(), len);
        if correct {
            let mut head = bytes[..a.offset].to_vec();
            let padded = (len as usize + 3) & !3;
            let l = a.offset - 20 + 4 + if std_len { 20 } else { padded };
            head[2..4].copy_from_slice(&(l as u16).to_be_bytes());
            let h = sw::hmac_sha1(creds.l_pwd.as_bytes(), &head);
            let n = (len as usize).min(20);
            crate::ensure!(a.value[..n] == h[..n], "selfcheck-shape", "not a prefix of the HMAC");
        }
        rec.label(format!("selfcheck:mi={}", mi_label(c.req.mi)));
    }
    // a forgery derived from an authenticated request is never authenticated, except the exact retransmission
    if spec_authenticated(&c.req) {
        for content in [Content::MiStripped, Content::MiCorrupted, Content::MiTruncated, Content::PlusUc, Content::Exact] {
            for same_txid in [true, false] {
                let f = Forge {
                    anchor: Anchor::Last,
                    same_txid,
                    from: From::Fresh,
                    content,
                    user: User::Right,
                    mi: Mi::Absent,
                    uc: true,
                    ice: true,
                    fp: c.req.fp,
                    fill: Fill { junk: c.req.fill.junk.rotate_left(7), ..c.req.fill.clone() },
                };
                let fb = forge_bytes(&f, &bytes, &creds, role);
                let want = content == Content::Exact && same_txid;
                let mut m2 = Message::new();
                let ref_ok = m2.unmarshal_binary(&fb).is_ok()
                    && MessageIntegrity::new_short_term_integrity(creds.l_pwd.clone()).check(&mut m2).is_ok();
                crate::ensure!(
                    authenticated(&fb, &creds) == want && ref_ok == want,
                    "selfcheck-forgery",
                    "forgery {:?} same_txid={} authenticated: own {} reference {} wanted {}",
                    content,
                    same_txid,
                    authenticated(&fb, &creds),
                    ref_ok,
                    want
                );
                crate::ensure!(
                    rustrtc::transports::ice::stun::StunMessage::decode(&fb).is_ok(),
                    "selfcheck-rustrtc-rejects",
                    "rustrtc cannot decode forgery {:?}",
                    content
                );
                rec.label(format!("selfcheck:forgery={:?}", content));
            }
        }
    }
    // own strict reader agrees on MESSAGE-INTEGRITY placement
    let w = sw::parse_strict(&bytes).map_err(|e| Fail::new("selfcheck-strict", e))?;
    if let Some(a) = w.attrs.iter().find(|a| a.typ == A_MI) {
        let exp = sw::expected_integrity(&bytes, a.offset, creds.l_pwd.as_bytes());
        crate::ensure!((exp[..] == a.value[..]) == first_mi_good, "selfcheck-own-hmac", "own HMAC recomputation disagrees");
    }
    Ok(())
}

// ------------------------------------------------------------------ batch runner for enumerated cases

fn run_enumerated(ctx: &Ctx, rt: &tokio::runtime::Runtime, sub: &str, cases: Vec<Case>, conc: usize, check: AsyncCheck<Case>) {
    let solo = |c: &Case| -> (CaseRec, Check) {
        let (rec, mut res) = rt.block_on(check(c.clone()));
        // time-bounded / load-sensitive verdicts must repeat alone (three attempts)
        let mut tries = 1;
        while matches!(&res, Err(f) if f.timing) && tries < 3 {
            res = rt.block_on(check(c.clone())).1;
            tries += 1;
        }
        (rec, res)
    };
    if ctx.is_replay() {
        if let Some(c) = ctx.replay_case::<Case>(sub) {
            let v = serde_json::to_value(&c).unwrap();
            let (rec, res) = solo(&c);
            match ctx.record(sub, &v, &rec, &res) {
                Ok(()) => println!("replay: property={} sub={} PASS", ctx.prop, sub),
                Err(f) => ctx.violation(sub, &v, &f),
            }
        }
        return;
    }
    for c in ctx.regression_cases::<Case>(sub) {
        let v = serde_json::to_value(&c).unwrap();
        let (rec, res) = solo(&c);
        if let Err(f) = ctx.record(sub, &v, &rec, &res) {
            ctx.violation(sub, &v, &f);
        }
    }
    if let Ok(ix) = std::env::var("VERIF_ONLY_CASE") {
        if let Some((s, i)) = ix.split_once(':') {
            if s == sub {
                let i: usize = i.parse().unwrap_or(0);
                println!("case {i} of {sub}: {}", serde_json::to_string(&cases[i]).unwrap_or_default());
                let (_r, res) = solo(&cases[i]);
                println!("verdict: {}", format!("{:?}", res).chars().take(1500).collect::<String>());
            }
        }
        return;
    }
    let results: Vec<(CaseRec, Check)> = rt.block_on(async {
        let sem = Arc::new(tokio::sync::Semaphore::new(conc.max(1)));
        let mut hs = Vec::new();
        for c in cases.iter().cloned() {
            let sem = sem.clone();
            let check = check.clone();
            hs.push(tokio::spawn(async move {
                let _p = sem.acquire_owned().await.unwrap();
                check(c).await
            }));
        }
        let mut out = Vec::new();
        for h in hs {
            out.push(match h.await {
                Ok(r) => r,
                Err(e) => (CaseRec::default(), Err(Fail::timing("harness-task-panic", format!("case task failed: {e}")))),
            });
        }
        out
    });
    let mut reported: HashSet<String> = HashSet::new();
    let mut confirmations = 0usize;
    for (i, (rec, res)) in results.into_iter().enumerate() {
        let v = serde_json::to_value(&cases[i]).unwrap();
        let (rec, res) = match res {
            // (bounded: once a dozen failures were confirmed alone the batch verdict is taken as is)
            Err(f) if !ctx.is_known(&f.signature) && confirmations < 12 => {
                confirmations += 1;
                // confirm alone before it counts: state changes do not depend on load
                let (rec2, res2) = solo(&cases[i]);
                if res2.is_ok() {
                    rec2.inconclusive_timing();
                    if crate::engine::progress() {
                        eprintln!("[{sub} {i}] not reproduced alone: {} {}", f.signature, f.msg.chars().take(300).collect::<String>());
                    }
                }
                (rec2, res2)
            }
            r => (rec, r),
        };
        if let Err(f) = ctx.record(sub, &v, &rec, &res) {
            if reported.len() < 6 && reported.insert(f.signature.clone()) {
                ctx.violation(sub, &v, &f);
            }
        }
    }
}

async fn free_udp_port() -> u16 {
    let s = UdpSocket::bind("127.0.0.1:0").await.expect("bind");
    s.local_addr().unwrap().port()
}

async fn free_tcp_port() -> u16 {
    let s = tokio::net::TcpListener::bind("127.0.0.1:0").await.expect("bind");
    s.local_addr().unwrap().port()
}

/// Long-lived sessions that hold the shared UDP mux port and the shared TCP listener for the whole run
/// (as in a single-port SFU deployment, every generated agent joins them).
async fn anchors() -> Result<(Env, Vec<IceTransport>), String> {
    for _ in 0..8 {
        let env = Env { mux_port: free_udp_port().await, tcp_shared_port: free_tcp_port().await };
        let a = gathered(config_for(Kind::UdpMux, &env, false, false, &Cfg::default()), Role::Controlled).await?;
        let b = gathered(config_for(Kind::TcpShared, &env, false, false, &Cfg::default()), Role::Controlled).await?;
        let ok_a = a.local_candidates().iter().any(|c| c.transport == "udp" && c.address.port() == env.mux_port);
        let ok_b = b.local_candidates().iter().any(|c| c.transport == "tcp" && c.address.port() == env.tcp_shared_port);
        if ok_a && ok_b {
            return Ok((env, vec![a, b]));
        }
        a.stop();
        b.stop();
    }
    Err("could not acquire shared mux ports".into())
}

pub fn run(ctx: &mut Ctx) {
    ctx.level = "exploration";
    ctx.rule = "live IceTransport (WebRTC mode, loopback) per case in scenario = socket kind {per-agent UDP, shared UDP mux port, per-agent passive TCP listener, shared passive TCP listener} x role {controlling, controlled} x state {New (gathered; a trickled remote candidate only when a message uses the known source), Checking (remote parameters + one silent remote candidate with an outstanding check), Connected (genuine harness peer: authenticated checks, nomination complete), Pending (same peer, connected but nomination withheld)}; the agent's configuration is generated too (enable_latching fully crossed in cross-requests and history-requests, alternating in the other grids, random in sequences; enable_ice_lite, prefer_srflx_over_natted_host, buffer strategy/capacity, probation_max_packets, external_ip, stun/disconnect/connection timeouts rotating, each on in a third of the cells); cross-requests: scenario x enable_latching x source {known remote candidate address, fresh socket on the same IP, another loopback IP bound to the SAME port as the known / selected remote candidate} x USERNAME {absent, wrong, local-half-only, right} x MESSAGE-INTEGRITY {absent, wrong key, remote password, correct} x USE-CANDIDATE, PRIORITY/ICE-CONTROL* presence and FINGERPRINT validity rotating over cells, one message per fresh agent; cross-responses: scenario x source x {success, error 401} x transaction id {random, replay of a completed (answered or timed-out) transaction} x MI, plus responses to outstanding transactions as positive control; cross-mi-shapes: scenario x MESSAGE-INTEGRITY shape with the right USERNAME and USE-CANDIDATE {attribute of 0/1/2/4/19 bytes = prefix of the correct HMAC (HMAC input with the regular or the really encoded length) or garbage, 21-24 bytes starting with the correct HMAC, wrong+correct and correct+wrong MESSAGE-INTEGRITY pairs, MESSAGE-INTEGRITY before USERNAME, correct MESSAGE-INTEGRITY followed by PRIORITY/ICE-CONTROL*/USE-CANDIDATE}; history-requests: scenario x anchor {own authenticated plain check from a fresh / from the known address, the genuine peer's last check} x forged nominating request {no credentials, right USERNAME + wrong-key HMAC, anchor bytes with MESSAGE-INTEGRITY stripped, with one HMAC bit flipped, with only USE-CANDIDATE added} x re-use {anchor's transaction id from a fresh socket, anchor's socket with a new id, both, anchor's id from another IP with the known candidate's port, anchor's id from the known address}; sequences: proptest sequences of 1-10 requests / responses / history-dependent forgeries (anchor = own authenticated request sent first, the genuine peer's check, or the last authenticated request of the case; also exact retransmissions as positive control) with random field contents (also swapped username, tampered HMAC, absent FINGERPRINT, error codes). Non-trivial = at least one request lacking valid credentials or one response without outstanding transaction was delivered to the live agent; distinct by case digest (variant x scenario x field contents).".into();
    ctx.assumptions = vec![
        "layouts RFC 5389 leaves to the receiver are not judged (either outcome): the canonical one plus trailing attributes after a verifying first MESSAGE-INTEGRITY (incl. a second, wrong MESSAGE-INTEGRITY) counts as authenticated; MESSAGE-INTEGRITY before USERNAME and a wrong MESSAGE-INTEGRITY in front of a verifying one are accepted either way; any MESSAGE-INTEGRITY attribute that is not exactly 20 bytes is unauthenticated".into(),
        "credentials are judged per message on its own bytes (independent reader + HMAC): valid iff USERNAME starts with '<local ufrag>:' and MESSAGE-INTEGRITY is the RFC 5389 HMAC-SHA1 under the local password over exactly these bytes - whatever was authenticated earlier from that address or under that transaction id; 'local:<other>' with a correct HMAC is treated as authenticated (RFC 8445 7.3 checks only the first half), so it is not judged".into(),
        "the agent binds an IPv4 loopback socket (not dual-stack), so IPv4-mapped IPv6 sources cannot reach it and are not generated; other-IP sources are 127.0.0.2 / 127.0.0.3".into(),
        "observation = state(), remote_candidates(), get_selected_pair() and the selected-pair watch as full (local socket address/transport, remote socket address/type/transport), nomination watch, selected-socket watch, sampled before and >= 150 ms after each message (and >= 40 ms after the agent's answer when one arrives)".into(),
        "answering an unauthenticated request is allowed and not checked; FINGERPRINT validity is varied but the statement attaches no consequence to it".into(),
        "a response matching an outstanding transaction id is honoured whatever its source address or integrity (the statement only requires a matching transaction)".into(),
    ];
    let universe = signature_universe();
    let known: Arc<HashSet<String>> = Arc::new(universe.into_iter().filter(|s| ctx.is_known(s)).collect());

    // 0. the byte builder against the webrtc-rs stun crate, rustrtc's decoder and the strict reader
    let n_self = ctx.scale(3000u32, 30_000u32);
    ctx.sub(
        "selfcheck-builder",
        n_self,
        (req_strategy(), any::<bool>()).prop_map(|(req, controlled)| SelfCase { req, controlled }),
        selfcheck,
    );
    if ctx.has_violation() {
        return; // the generator itself is broken: nothing below would mean anything
    }

    let rt = tokio::runtime::Builder::new_multi_thread().worker_threads(16).enable_all().build().unwrap();
    let (env, anchor) = match rt.block_on(anchors()) {
        Ok(x) => x,
        Err(e) => {
            eprintln!("harness: C06 cannot set up shared ports: {e}");
            crate::engine::exit_trouble();
        }
    };
    let env = Arc::new(env);
    let check = checker(env.clone(), known.clone());
    let conc = 256usize;

    let rounds = ctx.scale(1usize, 20usize);
    let fills: Vec<Fill> = ctx.draw("cross-fill", 4096, &fill_strategy()).into_iter().map(|t| {
        use proptest::strategy::ValueTree;
        t.current()
    }).collect();
    for round in 0..rounds {
        let off = (round * 1999) % fills.len();
        let mut f = fills[off..].to_vec();
        f.extend_from_slice(&fills[..off]);
        run_enumerated(ctx, &rt, "cross-requests", cross_requests(&f, round), conc, check.clone());
        run_enumerated(ctx, &rt, "cross-responses", cross_responses(&f), conc, check.clone());
        run_enumerated(ctx, &rt, "history-requests", history_requests(&f, round), conc, check.clone());
        run_enumerated(ctx, &rt, "cross-mi-shapes", cross_mi_shapes(&f, round), conc, check.clone());
        if ctx.is_replay() {
            break;
        }
    }

    let n_seq = ctx.scale(1000usize, 20_000usize);
    ctx.sub_async(&rt, "sequences", n_seq, conc, seq_strategy(), check.clone());

    for a in anchor {
        a.stop();
    }
    ctx.set_exhaustive(false);
    ctx.set_extra("settle_ms", json!(SETTLE.as_millis() as u64));
    ctx.set_extra("scenarios", json!(scenarios().len()));
    let mut tol: BTreeMap<String, bool> = BTreeMap::new();
    for s in known.iter() {
        tol.insert(s.clone(), true);
    }
    ctx.set_extra("tolerated_signatures", json!(tol));
}
