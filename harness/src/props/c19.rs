//! C19 — inbound RTP reaches only the right receiver; bridged streams stay continuous.
//!
//! Two sub-checks, both against the real `RtpTransport` (cleartext RTP, no SRTP):
//!
//! * `demux`  — generated registration sets + packet / control histories are
//!   injected with `RtpTransport::receive()`; after every packet all listener
//!   channels are polled and compared with a *nondeterministic* reference demux
//!   model written from the property statement (every tie the statement leaves
//!   open is an accepted alternative).
//! * `bridge` — generated rule tables x 1-4 interleaved source streams are
//!   injected into a transport bridged to a target transport that sits on a real
//!   loopback UDP socket; outputs are read from the target's egress
//!   `RtpObserver` and from the peer socket, and checked per source SSRC.

use crate::engine::{CaseRec, Check, Ctx, Fail};
use bytes::Bytes;
use parking_lot::Mutex;
use proptest::prelude::*;
use rustrtc::peer_connection::RtpObserver;
use rustrtc::rtp::RtpPacket;
use rustrtc::transports::PacketReceiver;
use rustrtc::transports::ice::IceSocketWrapper;
use rustrtc::transports::ice::conn::IceConn;
use rustrtc::transports::rtp::{
    RtpRewriteBridgeOptions, RtpRewriteBridgeParams, RtpRewriteRule, RtpTransport,
};
use serde::{Deserialize, Serialize};
use serde_json::json;
use std::collections::BTreeMap;
use std::net::SocketAddr;
use std::sync::Arc;
use tokio::sync::{mpsc, watch};

// ---------------------------------------------------------------------------
// shared value pools
// ---------------------------------------------------------------------------

/// RID / MID strings: index 0..=4 belong to listener slot i, 5..=6 are strangers.
/// RIDS[3] == MIDS[1] and RIDS[4] == MIDS[0] on purpose (namespace mix-ups).
const RIDS: [&str; 7] = ["h", "m", "l", "1", "0", "zz", "q9"];
const MIDS: [&str; 7] = ["0", "1", "2", "a3", "vid-0123456789ab", "9", "x"];
/// SSRC pool: slot i owns 2i and 2i+1; 10 and 11 are strangers.
const SSRCS: [u32; 12] = [
    0x1000_0001,
    0x1000_0002,
    1,
    0xFFFF_FFFF,
    0,
    0x8000_0000,
    0x1234_5678,
    0x1234_5679,
    100,
    200,
    0xDEAD_BEEF,
    7,
];
const PTS: [u8; 8] = [96, 97, 111, 0, 8, 127, 100, 101];
const GARBAGE_TAILS: [&[u8]; 4] = [&[0xFF], &[0xC0, 0x80], &[0xED, 0xA0, 0x80], &[0x80]];

const SIG_MULTI: &str = "demux-multi-delivery";
const SIG_MISDELIVERY: &str = "demux-misdelivery";
const SIG_UNEXPECTED_DROP: &str = "demux-unexpected-drop";
const SIG_CORRUPT: &str = "demux-delivered-packet-altered";
const SIG_MID_VIA_SSRC: &str = "demux-foreign-mid-delivered-via-ssrc";
const SIG_MID_VIA_PT: &str = "demux-foreign-mid-delivered-via-pt";
const SIG_MID_VIA_PROV: &str = "demux-foreign-mid-delivered-via-provisional";
const SIG_GHOST_MID: &str = "demux-mid-route-survives-clear-listeners";
const TAINT_SIGS: [&str; 4] = [SIG_MID_VIA_SSRC, SIG_MID_VIA_PT, SIG_MID_VIA_PROV, SIG_GHOST_MID];

// ---------------------------------------------------------------------------
// demux: case description
// ---------------------------------------------------------------------------

#[derive(Clone, Copy, Debug, PartialEq, Eq, Serialize, Deserialize)]
pub enum ExtCfg {
    /// transport not told about the extension
    Unset,
    /// the id the sender really uses for this extension
    Nominal,
    /// the id the sender uses for the *other* SDES extension (RID<->MID)
    Swapped,
    /// the id of an unrelated extension element
    Other,
}

#[derive(Clone, Debug, Serialize, Deserialize)]
pub enum ExtSel {
    Absent,
    /// the RID/MID string of pool index k (0..=6)
    Slot(u8),
    /// not UTF-8: optional registered prefix + invalid tail
    Garbage { prefix: Option<u8>, tail: u8 },
    /// zero-length element (two-byte header form only)
    Empty,
}

#[derive(Clone, Debug, Serialize, Deserialize)]
pub struct PktSpec {
    pub ssrc: u8,
    pub pt: u8,
    pub rid: ExtSel,
    pub mid: ExtSel,
    pub two_byte: bool,
    /// unrelated extension element carrying MIDS[k] as value
    pub other_ext: Option<u8>,
    pub other_first: bool,
    pub marker: bool,
    pub csrcs: u8,
    pub pad: u8,
}

#[derive(Clone, Debug, Serialize, Deserialize)]
pub enum Ev {
    Pkt(PktSpec),
    /// drop the receiver of the slot's current listener
    Close(u8),
    /// transport replacement: drop the receiver, open a new channel, register it again
    Replace(u8),
    RegPtList(u8, Vec<u8>),
    RegPt(u8, u8),
    RegProv(u8),
    RegSsrc(u8, u8),
    RegMid(u8),
    RegRid(u8),
    SetRidExt(ExtCfg),
    SetMidExt(ExtCfg),
    ClearAll,
}

#[derive(Clone, Debug, Serialize, Deserialize)]
pub struct LSpec {
    /// bit0/bit1: register own SSRC 2i / 2i+1
    pub ssrcs: u8,
    pub rid: bool,
    pub mid: bool,
    pub pt_list: Option<Vec<u8>>,
    pub single_pts: Vec<u8>,
    pub provisional: bool,
    pub pre_closed: bool,
    /// rotation of the registration call order
    pub order: u8,
}

#[derive(Clone, Debug, Serialize, Deserialize)]
pub struct DemuxCase {
    pub rid_id: u8,
    pub mid_id: u8,
    pub other_id: u8,
    pub rid_cfg: ExtCfg,
    pub mid_cfg: ExtCfg,
    pub listeners: Vec<LSpec>,
    pub events: Vec<Ev>,
}

// ---------------------------------------------------------------------------
// demux: reference model
// ---------------------------------------------------------------------------

#[derive(Clone, Debug)]
struct ML {
    slot: usize,
    live: bool,
    mid: Option<String>,
    pts: Vec<u8>,
    prov: bool,
}

#[derive(Clone, Copy, Debug, PartialEq, Eq, PartialOrd, Ord)]
enum Via {
    Rid,
    Mid,
    Ssrc,
    Pt,
    Prov,
    NoMatch,
    UnknownMid,
    ClosedTarget,
}

#[derive(Clone, Debug)]
struct Alt {
    /// index of the live listener that gets the packet, None = dropped
    out: Option<usize>,
    /// SSRC binding learnt by this alternative
    bind: Option<usize>,
    via: Via,
    taint: Option<&'static str>,
}

/// ssrc -> (listener, explicitly registered?)
type Bound = BTreeMap<u32, (usize, bool)>;
/// Canonical owner for "some closed listener": closed listeners never re-open and all
/// behave alike (the packet is dropped, or the stale registration no longer counts).
const CLOSED: usize = usize::MAX;
const SIG_OVERFLOW: &str = "internal-model-overflow";
const MAX_STATES: usize = 512;

/// `a` is dominated by `b` when b = a + bindings to closed listeners: every outcome
/// explainable from `a` is explainable from `b` (a closed binding only adds "drop").
fn dominated(a: &Bound, b: &Bound) -> bool {
    if a.len() >= b.len() {
        return false;
    }
    for (k, v) in a {
        if b.get(k) != Some(v) {
            return false;
        }
    }
    b.iter().all(|(k, v)| a.contains_key(k) || v.0 == CLOSED)
}

fn prune(states: &mut Vec<Bound>) {
    states.sort();
    states.dedup();
    if states.len() < 2 {
        return;
    }
    let keep: Vec<bool> = states
        .iter()
        .map(|a| !states.iter().any(|b| dominated(a, b)))
        .collect();
    let mut i = 0;
    states.retain(|_| {
        i += 1;
        keep[i - 1]
    });
}

struct PktView {
    ssrc: u32,
    pt: u8,
    rid: Option<Vec<u8>>,
    mid: Option<Vec<u8>>,
}

struct Model {
    ls: Vec<ML>,
    by_rid: BTreeMap<String, usize>,
    by_mid: BTreeMap<String, usize>,
    /// MID registrations that existed when clear_listeners() was called
    ghost_mid: BTreeMap<String, usize>,
    /// possible SSRC-binding states (every reading of the open ties)
    states: Vec<Bound>,
}

impl Model {
    fn new() -> Self {
        Model {
            ls: Vec::new(),
            by_rid: BTreeMap::new(),
            by_mid: BTreeMap::new(),
            ghost_mid: BTreeMap::new(),
            states: vec![Bound::new()],
        }
    }

    fn live(&self, l: usize) -> bool {
        l != CLOSED && self.ls[l].live
    }

    /// A listener was closed: its bindings become the canonical closed owner.
    fn canonicalise_closed(&mut self) {
        let ls = &self.ls;
        for st in &mut self.states {
            for (_k, v) in st.iter_mut() {
                if v.0 != CLOSED && !ls[v.0].live {
                    *v = (CLOSED, false);
                }
            }
        }
        prune(&mut self.states);
    }

    fn push_target(&self, alts: &mut Vec<Alt>, l: usize, via: Via, taint: Option<&'static str>) {
        alts.push(Alt {
            out: if self.live(l) { Some(l) } else { None },
            bind: Some(if self.live(l) { l } else { CLOSED }),
            via: if self.live(l) { via } else { Via::ClosedTarget },
            taint,
        });
    }

    /// All outcomes the statement permits for this packet in binding state `bound`.
    fn eval(&self, bound: &Bound, v: &PktView) -> Vec<Alt> {
        let mut alts = Vec::new();
        let rid_s = v.rid.as_deref().and_then(|b| std::str::from_utf8(b).ok());
        let mid_s = v.mid.as_deref().and_then(|b| std::str::from_utf8(b).ok());
        let rid_owner = rid_s.and_then(|s| self.by_rid.get(s).copied());
        let mid_owner = mid_s.and_then(|s| self.by_mid.get(s).copied());
        let ghost_owner = if mid_owner.is_none() {
            mid_s.and_then(|s| self.ghost_mid.get(s).copied())
        } else {
            None
        };
        // a closed listener's registration may or may not still count
        let rid_choices: Vec<Option<usize>> = match rid_owner {
            None => vec![None],
            Some(l) if self.live(l) => vec![Some(l)],
            Some(l) => vec![Some(l), None],
        };
        let mid_choices: Vec<(Option<usize>, Option<&'static str>)> = match (mid_owner, ghost_owner) {
            (Some(l), _) if self.live(l) => vec![(Some(l), None)],
            (Some(l), _) => vec![(Some(l), None), (None, None)],
            (None, Some(g)) => vec![(Some(g), Some(SIG_GHOST_MID)), (None, None)],
            _ => vec![(None, None)],
        };
        let mut fell = false;
        for r in &rid_choices {
            for (m, mt) in &mid_choices {
                match (*r, *m) {
                    (Some(a), Some(b)) if a != b => {
                        // RID and MID name different receivers: the statement says "RID or MID"
                        self.push_target(&mut alts, a, Via::Rid, None);
                        self.push_target(&mut alts, b, Via::Mid, *mt);
                    }
                    (Some(a), _) => self.push_target(&mut alts, a, Via::Rid, None),
                    (None, Some(b)) => self.push_target(&mut alts, b, Via::Mid, *mt),
                    (None, None) => fell = true,
                }
            }
        }
        if fell {
            self.fallthrough(bound, v, mid_s, &mut alts);
        }
        alts
    }

    fn fallthrough(&self, bound: &Bound, v: &PktView, mid_s: Option<&str>, alts: &mut Vec<Alt>) {
        // a usable MID that names no registered receiver
        let foreign_mid = mid_s.filter(|m| !m.is_empty());
        if v.mid.is_some() {
            // RFC 8843 reading: a MID that resolves to no receiver (unknown, empty or
            // unreadable) -> drop
            alts.push(Alt { out: None, bind: None, via: Via::UnknownMid, taint: None });
        }
        let contradicts = |l: usize| -> bool {
            match (foreign_mid, self.ls[l].mid.as_deref()) {
                (Some(m), Some(lm)) => m != lm,
                _ => false,
            }
        };
        // SSRC (registered or learnt)
        if let Some(&(l, _)) = bound.get(&v.ssrc) {
            if self.live(l) {
                alts.push(Alt {
                    out: Some(l),
                    bind: None,
                    via: Via::Ssrc,
                    taint: if contradicts(l) { Some(SIG_MID_VIA_SSRC) } else { None },
                });
                return;
            }
            // bound to a closed listener: dropped, or the stale binding no longer counts
            alts.push(Alt { out: None, bind: None, via: Via::ClosedTarget, taint: None });
        }
        // payload type registered by exactly one listener
        let mut h_live = Vec::new();
        let mut h_closed = Vec::new();
        for (i, l) in self.ls.iter().enumerate() {
            if l.pts.contains(&v.pt) {
                if l.live {
                    h_live.push(i);
                } else {
                    h_closed.push(i);
                }
            }
        }
        if h_live.len() == 1 {
            let l = h_live[0];
            alts.push(Alt {
                out: Some(l),
                bind: Some(l),
                via: Via::Pt,
                taint: if contradicts(l) { Some(SIG_MID_VIA_PT) } else { None },
            });
        }
        if h_live.is_empty() && !h_closed.is_empty() {
            alts.push(Alt { out: None, bind: Some(CLOSED), via: Via::ClosedTarget, taint: None });
        }
        let reach_prov = h_live.len() != 1 || !h_closed.is_empty();
        if !reach_prov {
            return;
        }
        // nothing identified the packet: drop, or a sole provisional listener may take it
        alts.push(Alt { out: None, bind: None, via: Via::NoMatch, taint: None });
        let p_live: Vec<usize> = self
            .ls
            .iter()
            .enumerate()
            .filter(|(_, l)| l.prov && l.live)
            .map(|(i, _)| i)
            .collect();
        if p_live.len() == 1 {
            let l = p_live[0];
            alts.push(Alt {
                out: Some(l),
                bind: None,
                via: Via::Prov,
                taint: if contradicts(l) { Some(SIG_MID_VIA_PROV) } else { None },
            });
        }
    }

    /// Feed the observed outcome; returns (how it was explained, taint if only a tainted reading explains it).
    fn observe(&mut self, v: &PktView, observed: Option<usize>) -> Result<(Vec<Via>, Option<&'static str>), Fail> {
        let mut next: Vec<Bound> = Vec::new();
        let mut vias: Vec<Via> = Vec::new();
        let mut tainted_vias: Vec<Via> = Vec::new();
        let mut taint: Option<&'static str> = None;
        let mut clean = false;
        let mut all_alts: Vec<String> = Vec::new();
        for bound in &self.states {
            for alt in self.eval(bound, v) {
                if all_alts.len() < 24 {
                    all_alts.push(format!(
                        "{:?}->{}{}",
                        alt.via,
                        match alt.out {
                            Some(l) => format!("L{}(slot {})", l, self.ls[l].slot),
                            None => "drop".into(),
                        },
                        alt.taint.map(|t| format!("[{}]", t)).unwrap_or_default()
                    ));
                }
                if alt.out != observed {
                    continue;
                }
                if alt.taint.is_none() {
                    clean = true;
                    vias.push(alt.via);
                } else {
                    tainted_vias.push(alt.via);
                    if taint.is_none() {
                        taint = alt.taint;
                    }
                }
                match alt.bind {
                    Some(l) => {
                        let mut b = bound.clone();
                        b.insert(v.ssrc, (l, false));
                        next.push(b);
                        if let Some(&(o, true)) = bound.get(&v.ssrc) {
                            if o != l && matches!(alt.via, Via::Rid | Via::Mid | Via::ClosedTarget) {
                                // reading: the explicitly registered SSRC keeps its receiver
                                next.push(bound.clone());
                            }
                        }
                    }
                    None => next.push(bound.clone()),
                }
            }
        }
        if next.is_empty() {
            all_alts.sort();
            all_alts.dedup();
            let (sig, what) = match observed {
                Some(l) => (
                    SIG_MISDELIVERY,
                    format!("delivered to listener L{} (slot {})", l, self.ls[l].slot),
                ),
                None => (SIG_UNEXPECTED_DROP, "dropped".to_string()),
            };
            return Err(Fail::new(
                sig,
                format!(
                    "packet ssrc={:#x} pt={} rid={:?} mid={:?} was {}; the statement permits only: {:?}; listeners: {:?}; by_rid {:?} by_mid {:?}; binding states {:?}",
                    v.ssrc, v.pt, v.rid, v.mid, what, all_alts, self.ls, self.by_rid, self.by_mid, self.states
                ),
            ));
        }
        prune(&mut next);
        if next.len() > MAX_STATES {
            return Err(Fail::new(SIG_OVERFLOW, "too many binding states"));
        }
        self.states = next;
        if clean {
            vias.sort();
            vias.dedup();
            Ok((vias, None))
        } else {
            tainted_vias.sort();
            tainted_vias.dedup();
            Ok((tainted_vias, taint))
        }
    }
}

// ---------------------------------------------------------------------------
// demux: interpreter (real transport + model in lock step)
// ---------------------------------------------------------------------------

type PktTx = mpsc::Sender<(RtpPacket, SocketAddr)>;
type PktRx = mpsc::Receiver<(RtpPacket, SocketAddr)>;

struct RealL {
    tx: PktTx,
    rx: Option<PktRx>,
}

fn cfg_id(c: ExtCfg, nominal: u8, swapped: u8, other: u8) -> Option<u8> {
    match c {
        ExtCfg::Unset => None,
        ExtCfg::Nominal => Some(nominal),
        ExtCfg::Swapped => Some(swapped),
        ExtCfg::Other => Some(other),
    }
}

fn ext_value(sel: &ExtSel, pool: &[&str; 7]) -> Option<Vec<u8>> {
    match sel {
        ExtSel::Absent => None,
        ExtSel::Slot(k) => Some(pool[(*k as usize).min(6)].as_bytes().to_vec()),
        ExtSel::Garbage { prefix, tail } => {
            let mut v = Vec::new();
            if let Some(p) = prefix {
                // keep total length <= 16 so the one-byte form can carry it
                let s = pool[(*p as usize).min(6)].as_bytes();
                v.extend_from_slice(&s[..s.len().min(12)]);
            }
            v.extend_from_slice(GARBAGE_TAILS[(*tail as usize).min(3)]);
            Some(v)
        }
        ExtSel::Empty => Some(Vec::new()),
    }
}

/// RFC 8285 header-extension block (profile, data) for the given elements.
fn encode_ext(elems: &[(u8, Vec<u8>)], two_byte: bool) -> (u16, Vec<u8>) {
    let need_two = two_byte || elems.iter().any(|(id, d)| *id > 14 || d.is_empty() || d.len() > 16);
    let mut data = Vec::new();
    if need_two {
        for (id, d) in elems {
            data.push(*id);
            data.push(d.len() as u8);
            data.extend_from_slice(d);
        }
    } else {
        for (i, (id, d)) in elems.iter().enumerate() {
            if i == 1 {
                data.push(0); // padding between elements is legal
            }
            data.push((*id << 4) | ((d.len() - 1) as u8));
            data.extend_from_slice(d);
        }
    }
    while data.len() % 4 != 0 {
        data.push(0);
    }
    (if need_two { 0x1000 } else { 0xBEDE }, data)
}

fn build_rtp(
    pt: u8,
    marker: bool,
    seq: u16,
    ts: u32,
    ssrc: u32,
    csrcs: u8,
    ext: Option<(u16, Vec<u8>)>,
    payload: &[u8],
    pad: u8,
) -> Vec<u8> {
    let cc = csrcs.min(2);
    let mut b = Vec::with_capacity(64);
    let mut b0 = 0x80u8 | cc;
    if pad > 0 {
        b0 |= 0x20;
    }
    if ext.is_some() {
        b0 |= 0x10;
    }
    b.push(b0);
    b.push((pt & 0x7F) | if marker { 0x80 } else { 0 });
    b.extend_from_slice(&seq.to_be_bytes());
    b.extend_from_slice(&ts.to_be_bytes());
    b.extend_from_slice(&ssrc.to_be_bytes());
    for i in 0..cc {
        b.extend_from_slice(&(0xC5C0_0000u32 + i as u32).to_be_bytes());
    }
    if let Some((profile, data)) = ext {
        b.extend_from_slice(&profile.to_be_bytes());
        b.extend_from_slice(&((data.len() / 4) as u16).to_be_bytes());
        b.extend_from_slice(&data);
    }
    b.extend_from_slice(payload);
    if pad > 0 {
        for _ in 0..pad - 1 {
            b.push(0);
        }
        b.push(pad);
    }
    b
}

#[derive(Default)]
struct DemuxSummary {
    vias: Vec<Via>,
    packets: u32,
    delivered: u32,
    dropped: u32,
    closed_involved: bool,
    learnt_used: bool,
    stranger_mid: bool,
    garbage_ext: bool,
    two_byte: bool,
    rid_mid_tie: bool,
    replaced: bool,
    cleared: bool,
    taints: Vec<(&'static str, String)>,
    max_states: usize,
    overflow: bool,
}

struct DemuxRun<'a> {
    case: &'a DemuxCase,
    transport: RtpTransport,
    real: Vec<RealL>,
    /// slot -> current listener incarnation
    cur: Vec<usize>,
    model: Model,
    rid_cfg: Option<u8>,
    mid_cfg: Option<u8>,
}

impl<'a> DemuxRun<'a> {
    fn new(case: &'a DemuxCase) -> Self {
        let (_tx, rx) = watch::channel(None::<IceSocketWrapper>);
        let conn = IceConn::new(rx, "127.0.0.1:9".parse().unwrap(), None);
        let transport = RtpTransport::new(conn, false);
        DemuxRun {
            case,
            transport,
            real: Vec::new(),
            cur: Vec::new(),
            model: Model::new(),
            rid_cfg: None,
            mid_cfg: None,
        }
    }

    fn slot(&self, s: u8) -> usize {
        (s as usize).min(self.case.listeners.len() - 1)
    }

    fn new_incarnation(&mut self, slot: usize) -> usize {
        let (tx, rx) = mpsc::channel(64);
        self.real.push(RealL { tx, rx: Some(rx) });
        self.model.ls.push(ML { slot, live: true, mid: None, pts: Vec::new(), prov: false });
        self.real.len() - 1
    }

    fn reg_ssrc(&mut self, slot: usize, which: u8) {
        let l = self.cur[slot];
        let ssrc = SSRCS[slot * 2 + (which as usize & 1)];
        self.transport.register_listener_sync(ssrc, self.real[l].tx.clone());
        let owner = if self.model.live(l) { (l, true) } else { (CLOSED, false) };
        for st in &mut self.model.states {
            st.insert(ssrc, owner);
        }
        prune(&mut self.model.states);
    }
    fn reg_rid(&mut self, slot: usize) {
        let l = self.cur[slot];
        self.transport.register_rid_listener(RIDS[slot].to_string(), self.real[l].tx.clone());
        self.model.by_rid.insert(RIDS[slot].to_string(), l);
    }
    fn reg_mid(&mut self, slot: usize) {
        let l = self.cur[slot];
        self.transport.register_mid_listener(MIDS[slot].to_string(), self.real[l].tx.clone());
        self.model.by_mid.insert(MIDS[slot].to_string(), l);
        self.model.ghost_mid.remove(MIDS[slot]);
        self.model.ls[l].mid = Some(MIDS[slot].to_string());
    }
    fn reg_pt_list(&mut self, slot: usize, list: &[u8]) {
        let l = self.cur[slot];
        let pts: Vec<u8> = list.iter().map(|i| PTS[(*i as usize).min(7)]).collect();
        self.transport.register_payload_list_listener(pts.clone(), self.real[l].tx.clone());
        let mut d = Vec::new();
        for p in pts {
            if !d.contains(&p) {
                d.push(p);
            }
        }
        self.model.ls[l].pts = d;
    }
    fn reg_pt(&mut self, slot: usize, pt_ix: u8) {
        let l = self.cur[slot];
        let pt = PTS[(pt_ix as usize).min(7)];
        self.transport.register_pt_listener(pt, self.real[l].tx.clone());
        if !self.model.ls[l].pts.contains(&pt) {
            self.model.ls[l].pts.push(pt);
        }
    }
    fn reg_prov(&mut self, slot: usize) {
        let l = self.cur[slot];
        self.transport.register_provisional_listener(self.real[l].tx.clone());
        self.model.ls[l].prov = true;
    }
    fn close(&mut self, slot: usize) {
        let l = self.cur[slot];
        self.real[l].rx = None;
        self.model.ls[l].live = false;
        self.model.canonicalise_closed();
    }

    fn register_spec(&mut self, slot: usize) {
        let spec = self.case.listeners[slot].clone();
        #[derive(Clone)]
        enum Call {
            Ssrc(u8),
            Prov,
            Mid,
            PtList(Vec<u8>),
            Pt(u8),
            Rid,
        }
        let mut calls = Vec::new();
        if spec.ssrcs & 1 != 0 {
            calls.push(Call::Ssrc(0));
        }
        if spec.provisional {
            calls.push(Call::Prov);
        }
        if spec.mid {
            calls.push(Call::Mid);
        }
        if let Some(l) = &spec.pt_list {
            calls.push(Call::PtList(l.clone()));
        }
        for p in &spec.single_pts {
            calls.push(Call::Pt(*p));
        }
        if spec.ssrcs & 2 != 0 {
            calls.push(Call::Ssrc(1));
        }
        if spec.rid {
            calls.push(Call::Rid);
        }
        if !calls.is_empty() {
            let k = spec.order as usize % calls.len();
            calls.rotate_left(k);
        }
        for c in calls {
            match c {
                Call::Ssrc(w) => self.reg_ssrc(slot, w),
                Call::Prov => self.reg_prov(slot),
                Call::Mid => self.reg_mid(slot),
                Call::PtList(l) => self.reg_pt_list(slot, &l),
                Call::Pt(p) => self.reg_pt(slot, p),
                Call::Rid => self.reg_rid(slot),
            }
        }
    }

    fn apply_cfg(&mut self) {
        self.transport.set_rid_extension_id(self.rid_cfg);
        self.transport.set_sdes_mid_extension_id(self.mid_cfg);
    }

    fn run(&mut self, sum: &mut DemuxSummary) -> Check {
        let case = self.case;
        self.rid_cfg = cfg_id(case.rid_cfg, case.rid_id, case.mid_id, case.other_id);
        self.mid_cfg = cfg_id(case.mid_cfg, case.mid_id, case.rid_id, case.other_id);
        self.apply_cfg();
        for slot in 0..case.listeners.len() {
            let l = self.new_incarnation(slot);
            self.cur.push(l);
            self.register_spec(slot);
            if case.listeners[slot].pre_closed {
                self.close(slot);
            }
        }
        let addr: SocketAddr = "127.0.0.1:5000".parse().unwrap();
        let mut buf = Vec::new();
        for (i, ev) in case.events.iter().enumerate() {
            match ev {
                Ev::Close(s) => {
                    let s = self.slot(*s);
                    self.close(s);
                }
                Ev::Replace(s) => {
                    let s = self.slot(*s);
                    self.close(s);
                    let l = self.new_incarnation(s);
                    self.cur[s] = l;
                    self.register_spec(s);
                    sum.replaced = true;
                }
                Ev::RegPtList(s, l) => {
                    let s = self.slot(*s);
                    self.reg_pt_list(s, l);
                }
                Ev::RegPt(s, p) => {
                    let s = self.slot(*s);
                    self.reg_pt(s, *p);
                }
                Ev::RegProv(s) => {
                    let s = self.slot(*s);
                    self.reg_prov(s);
                }
                Ev::RegSsrc(s, w) => {
                    let s = self.slot(*s);
                    self.reg_ssrc(s, *w);
                }
                Ev::RegMid(s) => {
                    let s = self.slot(*s);
                    self.reg_mid(s);
                }
                Ev::RegRid(s) => {
                    let s = self.slot(*s);
                    self.reg_rid(s);
                }
                Ev::SetRidExt(c) => {
                    self.rid_cfg = cfg_id(*c, case.rid_id, case.mid_id, case.other_id);
                    self.apply_cfg();
                }
                Ev::SetMidExt(c) => {
                    self.mid_cfg = cfg_id(*c, case.mid_id, case.rid_id, case.other_id);
                    self.apply_cfg();
                }
                Ev::ClearAll => {
                    self.transport.clear_listeners();
                    let m = &mut self.model;
                    m.by_rid.clear();
                    let old = std::mem::take(&mut m.by_mid);
                    m.ghost_mid.extend(old);
                    for l in &mut m.ls {
                        l.pts.clear();
                        l.prov = false;
                        l.mid = None;
                    }
                    m.states = vec![Bound::new()];
                    sum.cleared = true;
                }
                Ev::Pkt(p) => self.packet(i, p, addr, &mut buf, sum)?,
            }
        }
        Ok(())
    }

    fn packet(&mut self, i: usize, p: &PktSpec, addr: SocketAddr, buf: &mut Vec<u8>, sum: &mut DemuxSummary) -> Check {
        let case = self.case;
        let ssrc = SSRCS[(p.ssrc as usize).min(11)];
        let pt = PTS[(p.pt as usize).min(7)];
        let mut elems: Vec<(u8, Vec<u8>)> = Vec::new();
        if let Some(v) = ext_value(&p.rid, &RIDS) {
            elems.push((case.rid_id, v));
        }
        if let Some(v) = ext_value(&p.mid, &MIDS) {
            elems.push((case.mid_id, v));
        }
        if let Some(k) = p.other_ext {
            let e = (case.other_id, MIDS[(k as usize).min(6)].as_bytes().to_vec());
            if p.other_first {
                elems.insert(0, e);
            } else {
                elems.push(e);
            }
        }
        let ext = if elems.is_empty() { None } else { Some(encode_ext(&elems, p.two_byte)) };
        if matches!(&ext, Some((0x1000, _))) {
            sum.two_byte = true;
        }
        let lookup = |id: Option<u8>| -> Option<Vec<u8>> {
            id.and_then(|id| elems.iter().find(|e| e.0 == id).map(|e| e.1.clone()))
        };
        let view = PktView { ssrc, pt, rid: lookup(self.rid_cfg), mid: lookup(self.mid_cfg) };
        let payload = [i as u8, 0xC1, 0x9A, (i >> 8) as u8, 0x55, p.ssrc, p.pt, 0x7E];
        let seq = i as u16;
        let raw = build_rtp(pt, p.marker, seq, (i as u32).wrapping_mul(160), ssrc, p.csrcs, ext, &payload, p.pad.min(8));

        // classification helpers
        let usable = |b: &Option<Vec<u8>>| b.as_deref().and_then(|x| std::str::from_utf8(x).ok()).map(|s| s.to_string());
        if let Some(m) = usable(&view.mid) {
            if !m.is_empty() && !self.model.by_mid.contains_key(&m) {
                sum.stranger_mid = true;
            }
        }
        for b in [&view.rid, &view.mid] {
            if let Some(x) = b {
                if std::str::from_utf8(x).is_err() {
                    sum.garbage_ext = true;
                }
            }
        }
        if let (Some(r), Some(m)) = (usable(&view.rid), usable(&view.mid)) {
            if let (Some(a), Some(b)) = (self.model.by_rid.get(&r), self.model.by_mid.get(&m)) {
                if a != b {
                    sum.rid_mid_tie = true;
                }
            }
        }
        if self.model.ls.iter().any(|l| {
            !l.live && (l.pts.contains(&pt) || l.prov)
        }) || self.model.states.iter().any(|b| b.get(&ssrc).map_or(false, |(l, _)| !self.model.live(*l)))
        {
            sum.closed_involved = true;
        }
        let learnt = self.model.states.iter().any(|b| matches!(b.get(&ssrc), Some((_, false))));

        futures::executor::block_on(self.transport.receive(Bytes::from(raw), addr, buf));
        sum.packets += 1;

        // poll every live channel
        let mut got: Vec<(usize, RtpPacket)> = Vec::new();
        for (l, r) in self.real.iter_mut().enumerate() {
            if let Some(rx) = r.rx.as_mut() {
                while let Ok((pkt, _a)) = rx.try_recv() {
                    got.push((l, pkt));
                }
            }
        }
        if got.len() > 1 {
            return Err(Fail::new(
                SIG_MULTI,
                format!(
                    "event {}: packet ssrc={:#x} pt={} appeared {} times, on listeners {:?}",
                    i,
                    ssrc,
                    pt,
                    got.len(),
                    got.iter().map(|g| g.0).collect::<Vec<_>>()
                ),
            ));
        }
        let observed = got.first().map(|g| g.0);
        if let Some((l, pkt)) = got.first() {
            let h = &pkt.header;
            if h.ssrc != ssrc || h.payload_type != pt || h.sequence_number != seq || pkt.payload.as_ref() != payload {
                return Err(Fail::new(
                    SIG_CORRUPT,
                    format!(
                        "event {}: listener L{} got ssrc={:#x} pt={} seq={} payload={:?}, injected ssrc={:#x} pt={} seq={} payload={:?}",
                        i, l, h.ssrc, h.payload_type, h.sequence_number, pkt.payload, ssrc, pt, seq, payload
                    ),
                ));
            }
        }
        let (vias, taint) = self.model.observe(&view, observed).map_err(|mut f| {
            f.msg = format!("event {}: {}", i, f.msg);
            f
        })?;
        sum.max_states = sum.max_states.max(self.model.states.len());
        if observed.is_some() {
            sum.delivered += 1;
            if vias.contains(&Via::Ssrc) && learnt {
                sum.learnt_used = true;
            }
        } else {
            sum.dropped += 1;
        }
        for v in vias {
            if !sum.vias.contains(&v) {
                sum.vias.push(v);
            }
        }
        if let Some(t) = taint {
            if sum.taints.len() < 4 {
                let l = observed.unwrap_or(usize::MAX);
                sum.taints.push((
                    t,
                    format!(
                        "event {}: packet ssrc={:#x} pt={} rid={:?} mid={:?} (mid as text {:?}) was delivered to listener L{} (slot {}, registered MID {:?}); {}",
                        i,
                        ssrc,
                        pt,
                        view.rid,
                        view.mid,
                        usable(&view.mid),
                        l,
                        self.model.ls.get(l).map(|x| x.slot).unwrap_or(usize::MAX),
                        self.model.ls.get(l).and_then(|x| x.mid.clone()),
                        if t == SIG_GHOST_MID {
                            "that receiver's registrations were removed by clear_listeners() before this packet, so it is no longer a registered receiver"
                        } else {
                            "the packet names another media section than the one this receiver registered for; the statement requires a drop"
                        },
                    ),
                ));
            }
        }
        Ok(())
    }
}

fn pts_overlap(c: &DemuxCase) -> bool {
    // >= 2 listeners share a payload type (static registration view)
    let mut sets: Vec<Vec<u8>> = Vec::new();
    for l in &c.listeners {
        let mut s: Vec<u8> = Vec::new();
        if let Some(pl) = &l.pt_list {
            s.extend(pl.iter().map(|i| PTS[(*i as usize).min(7)]));
        }
        s.extend(l.single_pts.iter().map(|i| PTS[(*i as usize).min(7)]));
        sets.push(s);
    }
    for a in 0..sets.len() {
        for b in a + 1..sets.len() {
            if sets[a].iter().any(|p| sets[b].contains(p)) {
                return true;
            }
        }
    }
    false
}

fn check_demux(case: &DemuxCase, rec: &CaseRec, known: &[&'static str]) -> Check {
    if case.listeners.is_empty() {
        return Ok(());
    }
    let mut sum = DemuxSummary::default();
    let mut res = DemuxRun::new(case).run(&mut sum);
    if matches!(&res, Err(f) if f.signature == SIG_OVERFLOW) {
        // the reference model gave up (too many open readings): the rest of the history is not judged
        sum.overflow = true;
        res = Ok(());
    }
    let overlap = pts_overlap(case);
    rec.set_nontrivial(overlap && case.listeners.len() >= 2 && sum.packets >= 1);
    rec.label(format!("demux:listeners={}", case.listeners.len()));
    if overlap {
        rec.label("demux:overlapping-pt");
    }
    for v in &sum.vias {
        rec.label(format!("demux:explained-via-{:?}", v));
    }
    if sum.delivered > 0 {
        rec.label("demux:some-delivered");
    }
    if sum.dropped > 0 {
        rec.label("demux:some-dropped");
    }
    for (flag, name) in [
        (sum.closed_involved, "demux:closed-listener-involved"),
        (sum.learnt_used, "demux:learnt-ssrc-binding-used"),
        (sum.stranger_mid, "demux:stranger-mid"),
        (sum.garbage_ext, "demux:non-utf8-ext"),
        (sum.two_byte, "demux:two-byte-ext-header"),
        (sum.rid_mid_tie, "demux:rid-and-mid-name-different-receivers"),
        (sum.replaced, "demux:listener-replaced"),
        (sum.cleared, "demux:clear-listeners"),
        (sum.max_states > 1, "demux:model-nondeterministic"),
        (sum.overflow, "demux:model-gave-up"),
        (sum.max_states >= 16, "demux:model-states>=16"),
        (case.rid_cfg != ExtCfg::Unset || case.mid_cfg != ExtCfg::Unset, "demux:ext-id-configured"),
    ] {
        if flag {
            rec.label(name);
        }
    }
    res?;
    // only readings that mix media sections explain some delivery: report the first
    // one that is not a known finding, else the first known one
    if let Some((sig, msg)) = sum.taints.iter().find(|(s, _)| !known.contains(s)).or(sum.taints.first()) {
        rec.label(format!("demux:finding:{}", sig));
        return Err(Fail::new(*sig, msg.clone()));
    }
    Ok(())
}

// ---------------------------------------------------------------------------
// demux: generators
// ---------------------------------------------------------------------------

fn ext_cfg() -> impl Strategy<Value = ExtCfg> {
    prop_oneof![
        2 => Just(ExtCfg::Unset),
        6 => Just(ExtCfg::Nominal),
        1 => Just(ExtCfg::Swapped),
        1 => Just(ExtCfg::Other),
    ]
}

fn ext_sel() -> impl Strategy<Value = ExtSel> {
    prop_oneof![
        9 => Just(ExtSel::Absent),
        8 => (0..7u8).prop_map(ExtSel::Slot),
        2 => (prop::option::of(0..7u8), 0..4u8).prop_map(|(prefix, tail)| ExtSel::Garbage { prefix, tail }),
        1 => Just(ExtSel::Empty),
    ]
}

fn pkt_spec() -> impl Strategy<Value = PktSpec> {
    (
        0..12u8,
        0..8u8,
        ext_sel(),
        ext_sel(),
        prop::bool::weighted(0.2),
        prop::option::weighted(0.3, 0..7u8),
        any::<bool>(),
        prop::bool::weighted(0.2),
        prop_oneof![4 => Just(0u8), 1 => 1..3u8],
        prop_oneof![4 => Just(0u8), 1 => 1..9u8],
    )
        .prop_map(|(ssrc, pt, rid, mid, two_byte, other_ext, other_first, marker, csrcs, pad)| PktSpec {
            ssrc,
            pt,
            rid,
            mid,
            two_byte,
            other_ext,
            other_first,
            marker,
            csrcs,
            pad,
        })
}

fn pt_list() -> impl Strategy<Value = Vec<u8>> {
    // biased to the first three pool entries so lists overlap often
    prop::collection::vec(prop_oneof![3 => 0..3u8, 1 => 0..8u8], 0..4)
}

fn ev() -> impl Strategy<Value = Ev> {
    prop_oneof![
        140 => pkt_spec().prop_map(Ev::Pkt),
        8 => (0..5u8).prop_map(Ev::Close),
        6 => (0..5u8).prop_map(Ev::Replace),
        4 => (0..5u8, pt_list()).prop_map(|(s, l)| Ev::RegPtList(s, l)),
        4 => (0..5u8, 0..8u8).prop_map(|(s, p)| Ev::RegPt(s, p)),
        2 => (0..5u8).prop_map(Ev::RegProv),
        4 => (0..5u8, 0..2u8).prop_map(|(s, w)| Ev::RegSsrc(s, w)),
        4 => (0..5u8).prop_map(Ev::RegMid),
        2 => (0..5u8).prop_map(Ev::RegRid),
        2 => ext_cfg().prop_map(Ev::SetRidExt),
        4 => ext_cfg().prop_map(Ev::SetMidExt),
        1 => Just(Ev::ClearAll),
    ]
}

fn lspec() -> impl Strategy<Value = LSpec> {
    (
        prop_oneof![3 => Just(0u8), 3 => Just(1u8), 1 => Just(2u8), 2 => Just(3u8)],
        prop::bool::weighted(0.35),
        prop::bool::weighted(0.6),
        prop::option::weighted(0.75, pt_list()),
        prop::collection::vec(0..8u8, 0..3),
        prop::bool::weighted(0.5),
        prop::bool::weighted(0.12),
        0..8u8,
    )
        .prop_map(|(ssrcs, rid, mid, pt_list, single_pts, provisional, pre_closed, order)| LSpec {
            ssrcs,
            rid,
            mid,
            pt_list,
            single_pts,
            provisional,
            pre_closed,
            order,
        })
}

fn demux_case(max_events: usize) -> impl Strategy<Value = DemuxCase> {
    (
        1..=14u8,
        0..13u8,
        0..12u8,
        ext_cfg(),
        ext_cfg(),
        prop::collection::vec(lspec(), 1..=5),
        prop::collection::vec(ev(), 1..=max_events),
    )
        .prop_map(|(a, b, c, rid_cfg, mid_cfg, listeners, events)| {
            // three distinct one-byte-form ids by construction
            let mut ids: Vec<u8> = (1..=14u8).collect();
            let rid_id = ids.remove((a - 1) as usize);
            let mid_id = ids.remove(b as usize);
            let other_id = ids.remove(c as usize);
            DemuxCase { rid_id, mid_id, other_id, rid_cfg, mid_cfg, listeners, events }
        })
}

// ---------------------------------------------------------------------------
// bridge
// ---------------------------------------------------------------------------

const BPTS: [u8; 7] = [0, 8, 96, 98, 101, 111, 127];
const BSSRCS: [u32; 6] = [0x0000_0001, 0xFFFF_FFFF, 0x1234_5678, 0x8000_0000, 0, 0xFFFF_FC7C];
const TS_DISCONTINUITY: u32 = 900_000;

#[derive(Clone, Debug, Serialize, Deserialize)]
pub struct RuleBody {
    pub fixed: Option<u32>,
    pub offset: u32,
    pub out_pt: Option<u8>,
    /// (extension id, MIDS index) to stamp
    pub mid_stamp: Option<(u8, u8)>,
}

#[derive(Clone, Debug, Serialize, Deserialize)]
pub struct StreamSpec {
    pub base_seq: u16,
    pub base_ts: u32,
}

#[derive(Clone, Debug, Serialize, Deserialize)]
pub enum BStep {
    Pkt { stream: u8, dseq: u16, dts: u32, pt: u8, marker: bool, ext: bool },
    /// clear_bridge_rewrite() followed by installing the same bridge again
    Reinstall,
    /// clear_bridge_rewrite(); later packets must not be forwarded
    Clear,
}

#[derive(Clone, Debug, Serialize, Deserialize)]
pub struct BridgeCase {
    pub catch_all: Option<RuleBody>,
    /// (BPTS index, body), indices distinct by construction
    pub per_pt: Vec<(u8, RuleBody)>,
    pub catch_all_first: bool,
    /// install through the legacy single-params entry point
    pub legacy: bool,
    pub strip: bool,
    pub init_seq: Option<u16>,
    pub init_ts_off: Option<u32>,
    pub init_out_ts: Option<u32>,
    pub streams: Vec<StreamSpec>,
    pub steps: Vec<BStep>,
}

#[derive(Clone, Debug)]
struct MRule {
    match_pt: Option<u8>,
    fixed: Option<u32>,
    offset: u32,
    out_pt: Option<u8>,
    mid_stamp: Option<(u8, String)>,
}

/// The rule table the case installs, as the documentation describes it.
fn model_rules(c: &BridgeCase) -> Vec<MRule> {
    let body = |m: Option<u8>, b: &RuleBody| MRule {
        match_pt: m,
        fixed: b.fixed,
        offset: b.offset,
        out_pt: b.out_pt.map(|p| p & 0x7F),
        mid_stamp: b.mid_stamp.map(|(id, k)| (id, MIDS[(k as usize).min(6)].to_string())),
    };
    if c.legacy {
        // "a catch-all rule plus, when DTMF remapping is configured, a DTMF rule"
        // that inherits the catch-all's SSRC rewrite
        let ca = c.catch_all.clone().unwrap_or(RuleBody { fixed: None, offset: 0, out_pt: None, mid_stamp: None });
        let mut v = vec![MRule { match_pt: None, fixed: ca.fixed, offset: ca.offset, out_pt: ca.out_pt.map(|p| p & 0x7F), mid_stamp: None }];
        if let Some((ix, b)) = c.per_pt.first() {
            v.push(MRule {
                match_pt: Some(BPTS[(*ix as usize).min(6)]),
                fixed: ca.fixed,
                offset: ca.offset,
                out_pt: Some(b.out_pt.unwrap_or(101) & 0x7F),
                mid_stamp: None,
            });
        }
        return v;
    }
    let mut v = Vec::new();
    if c.catch_all_first {
        if let Some(b) = &c.catch_all {
            v.push(body(None, b));
        }
    }
    for (ix, b) in &c.per_pt {
        v.push(body(Some(BPTS[(*ix as usize).min(6)]), b));
    }
    if !c.catch_all_first {
        if let Some(b) = &c.catch_all {
            v.push(body(None, b));
        }
    }
    v
}

fn rule_for(rules: &[MRule], pt: u8) -> Option<&MRule> {
    rules
        .iter()
        .find(|r| r.match_pt == Some(pt))
        .or_else(|| rules.iter().find(|r| r.match_pt.is_none()))
}

fn rule_ssrc(r: Option<&MRule>, src: u32) -> u32 {
    match r {
        Some(r) => r.fixed.unwrap_or(src.wrapping_add(r.offset)),
        None => src,
    }
}

#[derive(Default)]
struct Capture {
    egress: Mutex<Vec<RtpPacket>>,
}

impl RtpObserver for Capture {
    fn on_egress(&self, packet: &RtpPacket, _dst: SocketAddr) {
        self.egress.lock().push(packet.clone());
    }
}

pub struct Rig {
    rt: tokio::runtime::Runtime,
    dst_sock: Arc<tokio::net::UdpSocket>,
    peer: std::net::UdpSocket,
    peer_addr: SocketAddr,
}

impl Rig {
    fn new() -> Self {
        let rt = tokio::runtime::Builder::new_current_thread().enable_all().build().expect("runtime");
        let dst_sock = rt.block_on(async { tokio::net::UdpSocket::bind("127.0.0.1:0").await.expect("bind dst") });
        let peer = std::net::UdpSocket::bind("127.0.0.1:0").expect("bind peer");
        peer.set_nonblocking(true).unwrap();
        let peer_addr = peer.local_addr().unwrap();
        Rig { rt, dst_sock: Arc::new(dst_sock), peer, peer_addr }
    }

    /// Datagrams that reached the peer socket. `expect_one`: wait (bounded) for the first.
    fn drain(&self, expect_one: bool) -> Vec<Vec<u8>> {
        let mut out = Vec::new();
        let mut buf = [0u8; 2048];
        let mut spins = 0u32;
        loop {
            match self.peer.recv_from(&mut buf) {
                Ok((n, _)) => out.push(buf[..n].to_vec()),
                Err(_) => {
                    if !expect_one || !out.is_empty() || spins > 2200 {
                        break;
                    }
                    spins += 1;
                    if spins < 200 {
                        std::thread::yield_now();
                    } else {
                        std::thread::sleep(std::time::Duration::from_millis(1));
                    }
                }
            }
        }
        out
    }
}

/// Independent reader for the fields the oracle needs from a wire datagram.
struct Wire {
    pt: u8,
    seq: u16,
    ts: u32,
    ssrc: u32,
    payload: Vec<u8>,
}

fn parse_wire(b: &[u8]) -> Option<Wire> {
    if b.len() < 12 || b[0] >> 6 != 2 {
        return None;
    }
    let cc = (b[0] & 0x0F) as usize;
    let mut off = 12 + cc * 4;
    if b[0] & 0x10 != 0 {
        if b.len() < off + 4 {
            return None;
        }
        let words = u16::from_be_bytes([b[off + 2], b[off + 3]]) as usize;
        off += 4 + words * 4;
    }
    if b.len() < off {
        return None;
    }
    let mut end = b.len();
    if b[0] & 0x20 != 0 {
        let p = *b.last()? as usize;
        if p > end - off {
            return None;
        }
        end -= p;
    }
    Some(Wire {
        pt: b[1] & 0x7F,
        seq: u16::from_be_bytes([b[2], b[3]]),
        ts: u32::from_be_bytes([b[4], b[5], b[6], b[7]]),
        ssrc: u32::from_be_bytes([b[8], b[9], b[10], b[11]]),
        payload: b[off..end].to_vec(),
    })
}

#[derive(Clone, Debug)]
struct StreamModel {
    out_ssrc: u32,
    first_rule_ssrc: u32,
    last_out_seq: u16,
    last_out_ts: u32,
    /// forward high-water mark of the source timestamp (what the bridge measures jumps against)
    last_src_ts: u32,
    /// out_ts - src_ts of the current continuity span
    offset: u32,
    per_rule: BTreeMap<Option<u8>, u32>,
}

fn install(src: &RtpTransport, dst: &Arc<RtpTransport>, c: &BridgeCase, rules: &[MRule]) {
    if c.legacy {
        let ca = &rules[0];
        let dtmf = rules.get(1).map(|r| (r.match_pt.unwrap(), r.out_pt.unwrap()));
        src.bridge_rewrite_to(
            dst.clone(),
            RtpRewriteBridgeParams {
                ssrc_offset: ca.offset,
                fixed_out_ssrc: ca.fixed,
                payload_type: ca.out_pt,
                dtmf_payload_type: dtmf,
                initial_sequence_number: c.init_seq,
                initial_timestamp_offset: c.init_ts_off,
                strip_extensions: c.strip,
            },
        );
    } else {
        let rr: Vec<RtpRewriteRule> = rules
            .iter()
            .map(|r| RtpRewriteRule {
                match_payload_type: r.match_pt,
                fixed_out_ssrc: r.fixed,
                ssrc_offset: r.offset,
                out_payload_type: r.out_pt,
                sdes_mid_extension_id: r.mid_stamp.as_ref().map(|m| m.0),
                sdes_mid: r.mid_stamp.as_ref().map(|m| m.1.clone()),
            })
            .collect();
        src.bridge_rewrite_rules_to(
            dst.clone(),
            RtpRewriteBridgeOptions {
                strip_extensions: c.strip,
                initial_sequence_number: c.init_seq,
                initial_timestamp_offset: c.init_ts_off,
                initial_output_timestamp: c.init_out_ts,
            },
            rr,
        );
    }
}

#[derive(Default)]
struct BridgeSummary {
    packets: u32,
    streams_used: usize,
    interleaved: bool,
    jump: bool,
    fwd_discontinuity: bool,
    backward: bool,
    seq_wrap: bool,
    ts_wrap_src: bool,
    ts_wrap_out: bool,
    rule_switch: bool,
    unmatched: bool,
    reinstalled: bool,
    cleared: bool,
}

fn check_bridge(c: &BridgeCase, rec: &CaseRec, rig: &Rig) -> Check {
    if c.streams.is_empty() {
        return Ok(());
    }
    let rules = model_rules(c);
    let mut sum = BridgeSummary::default();

    // make sure the target socket's write readiness is known to tokio
    let _ = rig.rt.block_on(rig.dst_sock.writable());
    let _ = rig.drain(false);

    let (_stx, srx) = watch::channel(None::<IceSocketWrapper>);
    let src = RtpTransport::new(IceConn::new(srx, "127.0.0.1:9".parse().unwrap(), None), false);
    let (_dtx, drx) = watch::channel(Some(IceSocketWrapper::Udp(rig.dst_sock.clone())));
    let dst = Arc::new(RtpTransport::new(IceConn::new(drx, rig.peer_addr, None), false));
    let cap = Arc::new(Capture::default());
    dst.add_observer(cap.clone());
    install(&src, &dst, c, &rules);

    let n_streams = c.streams.len();
    let mut cur: Vec<Option<(u16, u32)>> = vec![None; n_streams];
    let mut models: Vec<Option<StreamModel>> = vec![None; n_streams];
    let mut bridged = true;
    let mut last_stream: Option<usize> = None;
    let mut used = vec![false; n_streams];
    let addr: SocketAddr = "127.0.0.1:5000".parse().unwrap();
    let mut buf = Vec::new();
    let res: Check = (|| {
        for (i, step) in c.steps.iter().enumerate() {
            match step {
                BStep::Reinstall => {
                    src.clear_bridge_rewrite();
                    install(&src, &dst, c, &rules);
                    bridged = true;
                    for m in models.iter_mut() {
                        *m = None;
                    }
                    sum.reinstalled = true;
                }
                BStep::Clear => {
                    src.clear_bridge_rewrite();
                    bridged = false;
                    sum.cleared = true;
                }
                BStep::Pkt { stream, dseq, dts, pt, marker, ext } => {
                    let s = (*stream as usize).min(n_streams - 1);
                    let ssrc = BSSRCS[s];
                    let (seq, ts) = match cur[s] {
                        None => (c.streams[s].base_seq, c.streams[s].base_ts),
                        Some((q, t)) => (q.wrapping_add(*dseq), t.wrapping_add(*dts)),
                    };
                    if let Some((q, t)) = cur[s] {
                        if *dseq != 1 || *dts > TS_DISCONTINUITY {
                            sum.jump = true;
                        }
                        if seq < q && *dseq < 0x8000 {
                            sum.seq_wrap = true;
                        }
                        if ts < t && *dts < 0x8000_0000 {
                            sum.ts_wrap_src = true;
                        }
                    }
                    cur[s] = Some((seq, ts));
                    if let Some(l) = last_stream {
                        if l != s && used[s] {
                            sum.interleaved = true;
                        }
                    }
                    last_stream = Some(s);
                    used[s] = true;
                    let pt = BPTS[(*pt as usize).min(6)];
                    let payload = [i as u8, (i >> 8) as u8, s as u8, 0xB7, 0x1D, 0x6E];
                    let extb = if *ext { Some(encode_ext(&[(3, vec![0x42, 0x43])], false)) } else { None };
                    let raw = build_rtp(pt, *marker, seq, ts, ssrc, 0, extb, &payload, 0);
                    let before = cap.egress.lock().len();
                    futures::executor::block_on(src.receive(Bytes::from(raw), addr, &mut buf));
                    sum.packets += 1;
                    let outs: Vec<RtpPacket> = cap.egress.lock()[before..].to_vec();
                    if !bridged {
                        let dg = rig.drain(false);
                        crate::ensure!(
                            outs.is_empty() && dg.is_empty(),
                            "bridge-output-after-clear",
                            "step {}: bridge was cleared but the target emitted {} packet(s) / {} datagram(s)",
                            i,
                            outs.len(),
                            dg.len()
                        );
                        continue;
                    }
                    crate::ensure!(
                        outs.len() == 1,
                        "bridge-output-count",
                        "step {}: one source packet (ssrc {:#x} seq {} ts {}) produced {} egress packets on the target",
                        i, ssrc, seq, ts, outs.len()
                    );
                    let out = &outs[0];
                    let dg = rig.drain(true);
                    crate::ensure!(
                        dg.len() == 1,
                        "bridge-datagram-count",
                        "step {}: expected exactly one datagram on the target's peer socket, got {}",
                        i,
                        dg.len()
                    );
                    let w = parse_wire(&dg[0]);
                    let wire_ok = w.as_ref().map_or(false, |w| {
                        w.pt == out.header.payload_type
                            && w.seq == out.header.sequence_number
                            && w.ts == out.header.timestamp
                            && w.ssrc == out.header.ssrc
                            && w.payload == out.payload.as_ref()
                    });
                    crate::ensure!(
                        wire_ok,
                        "bridge-wire-differs-from-observer",
                        "step {}: datagram {:02x?} does not carry the packet the egress observer saw ({:?})",
                        i,
                        dg[0],
                        out.header
                    );
                    let w = w.unwrap();
                    crate::ensure!(
                        w.payload == payload,
                        "bridge-payload-changed",
                        "step {}: forwarded payload {:02x?} != source payload {:02x?}",
                        i,
                        w.payload,
                        payload
                    );

                    // ----- per-source-stream oracle (wire values) -----
                    let rule = rule_for(&rules, pt);
                    if rule.is_none() {
                        sum.unmatched = true;
                    }
                    let want_pt = rule.and_then(|r| r.out_pt).unwrap_or(pt);
                    crate::ensure!(
                        w.pt == want_pt,
                        "bridge-wrong-output-pt",
                        "step {}: source pt {} matched rule {:?}; output pt {} != {}",
                        i, pt, rule, w.pt, want_pt
                    );
                    let rkey = rule.map(|r| r.match_pt).unwrap_or(Some(255));
                    let this_rule_ssrc = rule_ssrc(rule, ssrc);
                    match models[s].as_mut() {
                        None => {
                            crate::ensure!(
                                w.ssrc == this_rule_ssrc,
                                "bridge-wrong-output-ssrc",
                                "step {}: first packet of source {:#x} (pt {}, rule {:?}) left with ssrc {:#x}, the rule says {:#x}",
                                i, ssrc, pt, rule, w.ssrc, this_rule_ssrc
                            );
                            let mut per_rule = BTreeMap::new();
                            per_rule.insert(rkey, w.ssrc);
                            models[s] = Some(StreamModel {
                                out_ssrc: w.ssrc,
                                first_rule_ssrc: this_rule_ssrc,
                                last_out_seq: w.seq,
                                last_out_ts: w.ts,
                                last_src_ts: ts,
                                offset: w.ts.wrapping_sub(ts),
                                per_rule,
                            });
                        }
                        Some(m) => {
                            // one stable output SSRC per source stream; when the stream moves to a
                            // rule with another SSRC both "first rule" and "current rule" are accepted
                            crate::ensure!(
                                w.ssrc == m.first_rule_ssrc || w.ssrc == this_rule_ssrc,
                                "bridge-wrong-output-ssrc",
                                "step {}: source {:#x} pt {} left with ssrc {:#x}; rule says {:#x}, stream started with {:#x}",
                                i, ssrc, pt, w.ssrc, this_rule_ssrc, m.first_rule_ssrc
                            );
                            if this_rule_ssrc != m.first_rule_ssrc {
                                sum.rule_switch = true;
                            }
                            match m.per_rule.get(&rkey) {
                                Some(&os) => crate::ensure!(
                                    os == w.ssrc,
                                    "bridge-output-ssrc-unstable",
                                    "step {}: source {:#x} under rule {:?} previously left as ssrc {:#x}, now ssrc {:#x}",
                                    i, ssrc, rkey, os, w.ssrc
                                ),
                                None => {
                                    m.per_rule.insert(rkey, w.ssrc);
                                }
                            }
                            if this_rule_ssrc == m.first_rule_ssrc {
                                crate::ensure!(
                                    w.ssrc == m.out_ssrc,
                                    "bridge-output-ssrc-unstable",
                                    "step {}: source {:#x} output ssrc changed {:#x} -> {:#x}",
                                    i, ssrc, m.out_ssrc, w.ssrc
                                );
                            }
                            let want_seq = m.last_out_seq.wrapping_add(1);
                            crate::ensure!(
                                w.seq == want_seq,
                                "bridge-seq-not-consecutive",
                                "step {}: source {:#x}: output seq {} after {} (expected {}); source seq {}",
                                i, ssrc, w.seq, m.last_out_seq, want_seq, seq
                            );
                            if w.seq == 0 {
                                sum.seq_wrap = true;
                            }
                            m.last_out_seq = w.seq;
                            let d = ts.wrapping_sub(m.last_src_ts);
                            let off = w.ts.wrapping_sub(ts);
                            if d < 0x8000_0000 {
                                if d > TS_DISCONTINUITY {
                                    // forward source discontinuity: the statement makes no claim
                                    sum.fwd_discontinuity = true;
                                    m.offset = off;
                                } else {
                                    crate::ensure!(
                                        off == m.offset,
                                        "bridge-timestamp-delta-not-preserved",
                                        "step {}: source {:#x}: src ts {} (last forward {} , delta {}), out ts {}: out-src offset {} != {} of the current span",
                                        i, ssrc, ts, m.last_src_ts, d, w.ts, off, m.offset
                                    );
                                }
                                m.last_src_ts = ts;
                            } else {
                                // behind the forward mark (reordered / backward jump): differences kept
                                sum.backward = true;
                                crate::ensure!(
                                    off == m.offset,
                                    "bridge-timestamp-delta-not-preserved",
                                    "step {}: source {:#x}: backward src ts {} (forward mark {}), out ts {}: out-src offset {} != {}",
                                    i, ssrc, ts, m.last_src_ts, w.ts, off, m.offset
                                );
                            }
                            if d <= TS_DISCONTINUITY && w.ts < m.last_out_ts {
                                sum.ts_wrap_out = true;
                            }
                            m.last_out_ts = w.ts;
                        }
                    }
                }
            }
        }
        Ok(())
    })();
    src.clear_bridge_rewrite();
    dst.clear_observers();
    sum.streams_used = used.iter().filter(|u| **u).count();

    rec.set_nontrivial(sum.streams_used >= 2 && sum.interleaved && sum.jump);
    rec.label(format!("bridge:streams={}", sum.streams_used));
    for (flag, name) in [
        (sum.interleaved, "bridge:interleaved"),
        (sum.jump, "bridge:seq-gap-or-ts-jump"),
        (sum.fwd_discontinuity, "bridge:forward-ts-discontinuity"),
        (sum.backward, "bridge:backward-ts"),
        (sum.seq_wrap, "bridge:16-bit-wrap"),
        (sum.ts_wrap_src || sum.ts_wrap_out, "bridge:32-bit-wrap"),
        (sum.rule_switch, "bridge:stream-crosses-rules-with-different-ssrc"),
        (sum.unmatched, "bridge:no-matching-rule"),
        (sum.reinstalled, "bridge:reinstalled"),
        (sum.cleared, "bridge:cleared"),
        (c.legacy, "bridge:legacy-params"),
        (c.strip, "bridge:strip-extensions"),
    ] {
        if flag {
            rec.label(name);
        }
    }
    res
}

fn ts_base() -> impl Strategy<Value = u32> {
    prop_oneof![
        Just(0u32),
        Just(0xFFFF_FF00),
        Just(0xFFFF_FFFF),
        Just(0x7FFF_FF00),
        Just(0x8000_0000),
        any::<u32>(),
    ]
}

fn ts_delta() -> impl Strategy<Value = u32> {
    prop_oneof![
        6 => Just(160u32),
        2 => Just(960u32),
        2 => Just(3000u32),
        1 => Just(0u32),
        1 => Just(90_000u32),
        1 => Just(TS_DISCONTINUITY - 1),
        1 => Just(TS_DISCONTINUITY),
        1 => Just(TS_DISCONTINUITY + 1),
        1 => (TS_DISCONTINUITY + 1)..0x8000_0000u32,
        1 => Just(0x7FFF_FFFFu32),
        1 => Just(0x8000_0000u32),
        1 => Just(0x8000_0001u32),
        2 => Just(0u32.wrapping_sub(160)),
        1 => Just(0u32.wrapping_sub(1)),
        1 => 0x8000_0000u32..=0xFFFF_FFFF,
        1 => 1..TS_DISCONTINUITY,
    ]
}

fn seq_delta() -> impl Strategy<Value = u16> {
    prop_oneof![
        8 => Just(1u16),
        1 => Just(2u16),
        1 => Just(0u16),
        1 => Just(10u16),
        1 => Just(0xFFFFu16),
        1 => any::<u16>(),
    ]
}

fn u16_edge() -> impl Strategy<Value = u16> {
    prop_oneof![Just(0u16), Just(65535u16), Just(65533u16), Just(32767u16), any::<u16>()]
}

fn u32_edge() -> impl Strategy<Value = u32> {
    prop_oneof![
        Just(0u32),
        Just(1u32),
        Just(0xFFFF_FFFF),
        Just(0xFFFF_FF00),
        Just(0x8000_0000),
        Just(900u32),
        any::<u32>(),
    ]
}

fn rule_body() -> impl Strategy<Value = RuleBody> {
    (
        prop::option::weighted(0.5, prop_oneof![Just(111u32), Just(222u32), Just(0xFFFF_FFFFu32), Just(0u32), any::<u32>()]),
        u32_edge(),
        prop::option::weighted(0.6, prop_oneof![Just(0u8), Just(8), Just(96), Just(102), Just(110), Just(127)]),
        prop::option::weighted(0.25, (prop_oneof![4 => 1..15u8, 1 => Just(0u8), 1 => Just(15u8)], 0..7u8)),
    )
        .prop_map(|(fixed, offset, out_pt, mid_stamp)| RuleBody { fixed, offset, out_pt, mid_stamp })
}

fn bstep(n_pt: u8) -> impl Strategy<Value = BStep> {
    prop_oneof![
        60 => (0..4u8, seq_delta(), ts_delta(), 0..n_pt, prop::bool::weighted(0.1), prop::bool::weighted(0.3))
            .prop_map(|(stream, dseq, dts, pt, marker, ext)| BStep::Pkt { stream, dseq, dts, pt, marker, ext }),
        1 => Just(BStep::Reinstall),
        1 => Just(BStep::Clear),
    ]
}

fn bridge_case(max_steps: usize) -> impl Strategy<Value = BridgeCase> {
    (
        prop::option::weighted(0.8, rule_body()),
        prop::sample::subsequence((0..7u8).collect::<Vec<u8>>(), 0..=3),
        prop::collection::vec(rule_body(), 3),
        any::<bool>(),
        prop::bool::weighted(0.15),
        prop::bool::weighted(0.3),
        (
            prop::option::weighted(0.6, u16_edge()),
            prop::option::weighted(0.6, u32_edge()),
            prop::option::weighted(0.25, u32_edge()),
        ),
        prop::collection::vec((u16_edge(), ts_base()).prop_map(|(base_seq, base_ts)| StreamSpec { base_seq, base_ts }), 1..=4),
        // most streams stay on one or two payload types, like real media
        prop_oneof![3 => Just(2u8), 1 => Just(7u8)],
    )
        .prop_flat_map(move |(catch_all, pts, bodies, catch_all_first, legacy, strip, (init_seq, init_ts_off, init_out_ts), streams, n_pt)| {
            let per_pt: Vec<(u8, RuleBody)> = pts.into_iter().zip(bodies.into_iter()).collect();
            prop::collection::vec(bstep(n_pt), 1..=max_steps).prop_map(move |steps| BridgeCase {
                catch_all: catch_all.clone(),
                per_pt: per_pt.clone(),
                catch_all_first,
                legacy,
                strip,
                init_seq,
                init_ts_off,
                init_out_ts,
                streams: streams.clone(),
                steps,
            })
        })
}

// ---------------------------------------------------------------------------

pub fn run(ctx: &mut Ctx) {
    ctx.level = "exploration";
    ctx.rule = "demux: proptest histories = 1-5 listener specs (own SSRCs, RID, MID, payload-type list + single PTs drawn from a shared pool so lists overlap, provisional flag, optionally closed before traffic, rotated registration order) followed by <= 40 (quick) events: packets (SSRC from 12-value pool of registered + stranger values, PT from 8-value pool, RID/MID element absent / any registered or stranger string / non-UTF-8 / empty, one- or two-byte RFC 8285 form, unrelated element, CSRCs, padding) mixed with close, replace (new channel re-registered), late registrations, extension-id reconfiguration (unset / right id / swapped / unrelated) and clear_listeners. Non-trivial = >= 2 listeners whose payload-type registrations overlap and >= 1 packet. bridge: rule table (optional catch-all + 0-3 per-PT rules, fixed SSRC or offset, PT rewrite, MID stamping, strip, legacy params entry) x 1-4 source streams x <= 120 (quick) steps with per-stream sequence deltas (+1, 0, gaps, -1, random) and timestamp deltas (+160.., 0, 899999/900000/900001, large forward, 2^31 boundary, backward, random), bases and initial offsets at 16/32-bit wrap, bridge re-install and clear. Non-trivial = >= 2 streams really interleaved with at least one sequence gap or timestamp jump. Distinct = distinct serialized case (digest).".into();
    ctx.assumptions = vec![
        "cleartext RTP (no SRTP session, srtp_required=false); listener channels are large enough never to be full".into(),
        "RID, MID and explicitly registered SSRC values are unique per listener slot (SDP invariant); a listener that replaces another re-registers the same values and supersedes it".into(),
        "ties accepted: a closed listener's registrations may or may not still count (each one, each packet); RID and MID naming different receivers -> either; an explicitly registered SSRC vs a later RID/MID-learnt binding -> either; a MID that names no receiver -> drop or fall through to SSRC/PT (but never onto a receiver that registered a different MID); unidentified packet -> drop or the sole provisional listener".into(),
        "a usable MID = extension present under the configured id, valid UTF-8, non-empty; non-UTF-8 / empty values are treated as 'no MID'".into(),
        "bridge: a source discontinuity is what RewriteBridge::rewrite_packet documents: a forward jump of more than 900000 ticks measured against the last forward-moving source timestamp; packets behind that mark are reordering and keep the offset. Output SSRC of a stream that moves between rules with different SSRCs may follow the first or the current rule".into(),
        "bridge outputs are read from the target's egress RtpObserver and compared with the datagram on a loopback peer socket (loopback delivery assumed loss-free)".into(),
    ];

    let known: Vec<&'static str> = TAINT_SIGS.iter().copied().filter(|s| ctx.is_known(s)).collect();

    let (n_demux, max_events) = ctx.scale((60_000u32, 40usize), (1_500_000u32, 60usize));
    ctx.sub("demux", n_demux, demux_case(max_events), |c: &DemuxCase, rec: &CaseRec| check_demux(c, rec, &known));

    let rig = Rig::new();
    let (n_bridge, max_steps) = ctx.scale((20_000u32, 120usize), (400_000u32, 200usize));
    ctx.sub("bridge", n_bridge, bridge_case(max_steps), |c: &BridgeCase, rec: &CaseRec| check_bridge(c, rec, &rig));

    ctx.set_extra("demux_finding_signatures_tolerated", json!(known));
}
