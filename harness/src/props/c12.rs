//! C12 — data channel messages keep their boundaries, channel and delivery mode.

use super::sctp_common::*;
use crate::engine::{AsyncCheck, CaseRec, Check, Ctx, Fail};
use crate::net::fault::{Action, Rule, Side};
use crate::net::wire::SClass;
use proptest::prelude::*;
use serde::{Deserialize, Serialize};
use std::collections::{HashMap, HashSet};
use std::sync::Arc;

#[derive(Clone, Debug, Serialize, Deserialize)]
pub struct Case {
    pub w: Workload,
    pub n: NetSpec,
}

fn label_strategy() -> impl Strategy<Value = String> {
    prop_oneof![
        Just(String::new()),
        "[a-z]{1,12}",
        Just("é漢字🙂-label".to_string()),
        Just("x".repeat(255)),
        "[ -~]{1,40}",
    ]
}

fn rel_strategy() -> impl Strategy<Value = Rel> {
    prop_oneof![
        4 => Just(Rel::Reliable),
        1 => Just(Rel::Rexmit(0)),
        1 => Just(Rel::Rexmit(1)),
        1 => Just(Rel::Rexmit(3)),
        1 => (10..200u16).prop_map(Rel::Timed),
    ]
}

fn chans_strategy(max: usize) -> impl Strategy<Value = Vec<ChanSpec>> {
    prop::collection::vec(
        (
            any::<bool>(),
            rel_strategy(),
            prop_oneof![2 => Just(None), 1 => Just(Some(Side::A)), 1 => Just(Some(Side::B))],
            label_strategy(),
            label_strategy(),
            // negotiated channels only: created on a live association (both sides, independent delays)
            prop_oneof![5 => Just(None), 1 => (0..40u16, 0..40u16).prop_map(Some), 1 => (0..3u16, 0..3u16).prop_map(Some)],
        ),
        1..=max,
    )
    .prop_map(|v| {
        // a late channel needs a channel that exists from the start (its Open tells the application the association is up)
        let has_early = |v: &Vec<(bool, Rel, Option<Side>, String, String, Option<(u16, u16)>)>| v.iter().any(|c| c.5.is_none() || c.2.is_some());
        let all_late = !has_early(&v);
        v.into_iter()
            .enumerate()
            .map(|(i, (ordered, rel, inband_by, label, protocol, late))| {
                let late_ms = if inband_by.is_some() || (all_late && i == 0) { None } else { late };
                // ids: negotiated >= 100; in-band: even for A, odd for B (as the PeerConnection layer does by DTLS role)
                let id = match inband_by {
                    None => 100 + i as u16,
                    Some(Side::A) => 2 * i as u16,
                    Some(Side::B) => 2 * i as u16 + 1,
                };
                ChanSpec {
                    id,
                    ordered,
                    rel,
                    inband_by,
                    label,
                    protocol,
                    late_ms,
                }
            })
            .collect()
    })
}

fn big_size() -> impl Strategy<Value = u32> {
    prop_oneof![
        8 => size_strategy(4096),
        1 => Just(65536u32),
        1 => 20_000..70_000u32,
    ]
}

fn workload_strategy(max_ch: usize, max_msgs: usize, huge: bool) -> impl Strategy<Value = Workload> {
    chans_strategy(max_ch).prop_flat_map(move |chans| {
        let nch = chans.len();
        let size = if huge {
            prop_oneof![6 => big_size(), 1 => Just(262_144u32)].boxed()
        } else {
            big_size().boxed()
        };
        let op = (
            side_strategy(),
            0..nch,
            0..4u8,
            size,
            prop_oneof![5 => Just(0u16), 2 => 1..8u16, 1 => 8..40u16],
        )
            .prop_map(|(side, chan, task, size, gap_ms)| SendOp {
                side,
                chan,
                task,
                size,
                gap_ms,
            });
        prop::collection::vec(op, 1..=max_msgs).prop_map(move |sends| Workload {
            chans: chans.clone(),
            sends,
        })
    })
}

fn net_strategy() -> impl Strategy<Value = NetSpec> {
    (
        prop::collection::vec(setup_rule(), 0..3),
        prop::collection::vec(data_rule(12), 0..7),
        prop::bool::weighted(0.4),
        tsn_strategy(),
        tsn_strategy(),
    )
        .prop_map(|(setup, data, use_setup, tsn_a, tsn_b)| {
            let mut rules = if use_setup { setup } else { vec![] };
            rules.extend(data);
            NetSpec {
                rules,
                tsn_a,
                tsn_b,
                ..NetSpec::default_fast()
            }
        })
}

fn case_strategy(max_ch: usize, max_msgs: usize, huge: bool) -> impl Strategy<Value = Case> {
    (workload_strategy(max_ch, max_msgs, huge), net_strategy()).prop_map(|(w, n)| Case { w, n })
}

fn rel_name(r: Rel) -> &'static str {
    match r {
        Rel::Reliable => "reliable",
        Rel::Rexmit(_) => "rexmit",
        Rel::Timed(_) => "timed",
    }
}

pub fn judge(c: &Case, r: &RunResult, rec: &CaseRec) -> Check {
    let (setup_f, data_f) = fired_classes(&c.n, &r.rules_fired);
    let multi = c.w.chans.len() >= 2
        || {
            let mut t = HashSet::new();
            for s in &c.w.sends {
                t.insert((s.side, s.task));
            }
            t.len() >= 2
        }
        || c.w.sends.iter().any(|s| s.size > 1172);
    rec.set_nontrivial(multi && (setup_f || data_f));
    for ch in &c.w.chans {
        rec.label(format!(
            "chan:{}-{}-{}",
            rel_name(ch.rel),
            if ch.ordered { "ordered" } else { "unordered" },
            if ch.inband_by.is_some() { "inband" } else if ch.late_ms.is_some() { "negotiated-late" } else { "negotiated" }
        ));
    }
    for (rule, f) in c.n.rules.iter().zip(&r.rules_fired) {
        if *f {
            rec.label(format!("fired:{:?}", rule.class));
        }
    }
    if !r.dtls_connected {
        return Err(Fail::new("harness-dtls-not-connected", "DTLS did not connect on a fault-free datagram path"));
    }
    let closed = r.close_reason.iter().any(|c| c.is_some());

    for (ci, ch) in c.w.chans.iter().enumerate() {
        for recv_side in [Side::A, Side::B] {
            let send_side = recv_side.other();
            let ops: Vec<usize> = c
                .w
                .sends
                .iter()
                .enumerate()
                .filter(|(_, s)| s.side == send_side && s.chan == ci)
                .map(|(i, _)| i)
                .collect();
            let evs: Vec<&ChanEvent> = r
                .events
                .iter()
                .filter(|e| e.side == recv_side && e.chan_id == ch.id)
                .collect();
            // --- events: Open exactly once before the first message, Close at most once
            let opens = evs.iter().filter(|e| matches!(e.kind, EvKind::Open)).count();
            let closes = evs.iter().filter(|e| matches!(e.kind, EvKind::Close)).count();
            let first_msg = evs.iter().position(|e| matches!(e.kind, EvKind::Msg(_)));
            let first_open = evs.iter().position(|e| matches!(e.kind, EvKind::Open));
            if opens > 1 {
                return Err(Fail::new(
                    format!("open-announced-{}-times:{}", opens.min(9), if ch.inband_by.is_some() { "inband" } else { "negotiated" }),
                    format!("channel {} at {:?} announced Open {} times; trace: {}", ch.id, recv_side, opens, describe_trace(&r.trace, 30)),
                ));
            }
            if closes > 1 {
                return Err(Fail::new("close-announced-twice", format!("channel {} at {:?} announced Close {} times", ch.id, recv_side, closes)));
            }
            if let Some(m) = first_msg {
                match first_open {
                    Some(o) if o < m => {}
                    _ => {
                        return Err(Fail::new(
                            "message-before-open",
                            format!("channel {} at {:?}: a message was delivered before Open was announced", ch.id, recv_side),
                        ));
                    }
                }
            }
            // --- identity: each delivered message equals exactly one submitted message of this channel
            let mut want: HashMap<Vec<u8>, Vec<usize>> = HashMap::new();
            for &op in &ops {
                want.entry(msg_bytes(uid_of(op), c.w.sends[op].size)).or_default().push(op);
            }
            let mut delivered_ops: Vec<usize> = Vec::new();
            for (k, e) in evs.iter().enumerate() {
                let EvKind::Msg(b) = &e.kind else { continue };
                match want.get_mut(b.as_ref()) {
                    Some(list) if !list.is_empty() => {
                        let op = list.remove(0);
                        delivered_ops.push(op);
                    }
                    Some(_) => {
                        return Err(Fail::new(
                            format!("duplicate-delivery:{}", rel_name(ch.rel)),
                            format!("channel {} ({:?}) at {:?}: event #{k} delivers a message ({} bytes) more often than it was submitted; trace: {}", ch.id, ch.rel, recv_side, b.len(), describe_trace(&r.trace, 40)),
                        ));
                    }
                    None => {
                        // does it belong to another channel, or is it a merge/split of submitted ones?
                        let other = c.w.sends.iter().enumerate().find(|(i, s)| msg_bytes(uid_of(*i), s.size).as_slice() == b.as_ref());
                        let sig = if other.is_some() { "delivered-on-wrong-channel" } else { "merged-split-or-fabricated" };
                        return Err(Fail::new(
                            format!("{}:{}", sig, rel_name(ch.rel)),
                            format!(
                                "channel {} ({:?}, ordered={}) at {:?}: event #{k} delivers {} bytes (head {:02x?}) equal to no submitted message of this channel; trace: {}",
                                ch.id, ch.rel, ch.ordered, recv_side, b.len(), &b[..b.len().min(12)], describe_trace(&r.trace, 40)
                            ),
                        ));
                    }
                }
            }
            // --- order on ordered channels: per sender task, delivered subsequence follows submission order
            if ch.ordered {
                let mut last: HashMap<u8, usize> = HashMap::new();
                // messages shorter than 4 bytes cannot carry their uid: several ops may have identical
                // content, the multiset labelling above is then arbitrary, so they are left out of
                // the order clause (single-sender channels are checked by content just below)
                for &op in delivered_ops.iter().filter(|op| c.w.sends[**op].size >= 4) {
                    let t = c.w.sends[op].task;
                    if let Some(prev) = last.get(&t) {
                        if op < *prev {
                            return Err(Fail::new(
                                format!("ordered-channel-reordered:{}", rel_name(ch.rel)),
                                format!("channel {} at {:?}: op {} of sender task {} delivered after op {}", ch.id, recv_side, op, t, prev),
                            ));
                        }
                    }
                    last.insert(t, op);
                }
            }
            // --- single sender task on an ordered channel: delivered contents follow the submitted sequence
            let tasks: HashSet<u8> = ops.iter().map(|op| c.w.sends[*op].task).collect();
            if ch.ordered && tasks.len() == 1 {
                let mut p = 0usize;
                for e in evs.iter() {
                    let EvKind::Msg(b) = &e.kind else { continue };
                    let mut q = p;
                    while q < ops.len() && msg_bytes(uid_of(ops[q]), c.w.sends[ops[q]].size).as_slice() != b.as_ref() {
                        q += 1;
                    }
                    if q >= ops.len() {
                        return Err(Fail::new(
                            format!("ordered-channel-reordered:{}", rel_name(ch.rel)),
                            format!("channel {} at {:?} (single sender): a delivered message ({} bytes) precedes one submitted before it", ch.id, recv_side, b.len()),
                        ));
                    }
                    if ch.rel == Rel::Reliable && q != p {
                        // skipping is only legitimate for ops whose send_data returned Err
                        let skipped_ok = (p..q).all(|k| r.submits.iter().any(|s| s.op == ops[k] && !s.ok));
                        if !skipped_ok {
                            return Err(Fail::new(
                                "reliable-ordered-gap",
                                format!("channel {} at {:?}: message #{} delivered while #{} was skipped", ch.id, recv_side, q, p),
                            ));
                        }
                    }
                    p = q + 1;
                }
            }
            // --- reliable channels: everything arrives unless a closure was reported
            if ch.rel == Rel::Reliable && !closed {
                let accepted: usize = ops.iter().filter(|op| r.submits.iter().any(|s| s.op == **op && s.ok)).count();
                if !r.senders_done || delivered_ops.len() < accepted {
                    let mut stuck_in_call = false;
                    let mut waiting_open = false;
                    let unsent: Vec<String> = c
                        .w
                        .sends
                        .iter()
                        .enumerate()
                        .filter(|(i, _)| !r.submits.iter().any(|s| s.op == *i))
                        .map(|(i, s)| {
                            let id = c.w.chans[s.chan].id;
                            let open = r.events.iter().any(|e| e.side == s.side && e.chan_id == id && matches!(e.kind, EvKind::Open));
                            let in_call = r.issued.contains(&i);
                            stuck_in_call |= in_call;
                            waiting_open |= !open;
                            format!("op{}:{:?}/ch{}/task{}/{}B/open={}/in_call={}", i, s.side, id, s.task, s.size, open, in_call)
                        })
                        .take(12)
                        .collect();
                    let sig = if stuck_in_call {
                        "send-call-never-returned"
                    } else if !r.senders_done && waiting_open {
                        "channel-never-announced-open"
                    } else {
                        "reliable-channel-incomplete"
                    };
                    if quiescent_stall(r, std::time::Duration::from_secs(5)) {
                        return Err(Fail::stall(
                            format!("{}:quiescent", sig),
                            format!(
                                "channel {} at {:?}: {}/{} accepted messages delivered, senders_done={}, no closure reported and the association silent (heartbeats only) for {:.1}s; not yet returned/issued: {:?}; A: {} | B: {}; trace: {}",
                                ch.id, recv_side, delivered_ops.len(), accepted, r.senders_done,
                                r.end_us.saturating_sub(last_activity_us(&r.trace)) as f64 / 1e6,
                                unsent, r.diag[0], r.diag[1], describe_trace_tail(&r.trace, 24)
                            ),
                        ));
                    }
                    return Err(Fail::timing(
                        sig,
                        format!(
                            "channel {} at {:?}: {}/{} accepted messages delivered, senders_done={}, no closure reported; not yet returned/issued: {:?}; A: {} | B: {}; trace: {}",
                            ch.id, recv_side, delivered_ops.len(), accepted, r.senders_done, unsent, r.diag[0], r.diag[1], describe_trace(&r.trace, 40)
                        ),
                    ));
                }
            }
        }
        // --- in-band channels appear at the peer with the parameters they were created with
        if let Some(opener) = ch.inband_by {
            let peer = opener.other();
            let seen: Vec<&InbandSeen> = r.inband.iter().filter(|s| s.side == peer && s.id == ch.id).collect();
            if seen.len() > 1 {
                return Err(Fail::new("inband-channel-announced-twice", format!("channel {} surfaced {} times at {:?}", ch.id, seen.len(), peer)));
            }
            if let Some(s) = seen.first() {
                let want_rex = match ch.rel {
                    Rel::Rexmit(n) => Some(n),
                    _ => None,
                };
                let want_time = match ch.rel {
                    Rel::Timed(n) => Some(n),
                    _ => None,
                };
                if s.label != ch.label || s.protocol != ch.protocol || s.ordered != ch.ordered || s.max_retransmits != want_rex || s.max_packet_life_time != want_time {
                    return Err(Fail::new(
                        "inband-parameters-differ",
                        format!("channel {} created as {:?} surfaced at the peer as {:?}", ch.id, ch, s),
                    ));
                }
            } else if !closed && r.complete && r.senders_done {
                // the opener announced Open only after the peer's ACK, so the peer must have created it
                let opener_open = r.events.iter().any(|e| e.side == opener && e.chan_id == ch.id && matches!(e.kind, EvKind::Open));
                if opener_open {
                    return Err(Fail::new("inband-channel-never-surfaced", format!("channel {} is Open at its creator but never surfaced at the peer", ch.id)));
                }
            }
        }
    }
    if closed {
        rec.label("association-closed");
    }
    Ok(())
}

fn checker(limits: fn() -> Limits) -> AsyncCheck<Case> {
    Arc::new(move |c: Case| {
        Box::pin(async move {
            let rec = CaseRec::default();
            let mut c = c;
            if std::env::var("VERIF_C12_FORCE_WRAP").is_ok() {
                // developer aid: put both initial TSNs shortly before the 2^32 wrap
                let k = (c.w.sends.len() as u32 % 60) + 1;
                c.n.tsn_a = Some(0u32.wrapping_sub(k));
                c.n.tsn_b = Some(0u32.wrapping_sub(61 - k.min(60)));
            }
            let res = match run_case(&c.w, &c.n, &limits()).await {
                Ok(r) => judge(&c, &r, &rec),
                Err(e) => Err(Fail::new("harness-error", format!("rig failed: {e}"))),
            };
            (rec, res)
        })
    })
}

fn quick_limits() -> Limits {
    Limits {
        complete_within: std::time::Duration::from_secs(12),
        settle: std::time::Duration::from_millis(150),
        hard_cap: std::time::Duration::from_secs(45),
    }
}

fn wrap_limits() -> Limits {
    Limits {
        complete_within: std::time::Duration::from_secs(60),
        settle: std::time::Duration::from_millis(200),
        hard_cap: std::time::Duration::from_secs(240),
    }
}

/// 66 000 one-byte-ish messages on one ordered reliable channel: the stream sequence number wraps.
fn ssn_wrap_case(rel: Rel, ordered: bool, tsn: Option<u32>) -> Case {
    let sends = (0..66_000u32)
        .map(|i| SendOp {
            side: Side::A,
            chan: 0,
            task: 0,
            size: 8 + (i % 3),
            gap_ms: 0,
        })
        .collect();
    Case {
        w: Workload {
            chans: vec![ChanSpec {
                id: 100,
                ordered,
                rel,
                inband_by: None,
                label: "wrap".into(),
                protocol: String::new(),
                late_ms: None,
            }],
            sends,
        },
        n: NetSpec {
            rules: vec![
                Rule { from: Side::A, class: SClass::Data, ordinal: 3, action: Action::Drop },
                Rule { from: Side::B, class: SClass::Sack, ordinal: 7, action: Action::Drop },
            ],
            tsn_a: tsn,
            ..NetSpec::default_fast()
        },
    }
}

pub fn run(ctx: &mut Ctx) {
    ctx.level = "exploration";
    ctx.rule = "proptest-generated (channels, sender tasks, messages, fault plan) run on two real IceConn+DTLS+SCTP endpoints: 1-16 channels over {reliable, maxRetransmits 0/1/3, maxPacketLifeTime 10-200 ms} x {ordered, unordered} x {negotiated, in-band DCEP with generated label/protocol incl. empty, 255-byte and multi-byte UTF-8}, up to 4 sender tasks per side, sizes 0..256 KiB, C01 fault plans incl. faults on setup chunks, DCEP and FORWARD-TSN; plus SSN-wraparound runs (66 000 messages on one channel). Non-trivial = (>= 2 channels or >= 2 sender tasks or a fragmenting message) and >= 1 fault fired; distinct by case digest.".into();
    ctx.assumptions = vec![
        "faults applied to SCTP packets between DTLS decryption and SCTP input; datagram path loss-free".into(),
        "applications send only after the channel announced Open; across concurrent sender tasks no order is defined, so none is demanded".into(),
        "message identity by content (uid + size + keyed stream); messages shorter than 8 bytes are matched as a multiset".into(),
        "reliable-delivery clause is time-bounded (12 s quick / 30 s thorough after last fault/submit) and subject to the 3x solo re-run rule".into(),
    ];
    let rt = tokio::runtime::Builder::new_multi_thread().worker_threads(16).enable_all().build().unwrap();
    let limits: fn() -> Limits = if ctx.thorough() { Limits::default } else { quick_limits };

    let n = ctx.scale(2400usize, 30_000usize);
    ctx.sub_async(&rt, "channels-and-faults", n, 48, case_strategy(6, 30, false), checker(limits));
    let n2 = ctx.scale(200usize, 2000usize);
    ctx.sub_async(&rt, "many-channels-large-messages", n2, 12, case_strategy(16, 60, true), checker(limits));

    // SSN wraparound (fixed workloads; enumerated over channel types in thorough)
    let wraps: Vec<Case> = if ctx.thorough() {
        vec![
            ssn_wrap_case(Rel::Reliable, true, None),
            ssn_wrap_case(Rel::Reliable, true, Some(0u32.wrapping_sub(30_000))),
            ssn_wrap_case(Rel::Reliable, false, None),
            ssn_wrap_case(Rel::Rexmit(3), true, None),
            ssn_wrap_case(Rel::Timed(200), true, None),
        ]
    } else {
        vec![ssn_wrap_case(Rel::Reliable, true, Some(0u32.wrapping_sub(30_000)))]
    };
    if !ctx.is_replay() {
        let chk = checker(wrap_limits);
        for c in wraps {
            let (rec, res) = rt.block_on(chk(c.clone()));
            rec.label("ssn-wrap-run");
            // keep the replay small: the case is identified by its parameters
            let v = serde_json::json!({"ssn_wrap": {"rel": c.w.chans[0].rel, "ordered": c.w.chans[0].ordered, "tsn_a": c.n.tsn_a, "messages": c.w.sends.len()}});
            if let Err(f) = ctx.record("ssn-wrap", &v, &rec, &res) {
                ctx.violation("ssn-wrap", &v, &f);
            }
        }
    } else if let Some(v) = ctx.replay_case::<serde_json::Value>("ssn-wrap") {
        let p = &v["ssn_wrap"];
        let rel: Rel = serde_json::from_value(p["rel"].clone()).unwrap_or(Rel::Reliable);
        let c = ssn_wrap_case(rel, p["ordered"].as_bool().unwrap_or(true), p["tsn_a"].as_u64().map(|x| x as u32));
        let (rec, res) = rt.block_on(checker(wrap_limits)(c));
        match ctx.record("ssn-wrap", &v, &rec, &res) {
            Ok(()) => println!("replay: property=C12 sub=ssn-wrap PASS"),
            Err(f) => ctx.violation("ssn-wrap", &v, &f),
        }
    }
    rt.shutdown_timeout(std::time::Duration::from_secs(2));
    super::c12_pc::run_subs(ctx);
}
