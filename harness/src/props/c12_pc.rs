//! C12 at the PeerConnection level — sub-check `pc-channels`.
//!
//! Two real `PeerConnection`s (WebRtc mode, default configuration, loopback) are connected in-process. A generated
//! history of channel creations (`create_data_channel` in-band / negotiated, from either side, before / after the
//! connection is up) is executed, then every channel carries messages in both directions through
//! `PeerConnection::send_data` / `send_text`. Checked: in-band channels surface at the peer exactly once with the
//! parameters they were created with, stream ids are unique per PeerConnection, every message arrives exactly once on
//! the corresponding peer object and on no other, Open exactly once before the first Message.

use crate::engine::{AsyncCheck, CaseRec, Check, Ctx, Fail};
use parking_lot::Mutex;
use proptest::prelude::*;
use rustrtc::transports::sctp::{DataChannel, DataChannelConfig};
use rustrtc::{DataChannelEvent, PeerConnection, PeerConnectionEvent, RtcConfiguration, TransportMode};
use serde::{Deserialize, Serialize};
use std::collections::BTreeMap;
use std::sync::Arc;
use std::sync::atomic::{AtomicU64, Ordering};
use std::time::Duration;

pub const SUB: &str = "pc-channels";
/// create_data_channel(negotiated: Some(id)) succeeds although a live channel of the same PeerConnection holds `id`
pub const SIG_NEG_LIVE: &str = "pc-negotiated-id-in-use-accepted";
/// in-band channels created by the answerer before the DTLS role is known take ids of the offerer's parity
/// a negotiated channel created after the association is established stays Connecting until the peer sends on it
pub const SIG_NEG_LATE: &str = "pc-negotiated-after-connect-never-announces-open";
/// DCEP OPEN of an in-band channel created right after Connected stays in the send queue (nothing in flight, no retransmission)
pub const SIG_OPEN_STUCK: &str = "pc-inband-open-stuck-in-send-queue";
pub const SIG_PRE_ROLE: &str = "pc-inband-before-role-same-id-both-sides";

const STEP: Duration = Duration::from_secs(8);
const CONNECT: Duration = Duration::from_secs(12);
const ANNOUNCE: Duration = Duration::from_secs(4);
const DELIVER: Duration = Duration::from_secs(10);
const BOOT_ID: u16 = 1023;

#[derive(Clone, Copy, Debug, Serialize, Deserialize, PartialEq, Eq)]
pub enum Kind {
    InBand,
    Negotiated(u16),
}

#[derive(Clone, Copy, Debug, Serialize, Deserialize, PartialEq, Eq)]
pub enum Rel {
    Reliable,
    Rexmit(u16),
    Timed(u16),
}

#[derive(Clone, Debug, Serialize, Deserialize)]
pub struct Op {
    /// 0 = A (offerer), 1 = B (answerer): the side that calls create_data_channel first
    pub side: u8,
    pub kind: Kind,
    pub label: String,
    pub protocol: String,
    pub ordered: bool,
    pub rel: Rel,
    /// created before the offer/answer exchange
    pub before: bool,
    /// message sizes creator -> peer and peer -> creator
    pub fwd: Vec<u32>,
    pub back: Vec<u32>,
}

#[derive(Clone, Debug, Serialize, Deserialize)]
pub struct Case {
    pub ops: Vec<Op>,
}

fn size_strategy() -> impl Strategy<Value = u32> {
    prop_oneof![
        2 => Just(0u32),
        2 => Just(1u32),
        2 => Just(1172u32),
        2 => Just(1173u32),
        2 => Just(2344u32),
        1 => Just(5000u32),
        4 => 2..200u32,
        1 => 1100..1300u32,
    ]
}

fn label_strategy() -> impl Strategy<Value = String> {
    prop_oneof![
        1 => Just(String::new()),
        4 => "[a-z]{1,6}",
        1 => "[a-zé\\-]{1,8}",
    ]
}

fn rel_strategy() -> impl Strategy<Value = Rel> {
    prop_oneof![
        4 => Just(Rel::Reliable),
        2 => (0..=2u16).prop_map(Rel::Rexmit),
        2 => prop_oneof![Just(50u16), Just(500u16), 100..3000u16].prop_map(Rel::Timed),
    ]
}

fn op_strategy() -> impl Strategy<Value = Op> {
    (
        0..2u8,
        prop_oneof![
            5 => Just(Kind::InBand),
            3 => (0..4u16).prop_map(Kind::Negotiated),
            2 => (0..12u16).prop_map(Kind::Negotiated),
        ],
        label_strategy(),
        prop_oneof![2 => Just(String::new()), 2 => "[a-z]{1,5}"],
        any::<bool>(),
        rel_strategy(),
        any::<bool>(),
        prop::collection::vec(size_strategy(), 1..=3),
        prop::collection::vec(size_strategy(), 1..=3),
    )
        .prop_map(|(side, kind, label, protocol, ordered, rel, before, fwd, back)| Op {
            side,
            kind,
            label,
            protocol,
            ordered,
            rel,
            before,
            fwd,
            back,
        })
}

/// 2..10 creations; by construction the first two are one negotiated and one in-band creation started by the same
/// side (either order), so that every case mixes both kinds on one PeerConnection.
pub fn case_strategy() -> impl Strategy<Value = Case> {
    (prop::collection::vec(op_strategy(), 2..=10), any::<bool>(), 0..12u16, 0..3u8).prop_map(|(mut ops, neg_first, id, when)| {
        let (n, i) = if neg_first { (0, 1) } else { (1, 0) };
        if !matches!(ops[n].kind, Kind::Negotiated(_)) {
            ops[n].kind = Kind::Negotiated(id % 4);
        }
        ops[i].kind = Kind::InBand;
        ops[1].side = ops[0].side;
        // both in the same phase (2 of 3) or as drawn
        match when {
            0 => ops[1].before = ops[0].before,
            1 => {
                ops[0].before = false;
                ops[1].before = false;
            }
            _ => {}
        }
        Case { ops }
    })
}

// ---------------------------------------------------------------------------------------------------------------

#[derive(Clone, Debug)]
enum Ev {
    Open,
    Msg(Vec<u8>),
    Close,
}

struct Obj {
    dc: Arc<DataChannel>,
    evs: Arc<Mutex<Vec<Ev>>>,
    task: tokio::task::JoinHandle<()>,
}

impl Obj {
    fn new(dc: Arc<DataChannel>) -> Arc<Obj> {
        let evs = Arc::new(Mutex::new(Vec::new()));
        let (d, e) = (dc.clone(), evs.clone());
        let task = tokio::spawn(async move {
            while let Some(ev) = d.recv().await {
                let ev = match ev {
                    DataChannelEvent::Open => Ev::Open,
                    DataChannelEvent::Message(b) => Ev::Msg(b.to_vec()),
                    DataChannelEvent::Close => Ev::Close,
                };
                e.lock().push(ev);
            }
        });
        Arc::new(Obj { dc, evs, task })
    }
    fn opens(&self) -> usize {
        self.evs.lock().iter().filter(|e| matches!(e, Ev::Open)).count()
    }
    fn msgs(&self) -> Vec<Vec<u8>> {
        self.evs.lock().iter().filter_map(|e| if let Ev::Msg(m) = e { Some(m.clone()) } else { None }).collect()
    }
}

struct End {
    pc: PeerConnection,
    /// objects announced through PeerConnectionEvent::DataChannel, in arrival order
    announced: Arc<Mutex<Vec<Arc<Obj>>>>,
    /// every channel object of this PeerConnection the harness holds (created here or announced), kept alive
    created: Vec<Arc<Obj>>,
    listener: tokio::task::JoinHandle<()>,
}

impl End {
    fn new() -> End {
        let mut c = RtcConfiguration::default();
        c.transport_mode = TransportMode::WebRtc;
        c.bind_ip = Some("127.0.0.1".to_string());
        let pc = PeerConnection::new(c);
        let announced: Arc<Mutex<Vec<Arc<Obj>>>> = Arc::new(Mutex::new(Vec::new()));
        let (p, a) = (pc.clone(), announced.clone());
        let listener = tokio::spawn(async move {
            while let Some(ev) = p.recv().await {
                if let PeerConnectionEvent::DataChannel(dc) = ev {
                    let o = Obj::new(dc);
                    a.lock().push(o);
                }
            }
        });
        End { pc, announced, created: Vec::new(), listener }
    }
    fn live_ids(&self) -> Vec<(u16, bool)> {
        let mut v: Vec<(u16, bool)> = self.created.iter().map(|o| (o.dc.id, o.dc.negotiated)).collect();
        v.extend(self.announced.lock().iter().map(|o| (o.dc.id, o.dc.negotiated)));
        v
    }
    fn has_id(&self, id: u16) -> bool {
        self.live_ids().iter().any(|(i, _)| *i == id)
    }
}

struct Rig {
    ends: [End; 2],
}

impl Drop for Rig {
    fn drop(&mut self) {
        for e in &self.ends {
            e.pc.close();
            e.listener.abort();
            for o in e.created.iter() {
                o.task.abort();
            }
            for o in e.announced.lock().iter() {
                o.task.abort();
            }
        }
    }
}

/// one logical channel of the case
struct Chan {
    op: usize,
    creator: usize,
    inband: bool,
    /// objects at [A, B]; None = not (yet) there / creation refused
    objs: [Option<Arc<Obj>>; 2],
    /// nothing is expected on it (creation refused or steered away)
    dead: bool,
}

async fn step<T, E: std::fmt::Display>(name: &str, fut: impl std::future::Future<Output = Result<T, E>>) -> Result<T, Fail> {
    match tokio::time::timeout(STEP, fut).await {
        Ok(Ok(v)) => Ok(v),
        Ok(Err(e)) => Err(Fail::new(format!("pc-setup:{name}-error"), format!("{name} returned an error: {e}"))),
        Err(_) => Err(Fail::timing(format!("pc-setup:{name}-timeout"), format!("{name} did not return within {STEP:?}"))),
    }
}

async fn connect(a: &PeerConnection, b: &PeerConnection) -> Check {
    let _ = step("create_offer", a.create_offer()).await?;
    step("offerer-gathering", async {
        a.wait_for_gathering_complete().await;
        Ok::<_, String>(())
    })
    .await?;
    let offer = step("create_offer", a.create_offer()).await?;
    a.set_local_description(offer.clone()).map_err(|e| Fail::new("pc-setup:set_local_offer-error", format!("{e}")))?;
    step("set_remote_offer", b.set_remote_description(offer)).await?;
    let _ = step("create_answer", b.create_answer()).await?;
    step("answerer-gathering", async {
        b.wait_for_gathering_complete().await;
        Ok::<_, String>(())
    })
    .await?;
    let answer = step("create_answer", b.create_answer()).await?;
    b.set_local_description(answer.clone()).map_err(|e| Fail::new("pc-setup:set_local_answer-error", format!("{e}")))?;
    step("set_remote_answer", a.set_remote_description(answer)).await?;
    let (ra, rb) = tokio::join!(tokio::time::timeout(CONNECT, a.wait_for_connected()), tokio::time::timeout(CONNECT, b.wait_for_connected()));
    for (n, r) in [("A", ra), ("B", rb)] {
        match r {
            Ok(Ok(())) => {}
            Ok(Err(e)) => return Err(Fail::new("pc-setup:connect-error", format!("{n}: wait_for_connected: {e}"))),
            Err(_) => return Err(Fail::timing("pc-setup:connect-timeout", format!("{n} did not report Connected within {CONNECT:?}"))),
        }
    }
    Ok(())
}

fn cfg_of(op: &Op) -> DataChannelConfig {
    DataChannelConfig {
        protocol: op.protocol.clone(),
        ordered: op.ordered,
        max_retransmits: if let Rel::Rexmit(n) = op.rel { Some(n) } else { None },
        max_packet_life_time: if let Rel::Timed(n) = op.rel { Some(n) } else { None },
        negotiated: if let Kind::Negotiated(id) = op.kind { Some(id) } else { None },
        ..Default::default()
    }
}

/// distinct content identifying channel, direction and index; ASCII so that send_text can carry it
fn payload(chan: usize, dir: usize, idx: usize, size: u32) -> Vec<u8> {
    let head = format!("<{chan}.{dir}.{idx}>");
    let mut v = Vec::with_capacity(size as usize);
    let mut x: u32 = (chan as u32 * 7919 + dir as u32 * 104729 + idx as u32 * 1299709) | 1;
    for i in 0..size as usize {
        if i < head.len() {
            v.push(head.as_bytes()[i]);
        } else {
            x = x.wrapping_mul(1664525).wrapping_add(1013904223);
            v.push(b'a' + ((x >> 24) % 26) as u8);
        }
    }
    if size == 1 {
        v[0] = b'A' + ((chan * 6 + dir * 3 + idx) % 26) as u8;
    }
    v
}

fn side_name(s: usize) -> &'static str {
    if s == 0 { "A" } else { "B" }
}

fn describe(dc: &DataChannel) -> String {
    format!(
        "id={} label={:?} protocol={:?} ordered={} max_retransmits={:?} max_packet_life_time={:?} negotiated={}",
        dc.id, dc.label, dc.protocol, dc.ordered, dc.max_retransmits, dc.max_packet_life_time, dc.negotiated
    )
}

/// oracle (b): no two live channel objects of one PeerConnection share a stream id
fn unique_ids(end: &End, side: usize, after: &str) -> Check {
    let mut seen: BTreeMap<u16, usize> = BTreeMap::new();
    for (id, _) in end.live_ids() {
        *seen.entry(id).or_default() += 1;
    }
    if let Some((id, n)) = seen.iter().find(|(_, n)| **n > 1) {
        let all: Vec<String> =
            end.created.iter().map(|o| describe(&o.dc)).chain(end.announced.lock().iter().map(|o| format!("announced {}", describe(&o.dc)))).collect();
        return Err(Fail::new(
            "pc-duplicate-stream-id",
            format!("{n} live channels of PeerConnection {} share stream id {id} after {after}; channels: {all:?}", side_name(side)),
        ));
    }
    Ok(())
}

async fn wait_announced(end: &End, id: u16, skip: usize) -> Option<Arc<Obj>> {
    let t0 = tokio::time::Instant::now();
    loop {
        if let Some(o) = end.announced.lock().iter().skip(skip).find(|o| o.dc.id == id) {
            return Some(o.clone());
        }
        if t0.elapsed() > ANNOUNCE {
            return None;
        }
        tokio::time::sleep(Duration::from_millis(2)).await;
    }
}

fn check_params(op: &Op, ix: usize, creator: &DataChannel, got: &DataChannel) -> Check {
    let want_rex = if let Rel::Rexmit(n) = op.rel { Some(n) } else { None };
    let want_life = if let Rel::Timed(n) = op.rel { Some(n) } else { None };
    if got.label != op.label || got.protocol != op.protocol || got.ordered != op.ordered || got.max_retransmits != want_rex || got.max_packet_life_time != want_life {
        return Err(Fail::new(
            "pc-inband-params-mismatch",
            format!("in-band channel of op {ix} created as [{}] was announced at the peer as [{}]", describe(creator), describe(got)),
        ));
    }
    Ok(())
}

pub struct Shared {
    pub steer_neg_live: bool,
    pub steer_pre_role: bool,
    pub steer_neg_late: bool,
    pub steered_neg_late: AtomicU64,
    pub steered_neg_live: AtomicU64,
    pub steered_pre_role: AtomicU64,
}

async fn run_case(case: Case, rec: &CaseRec, sh: &Shared) -> Check {
    let mut ops = case.ops.clone();
    // classes of the generated history (per PeerConnection: a negotiated creation happens on both)
    {
        let mut neg_then_in = false;
        let mut in_then_neg = false;
        for s in 0..2u8 {
            let mut seen_neg = false;
            let mut seen_in = false;
            for phase in [true, false] {
                for o in ops.iter().filter(|o| o.before == phase) {
                    match o.kind {
                        Kind::Negotiated(id) if id != BOOT_ID => {
                            if seen_in {
                                in_then_neg = true;
                            }
                            seen_neg = true;
                        }
                        Kind::InBand if o.side == s => {
                            if seen_neg {
                                neg_then_in = true;
                            }
                            seen_in = true;
                        }
                        _ => {}
                    }
                }
            }
        }
        if neg_then_in {
            rec.label("order:negotiated-then-inband-same-pc");
        }
        if in_then_neg {
            rec.label("order:inband-then-negotiated-same-pc");
        }
        let nb = case.ops.iter().filter(|o| o.before).count();
        rec.label(if nb == 0 {
            "when:all-after-connect"
        } else if nb == case.ops.len() {
            "when:all-before-connect"
        } else {
            "when:mixed"
        });
        let has_neg = case.ops.iter().any(|o| matches!(o.kind, Kind::Negotiated(_)));
        let has_in = case.ops.iter().any(|o| o.kind == Kind::InBand);
        rec.set_nontrivial(has_neg && has_in);
        for o in &case.ops {
            rec.label(match (o.kind, o.before, o.side) {
                (Kind::InBand, true, 0) => "op:inband-before-A",
                (Kind::InBand, true, _) => "op:inband-before-B",
                (Kind::InBand, false, 0) => "op:inband-after-A",
                (Kind::InBand, false, _) => "op:inband-after-B",
                (Kind::Negotiated(_), true, _) => "op:negotiated-before",
                (Kind::Negotiated(_), false, _) => "op:negotiated-after",
            });
            rec.label(match o.rel {
                Rel::Reliable => "rel:reliable",
                Rel::Rexmit(_) => "rel:rexmit",
                Rel::Timed(_) => "rel:timed",
            });
        }
    }

    let mut rig = Rig { ends: [End::new(), End::new()] };
    let mut chans: Vec<Chan> = Vec::new();
    let mut connected = false;

    for phase in [true, false] {
        if !phase {
            if rig.ends[0].created.is_empty() {
                // SCTP is only negotiated when the offerer has a data channel before the offer
                rec.label("bootstrap-channel-added");
                let boot = Op {
                    side: 0,
                    kind: Kind::Negotiated(BOOT_ID),
                    label: "boot".into(),
                    protocol: String::new(),
                    ordered: true,
                    rel: Rel::Reliable,
                    before: true,
                    fwd: vec![8],
                    back: vec![8],
                };
                let mut ch = Chan { op: ops.len(), creator: 0, inband: false, objs: [None, None], dead: false };
                for side in 0..2 {
                    let dc = rig.ends[side]
                        .pc
                        .create_data_channel(&boot.label, Some(cfg_of(&boot)))
                        .map_err(|e| Fail::new("pc-setup:bootstrap-channel-error", format!("{e}")))?;
                    let o = Obj::new(dc);
                    rig.ends[side].created.push(o.clone());
                    ch.objs[side] = Some(o);
                }
                chans.push(ch);
                ops.push(boot);
            }
            connect(&rig.ends[0].pc, &rig.ends[1].pc).await?;
            connected = true;
            // the association is up when the channels created before it announce Open (negotiated ones at once,
            // in-band ones after the DCEP exchange); later creations start from there
            let t = tokio::time::Instant::now();
            for ch in chans.iter().filter(|c| !c.dead) {
                for o in ch.objs.iter().flatten() {
                    while o.opens() == 0 {
                        if t.elapsed() > ANNOUNCE {
                            let clash = ch.inband && chans.iter().any(|c| c.inband && !c.dead && c.creator != ch.creator && c.objs[c.creator].as_ref().is_some_and(|p| p.dc.id == o.dc.id));
                            return Err(Fail::timing(
                                if clash { SIG_PRE_ROLE } else { "pc-open-not-announced" },
                                format!("op {}: channel [{}] created before the connection did not announce Open within {ANNOUNCE:?} after both sides reported Connected{}", ch.op, describe(&o.dc), if clash { " (both sides created an in-band channel with this stream id before the DTLS role was known)" } else { "" }),
                            ));
                        }
                        tokio::time::sleep(Duration::from_millis(2)).await;
                    }
                }
            }
            // in-band channels created before the connection came up surface at the peer now
            for ci in 0..chans.len() {
                if !chans[ci].inband || chans[ci].dead {
                    continue;
                }
                let s = chans[ci].creator;
                let mine = chans[ci].objs[s].clone().unwrap();
                match wait_announced(&rig.ends[1 - s], mine.dc.id, 0).await {
                    Some(o) => {
                        check_params(&ops[chans[ci].op], chans[ci].op, &mine.dc, &o.dc)?;
                        chans[ci].objs[1 - s] = Some(o);
                    }
                    None => {
                        let clash = chans.iter().any(|c| c.inband && !c.dead && c.creator == 1 - s && c.objs[1 - s].as_ref().is_some_and(|p| p.dc.id == mine.dc.id));
                        return Err(Fail::timing(
                            if clash { SIG_PRE_ROLE } else { "pc-inband-not-announced" },
                            format!(
                                "{}in-band channel of op {} [{}] created on {} before the connection was not announced at the peer within {ANNOUNCE:?} after Connected; peer's channels: {:?}",
                                if clash { "both sides created an in-band channel before the offer/answer and both got the same stream id (ids are handed out before the DTLS role is known): " } else { "" },
                                chans[ci].op,
                                describe(&mine.dc),
                                side_name(s),
                                rig.ends[1 - s].live_ids()
                            ),
                        ));
                    }
                }
                unique_ids(&rig.ends[1 - s], 1 - s, "the announcement of a pre-connection in-band channel")?;
            }
        }
        for (ix, op) in ops.iter().enumerate() {
            if op.before != phase {
                continue;
            }
            let s = op.side as usize;
            match op.kind {
                Kind::InBand => {
                    let before_ids = rig.ends[s].live_ids();
                    let skip = rig.ends[1 - s].announced.lock().len();
                    let r = rig.ends[s].pc.create_data_channel(&op.label, Some(cfg_of(op)));
                    let dc = match r {
                        Ok(dc) => dc,
                        Err(_) => {
                            rec.label("create-refused:inband");
                            chans.push(Chan { op: ix, creator: s, inband: true, objs: [None, None], dead: true });
                            continue;
                        }
                    };
                    if before_ids.iter().any(|(id, neg)| *neg && *id < dc.id && id % 2 == dc.id % 2) {
                        rec.label("collision:inband-allocator-had-to-skip-a-negotiated-id");
                    }
                    if before_ids.iter().any(|(id, neg)| *neg && *id == dc.id) {
                        rec.label("collision:inband-got-a-negotiated-id");
                    }
                    let o = Obj::new(dc.clone());
                    rig.ends[s].created.push(o.clone());
                    let mut ch = Chan { op: ix, creator: s, inband: true, objs: [None, None], dead: false };
                    ch.objs[s] = Some(o.clone());
                    unique_ids(&rig.ends[s], s, &format!("op {ix} (in-band create_data_channel, got id {})", dc.id))?;
                    if !connected && rig.ends[1 - s].created.iter().any(|p| !p.dc.negotiated && p.dc.id == dc.id) {
                        // both sides opened an in-band channel with the same stream id before the DTLS role was known
                        rec.label("collision:inband-before-role-same-id-both-sides");
                        if sh.steer_pre_role {
                            sh.steered_pre_role.fetch_add(1, Ordering::Relaxed);
                            ch.dead = true;
                            ch.objs[s] = None;
                            // drop the object again so that it does not exist when the association comes up
                            rig.ends[s].created.pop();
                            o.task.abort();
                            drop(o);
                            drop(dc);
                            chans.push(ch);
                            continue;
                        }
                        // not steered: run on and judge what is observed (see the announcement wait after Connected)
                    }
                    if connected {
                        match wait_announced(&rig.ends[1 - s], dc.id, skip).await {
                            Some(p) => {
                                check_params(op, ix, &dc, &p.dc)?;
                                ch.objs[1 - s] = Some(p);
                            }
                            None => {
                                // is the DCEP OPEN still sitting in the creator's send queue (never transmitted)?
                                let queued = rig.ends[s].pc.sctp_buffered_amount();
                                return Err(Fail::timing(
                                    if queued > 0 { SIG_OPEN_STUCK } else { "pc-inband-not-announced" },
                                    format!(
                                        "op {ix}: in-band channel [{}] created on {} was not announced at the peer within {ANNOUNCE:?}; creator's sctp_buffered_amount() = {queued}; peer's channels: {:?}",
                                        describe(&dc),
                                        side_name(s),
                                        rig.ends[1 - s].live_ids()
                                    ),
                                ));
                            }
                        }
                        unique_ids(&rig.ends[1 - s], 1 - s, &format!("the announcement of op {ix}"))?;
                    }
                    chans.push(ch);
                }
                Kind::Negotiated(id) => {
                    let live = [rig.ends[0].has_id(id), rig.ends[1].has_id(id)];
                    let mut ch = Chan { op: ix, creator: s, inband: false, objs: [None, None], dead: false };
                    if live[0] || live[1] {
                        rec.label("collision:negotiated-on-live-id");
                        if sh.steer_neg_live {
                            sh.steered_neg_live.fetch_add(1, Ordering::Relaxed);
                            ch.dead = true;
                            chans.push(ch);
                            continue;
                        }
                    }
                    for side in [s, 1 - s] {
                        // Applications agree on negotiated ids out of band: an id that is taken at one
                        // end is not used at the other end either. The end where it is taken must refuse it.
                        if (live[0] || live[1]) && !live[side] {
                            continue;
                        }
                        match rig.ends[side].pc.create_data_channel(&op.label, Some(cfg_of(op))) {
                            Ok(dc) => {
                                if live[side] {
                                    return Err(Fail::new(
                                        SIG_NEG_LIVE,
                                        format!(
                                            "op {ix}: create_data_channel(negotiated: Some({id})) on {} returned Ok although a live channel of that PeerConnection already holds stream id {id}; channels: {:?}",
                                            side_name(side),
                                            rig.ends[side].live_ids()
                                        ),
                                    ));
                                }
                                if dc.id != id {
                                    return Err(Fail::new("pc-negotiated-id-changed", format!("op {ix}: negotiated id {id} became {}", dc.id)));
                                }
                                let o = Obj::new(dc);
                                rig.ends[side].created.push(o.clone());
                                ch.objs[side] = Some(o);
                            }
                            Err(_) => {
                                rec.label("create-refused:negotiated");
                                ch.dead = true;
                            }
                        }
                        unique_ids(&rig.ends[side], side, &format!("op {ix} (negotiated {id})"))?;
                    }
                    if live[0] || live[1] {
                        // the id is live at the peer only (it cannot know): nothing is demanded of this channel
                        ch.dead = true;
                    }
                    chans.push(ch);
                }
            }
        }
    }

    // ---- traffic ----
    // every channel object announces Open (bounded wait), then messages go both ways through the PeerConnection API
    let t0 = tokio::time::Instant::now();
    for ch in chans.iter().filter(|c| !c.dead) {
        for side in 0..2 {
            let o = ch.objs[side].as_ref().unwrap();
            let late_negotiated = !ch.inband && !ops[ch.op].before;
            if late_negotiated && sh.steer_neg_late {
                // known: such an object announces Open only when the peer's first message arrives; send without waiting
                sh.steered_neg_late.fetch_add(1, Ordering::Relaxed);
                continue;
            }
            while o.opens() == 0 {
                if t0.elapsed() > ANNOUNCE {
                    if late_negotiated {
                        return Err(Fail::timing(
                            SIG_NEG_LATE,
                            format!(
                                "op {}: negotiated channel created on {} after the connection was up [{}] did not announce Open within {ANNOUNCE:?} (nobody has sent on it yet; state {})",
                                ch.op,
                                side_name(side),
                                describe(&o.dc),
                                o.dc.state.load(Ordering::SeqCst)
                            ),
                        ));
                    }
                    return Err(Fail::timing(
                        "pc-open-not-announced",
                        format!("op {}: channel object on {} [{}] did not announce Open within {ANNOUNCE:?} of the last creation", ch.op, side_name(side), describe(&o.dc)),
                    ));
                }
                tokio::time::sleep(Duration::from_millis(2)).await;
            }
        }
    }
    // expected[(chan index, receiving side)] = payloads in submission order
    let mut expected: BTreeMap<(usize, usize), Vec<Vec<u8>>> = BTreeMap::new();
    for (ci, ch) in chans.iter().enumerate() {
        if ch.dead {
            continue;
        }
        let op = &ops[ch.op];
        for (dir, sizes) in [(0usize, &op.fwd), (1usize, &op.back)] {
            let from = if dir == 0 { ch.creator } else { 1 - ch.creator };
            let id = ch.objs[from].as_ref().unwrap().dc.id;
            for (k, size) in sizes.iter().enumerate() {
                let p = payload(ch.op, dir, k, *size);
                let pc = &rig.ends[from].pc;
                let r = if k % 2 == 1 {
                    let text = String::from_utf8(p.clone()).unwrap();
                    tokio::time::timeout(STEP, pc.send_text(id, &text)).await
                } else {
                    tokio::time::timeout(STEP, pc.send_data(id, &p)).await
                };
                match r {
                    Ok(Ok(())) => expected.entry((ci, 1 - from)).or_default().push(p),
                    Ok(Err(e)) => {
                        return Err(Fail::new(
                            "pc-send-error",
                            format!("op {}: send of {} bytes on open channel id {id} from {} failed: {e}", ch.op, size, side_name(from)),
                        ));
                    }
                    Err(_) => return Err(Fail::timing("pc-send-timeout", format!("op {}: send of {size} bytes did not return within {STEP:?}", ch.op))),
                }
                rec.label(match size {
                    0 => "size:0",
                    1 => "size:1",
                    1172 => "size:1172",
                    1173 => "size:1173",
                    2344 => "size:2344",
                    5000 => "size:5000",
                    _ => "size:other",
                });
            }
        }
    }
    // wait until everything reliable has arrived (loss-free network)
    let t1 = tokio::time::Instant::now();
    let mut late: Option<String> = None;
    loop {
        let mut missing = None;
        for ((ci, side), exp) in expected.iter() {
            let ch = &chans[*ci];
            if ops[ch.op].rel != Rel::Reliable {
                continue;
            }
            let got = ch.objs[*side].as_ref().unwrap().msgs().len();
            if got < exp.len() {
                missing = Some(format!(
                    "op {}: {} of {} messages arrived on {}'s object [{}]",
                    ch.op,
                    got,
                    exp.len(),
                    side_name(*side),
                    describe(&ch.objs[*side].as_ref().unwrap().dc)
                ));
                break;
            }
        }
        match missing {
            None => break,
            Some(m) if t1.elapsed() > DELIVER => {
                late = Some(m);
                break;
            }
            _ => tokio::time::sleep(Duration::from_millis(5)).await,
        }
    }
    // let stragglers (duplicates, misrouted or partially reliable messages) land
    tokio::time::sleep(Duration::from_millis(if late.is_some() { 0 } else { 120 })).await;

    // ---- judgement ----
    // where does a payload belong?
    let owner = |m: &Vec<u8>| -> String {
        for ((ci, side), exp) in expected.iter() {
            if m.len() >= 2 && exp.iter().any(|e| e == m) {
                return format!("it was submitted on the channel of op {} towards {}", chans[*ci].op, side_name(*side));
            }
        }
        "submitted on no channel (or shorter than 2 bytes)".to_string()
    };
    let head = |m: &Vec<u8>| -> String { format!("{} bytes {:?}", m.len(), String::from_utf8_lossy(&m[..m.len().min(16)])) };
    // (c)/(d) on the objects of live channels
    let mut judged: Vec<usize> = Vec::new();
    for (ci, ch) in chans.iter().enumerate() {
        if ch.dead {
            continue;
        }
        let op = &ops[ch.op];
        for side in 0..2 {
            let o = ch.objs[side].as_ref().unwrap();
            judged.push(Arc::as_ptr(o) as usize);
            let evs = o.evs.lock().clone();
            let opens = evs.iter().filter(|e| matches!(e, Ev::Open)).count();
            let closes = evs.iter().filter(|e| matches!(e, Ev::Close)).count();
            let late_negotiated = !ch.inband && !op.before;
            if late_negotiated && sh.steer_neg_late && opens == 0 && !evs.iter().any(|e| matches!(e, Ev::Msg(_))) {
                // nothing arrived on it (partially reliable, all dropped): no Open under the known finding
                continue;
            }
            if opens != 1 {
                return Err(Fail::new("pc-open-count", format!("op {}: object on {} [{}] announced Open {opens} times", ch.op, side_name(side), describe(&o.dc))));
            }
            if !matches!(evs.first(), Some(Ev::Open)) {
                return Err(Fail::new(
                    "pc-event-before-open",
                    format!("op {}: object on {} [{}]: first event is not Open: {:?}", ch.op, side_name(side), describe(&o.dc), evs.first().map(|e| format!("{e:?}").chars().take(60).collect::<String>())),
                ));
            }
            if closes > 0 {
                return Err(Fail::new("pc-unexpected-close", format!("op {}: object on {} [{}] announced Close although nobody closed anything", ch.op, side_name(side), describe(&o.dc))));
            }
            let got = o.msgs();
            let exp = expected.get(&(ci, side)).cloned().unwrap_or_default();
            // nothing foreign, nothing twice
            let mut pool = exp.clone();
            for m in &got {
                match pool.iter().position(|e| e == m) {
                    Some(p) => {
                        pool.remove(p);
                    }
                    None => {
                        let dup = exp.iter().any(|e| e == m);
                        return Err(Fail::new(
                            if dup { "pc-duplicate-message" } else { "pc-foreign-message" },
                            format!(
                                "op {}: object on {} [{}] delivered a message ({}) that {}; {}",
                                ch.op,
                                side_name(side),
                                describe(&o.dc),
                                head(m),
                                if dup { "it had already delivered" } else { "was not submitted on its channel" },
                                owner(m)
                            ),
                        ));
                    }
                }
            }
            if op.rel == Rel::Reliable {
                if !pool.is_empty() {
                    return Err(Fail::timing(
                        "pc-message-not-delivered",
                        format!(
                            "op {}: {} of {} messages submitted on a reliable channel were not delivered on {}'s object [{}] within {DELIVER:?}; first missing: {}; ({})",
                            ch.op,
                            pool.len(),
                            exp.len(),
                            side_name(side),
                            describe(&o.dc),
                            head(&pool[0]),
                            late.clone().unwrap_or_default()
                        ),
                    ));
                }
            } else {
                rec.label(if pool.is_empty() { "partial-reliable:all-arrived" } else { "partial-reliable:some-dropped" });
            }
            if op.ordered {
                // received must be a subsequence of the submitted order
                let mut k = 0;
                for m in &got {
                    while k < exp.len() && &exp[k] != m {
                        k += 1;
                    }
                    if k == exp.len() {
                        return Err(Fail::new(
                            "pc-ordered-out-of-order",
                            format!("op {}: ordered channel delivered out of submission order on {} [{}]: got {:?}", ch.op, side_name(side), describe(&o.dc), got.iter().map(head).collect::<Vec<_>>()),
                        ));
                    }
                    k += 1;
                }
            }
        }
    }
    // objects nothing is expected on must stay silent; (a) exactly once: no announcement beyond the in-band channels
    for side in 0..2 {
        let end = &rig.ends[side];
        let all: Vec<Arc<Obj>> = end.created.iter().cloned().chain(end.announced.lock().iter().cloned()).collect();
        for o in &all {
            if judged.contains(&(Arc::as_ptr(o) as usize)) {
                continue;
            }
            let evs = o.evs.lock().clone();
            if let Some(Ev::Msg(m)) = evs.iter().find(|e| matches!(e, Ev::Msg(_))) {
                return Err(Fail::new(
                    "pc-foreign-message",
                    format!("object on {} [{}] that belongs to no channel of the case delivered a message ({}); {}", side_name(side), describe(&o.dc), head(m), owner(m)),
                ));
            }
            if evs.iter().filter(|e| matches!(e, Ev::Open)).count() > 1 {
                return Err(Fail::new("pc-open-count", format!("object on {} [{}] announced Open more than once", side_name(side), describe(&o.dc))));
            }
        }
        let n_ann = end.announced.lock().len();
        let n_inband_peer = chans.iter().filter(|c| c.inband && !c.dead && c.creator == 1 - side).count();
        if n_ann != n_inband_peer {
            return Err(Fail::new(
                "pc-announcement-count",
                format!(
                    "{} received {n_ann} DataChannel events, the peer opened {n_inband_peer} in-band channels; announced: {:?}",
                    side_name(side),
                    end.announced.lock().iter().map(|o| describe(&o.dc)).collect::<Vec<_>>()
                ),
            ));
        }
        unique_ids(end, side, "the traffic phase")?;
    }
    rec.label(format!("channels-live:{}", match chans.iter().filter(|c| !c.dead).count() {
        0..=2 => "1-2",
        3..=5 => "3-5",
        _ => "6+",
    }));
    Ok(())
}

pub fn checker(sh: Arc<Shared>) -> AsyncCheck<Case> {
    Arc::new(move |case: Case| {
        let sh = sh.clone();
        Box::pin(async move {
            let rec = CaseRec::default();
            // the case runs in its own task so that a panic inside is caught by the batch engine's accounting
            let res = run_case(case, &rec, &sh).await;
            (rec, res)
        })
    })
}

pub fn run_subs(ctx: &mut Ctx) {
    ctx.rule.push_str(
        " | pc-channels: proptest-generated history of 2-10 create_data_channel calls on two real PeerConnections (WebRtc mode, loopback): side A/B x in-band / negotiated(id 0..11, created on both sides) x label x protocol x ordered x {reliable, maxRetransmits 0-2, maxPacketLifeTime} x before/after connect, then 1-3 messages per direction and channel (sizes incl. 0/1/1172/1173/2344/5000) through PeerConnection::send_data/send_text; non-trivial = the history has at least one negotiated and one in-band creation on one PeerConnection (forced by construction for the first two ops)",
    );
    ctx.assumptions.push(
        "pc-channels: loss-free loopback; applications send only after Open; a negotiated id that is live on either PeerConnection at creation time is a collision the caller cannot always see - nothing is demanded of such a channel beyond 'a local collision is refused'; completeness demanded of reliable channels only (bounded 10 s, 3x solo re-run rule)".into(),
    );
    let rt = tokio::runtime::Builder::new_multi_thread().worker_threads(16).enable_all().build().unwrap();
    let sh = Arc::new(Shared {
        steer_neg_live: ctx.is_known(SIG_NEG_LIVE),
        steer_pre_role: ctx.is_known(SIG_PRE_ROLE),
        steer_neg_late: ctx.is_known(SIG_NEG_LATE),
        steered_neg_late: AtomicU64::new(0),
        steered_neg_live: AtomicU64::new(0),
        steered_pre_role: AtomicU64::new(0),
    });
    let n = ctx.scale(1500usize, 15_000usize);
    ctx.sub_async(&rt, SUB, n, 48, case_strategy(), checker(sh.clone()));
    let a = sh.steered_neg_live.load(Ordering::Relaxed);
    if a > 0 {
        ctx.note_excluded(SIG_NEG_LIVE, a);
    }
    let b = sh.steered_pre_role.load(Ordering::Relaxed);
    if b > 0 {
        ctx.note_excluded(SIG_PRE_ROLE, b);
    }
    let c = sh.steered_neg_late.load(Ordering::Relaxed);
    if c > 0 {
        ctx.note_excluded(SIG_NEG_LATE, c);
    }
    rt.shutdown_timeout(Duration::from_secs(2));
}
