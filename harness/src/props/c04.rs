//! C04 — SRTP/SRTCP protection round-trips and matches an independent implementation.
//!
//! Sub-checks
//! * `rtp`  – generated sender histories (several SSRCs, wraps of 2^16, gaps, sender-side
//!            retransmits) protected by a rustrtc `SrtpSession`; every wire packet must be
//!            byte-identical to what the own RFC model (`refimpl::srtp`) produces at the expected
//!            index, must be accepted by the model and by `webrtc-srtp`; the wire packets (and
//!            model / webrtc-protected twins using a foreign padding fill) are delivered to
//!            rustrtc receivers in a perturbed order (reordering, loss, duplicates) and must be
//!            accepted with the identical packet whenever an RFC 3711 receiver would accept.
//! * `rtcp` – the same for SRTCP: index sequence and E-bit of what rustrtc emits, acceptance of
//!            foreign index values / cleared E-bit, three-way byte agreement.
//! * `roc`  – rollover estimation against RFC 3711 Appendix A over (s_l, SEQ) pairs (boundary
//!            set + random in quick, all 2^32 pairs at ROC=1 in thorough) by probing clones of a
//!            rustrtc receive context with model-protected packets.
//!
//! The generator pieces are `pub`: C05 derives its genuine traffic from them.

use crate::engine::{CaseRec, Check, Ctx, Fail, hexbytes};
use crate::ensure;
use crate::refimpl::srtp::{self as model, Profile, RocState, Srtp};
use bytes::BytesMut;
use proptest::prelude::*;
use proptest::strategy::ValueTree;
use rustrtc::rtp::{RtpHeader, RtpHeaderExtension, RtpPacket};
use rustrtc::srtp::{SrtpContext, SrtpDirection, SrtpKeyingMaterial, SrtpPacket, SrtpProfile, SrtpSession};
use serde::{Deserialize, Serialize};
use serde_json::json;
use std::collections::HashMap;
use std::sync::atomic::{AtomicBool, AtomicU64, Ordering};
use webrtc_srtp::context::Context as WContext;
use webrtc_srtp::protection_profile::ProtectionProfile as WProfile;

/// Known-finding signature: SRTCP tag truncated to 32 bits under AES_CM_128_HMAC_SHA1_32.
pub const SIG_SRTCP_TAG32: &str = "srtcp-tag-32bit-under-sha1-32";

// ---------------------------------------------------------------------------------------------
// profiles / keys
// ---------------------------------------------------------------------------------------------

pub const PROFILE_NAMES: [&str; 4] = ["sha1_80", "sha1_32", "gcm", "null"];

pub fn rprofile(i: u8) -> SrtpProfile {
    match i & 3 {
        0 => SrtpProfile::Aes128Sha1_80,
        1 => SrtpProfile::Aes128Sha1_32,
        2 => SrtpProfile::AeadAes128Gcm,
        _ => SrtpProfile::NullCipherHmac,
    }
}

pub fn mprofile(i: u8) -> Profile {
    match i & 3 {
        0 => Profile::AesCm128HmacSha1_80,
        1 => Profile::AesCm128HmacSha1_32,
        2 => Profile::AeadAes128Gcm,
        _ => Profile::NullHmacSha1_80,
    }
}

pub fn wprofile(i: u8) -> Option<WProfile> {
    match i & 3 {
        0 => Some(WProfile::Aes128CmHmacSha1_80),
        1 => Some(WProfile::Aes128CmHmacSha1_32),
        2 => Some(WProfile::AeadAes128Gcm),
        _ => None,
    }
}

/// Master keys of the two directions. `key/salt` protect the traffic under test, `key2/salt2`
/// are the keys of the opposite direction (always different from the first pair).
#[derive(Clone, Debug, Serialize, Deserialize)]
pub struct Keys {
    pub profile: u8,
    #[serde(with = "hexbytes")]
    pub key: Vec<u8>,
    #[serde(with = "hexbytes")]
    pub salt: Vec<u8>,
    #[serde(with = "hexbytes")]
    pub key2: Vec<u8>,
    #[serde(with = "hexbytes")]
    pub salt2: Vec<u8>,
}

fn material(n: usize) -> impl Strategy<Value = Vec<u8>> {
    prop_oneof![
        1 => Just(vec![0u8; n]),
        1 => Just(vec![0xffu8; n]),
        8 => prop::collection::vec(any::<u8>(), n),
    ]
}

pub fn keys_strategy() -> impl Strategy<Value = Keys> {
    (0..4u8, material(16), material(14), material(16), material(14)).prop_map(
        |(profile, key, mut salt, mut key2, mut salt2)| {
            let sl = mprofile(profile).salt_len();
            salt.truncate(sl);
            salt2.truncate(sl);
            if key2 == key {
                key2[0] ^= 0x01;
            }
            Keys { profile, key, salt, key2, salt2 }
        },
    )
}

impl Keys {
    pub fn main(&self) -> SrtpKeyingMaterial {
        SrtpKeyingMaterial::new(self.key.clone(), self.salt.clone())
    }
    pub fn other(&self) -> SrtpKeyingMaterial {
        SrtpKeyingMaterial::new(self.key2.clone(), self.salt2.clone())
    }
    /// rustrtc session that *sends* under the main keys.
    pub fn sender(&self) -> SrtpSession {
        SrtpSession::new(rprofile(self.profile), self.main(), self.other()).expect("session")
    }
    /// rustrtc session that *receives* under the main keys.
    pub fn receiver(&self) -> SrtpSession {
        SrtpSession::new(rprofile(self.profile), self.other(), self.main()).expect("session")
    }
    pub fn model(&self) -> Srtp {
        Srtp::new(mprofile(self.profile), &self.key, &self.salt).expect("model keys")
    }
    pub fn model_other(&self) -> Srtp {
        Srtp::new(mprofile(self.profile), &self.key2, &self.salt2).expect("model keys")
    }
    pub fn webrtc(&self) -> Option<WContext> {
        wprofile(self.profile).map(|p| WContext::new(&self.key, &self.salt, p, None, None).expect("webrtc ctx"))
    }
}

// ---------------------------------------------------------------------------------------------
// RTP packet shapes
// ---------------------------------------------------------------------------------------------

#[derive(Clone, Debug, Serialize, Deserialize, PartialEq)]
pub struct ExtSpec {
    pub profile: u16,
    #[serde(with = "hexbytes")]
    pub data: Vec<u8>,
    /// RFC 8285 well-formed (or a non-8285 profile): safe to hand to the webrtc-rs parser.
    pub wellformed: bool,
}

#[derive(Clone, Debug, Serialize, Deserialize, PartialEq)]
pub struct Shape {
    pub marker: bool,
    pub pt: u8,
    pub ts: u32,
    pub csrcs: u8,
    pub ext: Option<ExtSpec>,
    pub pad: u8,
    pub plen: u16,
    pub seed: u32,
}

/// Deterministic byte expansion of a generated seed (xorshift32).
pub fn expand(seed: u32, len: usize) -> Vec<u8> {
    let mut s = seed | 1;
    let mut out = Vec::with_capacity(len + 4);
    while out.len() < len {
        s ^= s << 13;
        s ^= s >> 17;
        s ^= s << 5;
        out.extend_from_slice(&s.to_le_bytes());
    }
    out.truncate(len);
    out
}

fn one_byte_ext(max_bytes: usize) -> impl Strategy<Value = ExtSpec> {
    prop::collection::vec((1..=14u8, 1..=16usize, any::<u32>()), 0..6).prop_map(move |els| {
        let mut data = Vec::new();
        for (id, len, seed) in els {
            if data.len() + 1 + len > max_bytes {
                break;
            }
            data.push((id << 4) | (len as u8 - 1));
            data.extend_from_slice(&expand(seed, len));
        }
        while data.len() % 4 != 0 {
            data.push(0);
        }
        ExtSpec { profile: 0xBEDE, data, wellformed: true }
    })
}

fn two_byte_ext(max_bytes: usize) -> impl Strategy<Value = ExtSpec> {
    prop::collection::vec((1..=255u8, prop_oneof![0..=8usize, 0..=255usize], any::<u32>()), 0..5).prop_map(
        move |els| {
            let mut data = Vec::new();
            for (id, len, seed) in els {
                if data.len() + 2 + len > max_bytes {
                    break;
                }
                data.push(id);
                data.push(len as u8);
                data.extend_from_slice(&expand(seed, len));
            }
            while data.len() % 4 != 0 {
                data.push(0);
            }
            ExtSpec { profile: 0x1000, data, wellformed: true }
        },
    )
}

fn ext_strategy(max_words: usize) -> impl Strategy<Value = Option<ExtSpec>> {
    let mb = max_words * 4;
    prop_oneof![
        6 => Just(None),
        3 => one_byte_ext(mb).prop_map(Some),
        2 => two_byte_ext(mb).prop_map(Some),
        // another (RFC 3550 generic) profile with opaque words
        2 => (any::<u16>(), 0..=max_words, any::<u32>()).prop_map(|(p, w, seed)| {
            let profile = if p == 0xBEDE || p == 0x1000 { 0x0001 } else { p };
            Some(ExtSpec { profile, data: expand(seed, w * 4), wellformed: true })
        }),
        // RFC 8285 profile carrying arbitrary (possibly ill-formed) bytes: opaque to SRTP
        1 => (prop_oneof![Just(0xBEDEu16), Just(0x1000u16)], 0..=max_words, any::<u32>()).prop_map(|(p, w, seed)| {
            Some(ExtSpec { profile: p, data: expand(seed, w * 4), wellformed: w == 0 })
        }),
    ]
}

pub fn shape_strategy(max_payload: u16, max_ext_words: usize) -> impl Strategy<Value = Shape> {
    let plen = prop_oneof![
        2 => Just(0u16),
        2 => Just(1u16),
        2 => prop_oneof![Just(15u16), Just(16), Just(17), Just(31), Just(32), Just(33)],
        6 => 0..=64u16,
        3 => Just(160u16),
        4 => 0..=1400u16,
        1 => Just(1400u16),
    ]
    .prop_map(move |l| l.min(max_payload));
    (
        any::<bool>(),
        prop_oneof![Just(0u8), Just(8), Just(96), Just(111), Just(127), 0..=127u8],
        any::<u32>(),
        prop_oneof![5 => Just(0u8), 2 => 1..=3u8, 1 => Just(15u8), 1 => 0..=15u8],
        ext_strategy(max_ext_words),
        prop_oneof![6 => Just(0u8), 1 => Just(1u8), 1 => 2..=16u8, 1 => Just(255u8), 1 => 1..=255u8],
        plen,
        any::<u32>(),
    )
        .prop_map(|(marker, pt, ts, csrcs, ext, pad, plen, seed)| Shape { marker, pt, ts, csrcs, ext, pad, plen, seed })
}

pub fn build_packet(s: &Shape, ssrc: u32, seq: u16) -> RtpPacket {
    let mut h = RtpHeader::new(s.pt & 0x7f, seq, s.ts, ssrc);
    h.marker = s.marker;
    h.csrcs = (0..s.csrcs.min(15) as u32).map(|i| s.seed.rotate_left(7).wrapping_mul(2654435761).wrapping_add(i)).collect();
    h.extension = s.ext.as_ref().map(|e| RtpHeaderExtension::new(e.profile, e.data.clone()));
    let mut p = RtpPacket::new(h, expand(s.seed, s.plen as usize));
    p.padding_len = s.pad;
    p
}

/// Same packet with the padding filled the way other stacks do it (zeros, then the count).
pub fn foreign_padding(plain: &[u8], pad: u8) -> Vec<u8> {
    let mut v = plain.to_vec();
    if pad > 1 {
        let n = v.len();
        for b in &mut v[n - pad as usize..n - 1] {
            *b = 0;
        }
    }
    v
}

pub fn shape_interesting(s: &Shape) -> bool {
    s.ext.is_some() || s.csrcs > 0 || s.pad > 0
}

// ---------------------------------------------------------------------------------------------
// histories
// ---------------------------------------------------------------------------------------------

#[derive(Clone, Debug, Serialize, Deserialize)]
pub struct StreamSpec {
    pub ssrc: u32,
    pub start_seq: u16,
}

/// One protected packet of the sender history plus how the network treats it.
#[derive(Clone, Debug, Serialize, Deserialize)]
pub struct Step {
    pub stream: u8,
    /// index step relative to the highest index sent so far on that stream
    pub delta: i32,
    pub shape: Shape,
    /// delivery position = send position + delay
    pub delay: u8,
    pub drop: bool,
    /// deliver a verbatim copy this many positions later
    pub dup: Option<u8>,
}

#[derive(Clone, Debug, Serialize, Deserialize)]
pub struct RtpHist {
    pub keys: Keys,
    pub streams: Vec<StreamSpec>,
    /// replace small forward steps by large ones (many wraps in few packets)
    pub fast: bool,
    pub steps: Vec<Step>,
}

pub fn seq_base() -> impl Strategy<Value = u16> {
    prop_oneof![
        Just(0u16),
        Just(1u16),
        Just(65535u16),
        Just(65534u16),
        Just(32767u16),
        Just(32768u16),
        65000..=65535u16,
        any::<u16>(),
    ]
}

pub fn streams_strategy(max: usize) -> impl Strategy<Value = Vec<StreamSpec>> {
    prop::collection::vec(
        (prop_oneof![Just(0u32), Just(u32::MAX), Just(0x1234_5678u32), any::<u32>()], seq_base()),
        1..=max,
    )
    .prop_map(|v| {
        let mut out: Vec<StreamSpec> = Vec::new();
        for (mut ssrc, start_seq) in v {
            while out.iter().any(|s| s.ssrc == ssrc) {
                ssrc = ssrc.wrapping_add(0x0101_0101);
            }
            out.push(StreamSpec { ssrc, start_seq });
        }
        out
    })
}

pub fn delta_strategy() -> impl Strategy<Value = i32> {
    prop_oneof![
        10 => Just(1i32),
        4 => 2..=100i32,
        3 => 1000..=32767i32,
        1 => Just(32767i32),
        3 => -200..=-1i32,
        1 => Just(0i32),
    ]
}

pub fn net_strategy() -> impl Strategy<Value = (u8, bool, Option<u8>)> {
    (
        prop_oneof![12 => Just(0u8), 4 => 1..=4u8, 2 => 5..=30u8],
        prop::bool::weighted(0.08),
        prop_oneof![9 => Just(None), 1 => (0..=6u8).prop_map(Some)],
    )
}

pub fn step_strategy(max_payload: u16, max_ext_words: usize) -> impl Strategy<Value = Step> {
    (0..4u8, delta_strategy(), shape_strategy(max_payload, max_ext_words), net_strategy()).prop_map(
        |(stream, delta, shape, (delay, drop, dup))| Step { stream, delta, shape, delay, drop, dup },
    )
}

pub fn hist_strategy(max_steps: usize, max_payload: u16) -> impl Strategy<Value = RtpHist> {
    (
        keys_strategy(),
        streams_strategy(4),
        prop::bool::weighted(0.35),
        prop::collection::vec(step_strategy(max_payload, 64), 1..=max_steps),
    )
        .prop_map(|(keys, streams, fast, steps)| RtpHist { keys, streams, fast, steps })
}

/// A packet of the sender history with its true 48-bit index.
pub struct Planned {
    pub stream: usize,
    pub ssrc: u32,
    pub idx: u64,
    pub packet: RtpPacket,
}

impl Planned {
    pub fn roc(&self) -> u32 {
        (self.idx >> 16) as u32
    }
    pub fn seq(&self) -> u16 {
        self.idx as u16
    }
}

/// Interpret the steps: every stream starts at (ROC 0, start_seq); each later packet sits at
/// `highest + delta`, always within (-2^15, +2^15) of the highest index sent so far.
pub fn plan(streams: &[StreamSpec], fast: bool, steps: &[Step]) -> Vec<Planned> {
    let mut hi: Vec<Option<u64>> = vec![None; streams.len()];
    let mut out = Vec::with_capacity(steps.len());
    for st in steps {
        let s = st.stream as usize % streams.len();
        let idx = match hi[s] {
            None => streams[s].start_seq as u64,
            Some(h) => {
                let mut d = st.delta as i64;
                if fast && (1..1000).contains(&d) {
                    d = 8000 + d * 23;
                }
                let d = d.clamp(-32767, 32767);
                let t = h as i64 + d;
                if t < 0 { h + 1 } else { t as u64 }
            }
        };
        if hi[s].is_none_or(|h| idx > h) {
            hi[s] = Some(idx);
        }
        out.push(Planned { stream: s, ssrc: streams[s].ssrc, idx, packet: build_packet(&st.shape, streams[s].ssrc, idx as u16) });
    }
    out
}

/// Delivery order (indices into the step list; a duplicate appears twice).
pub fn delivery_order(net: &[(u8, bool, Option<u8>)]) -> Vec<usize> {
    let mut ev: Vec<(usize, usize)> = Vec::new();
    for (k, (delay, drop, dup)) in net.iter().enumerate() {
        if *drop {
            continue;
        }
        ev.push((k + *delay as usize, k));
        if let Some(d) = dup {
            ev.push((k + *delay as usize + 1 + *d as usize, k));
        }
    }
    ev.sort_by_key(|e| e.0);
    ev.into_iter().map(|e| e.1).collect()
}

pub fn protect_with(sess: &mut SrtpSession, p: &RtpPacket) -> Result<Vec<u8>, Fail> {
    let mut out = vec![0u8; sess.protected_rtp_len(p)];
    sess.protect_rtp(p, &mut out)
        .map_err(|e| Fail::new("protect-rtp-failed", format!("protect_rtp failed: {e} for {:?}", p.header)))?;
    Ok(out)
}

/// Feed a datagram the way `RtpTransport::receive` does: parse the clear header, then unprotect.
pub fn unprotect_with(sess: &mut SrtpSession, wire: &[u8]) -> Result<RtpPacket, String> {
    let sp = SrtpPacket::parse(BytesMut::from(wire)).map_err(|e| format!("parse: {e}"))?;
    sess.unprotect_rtp(sp).map_err(|e| format!("unprotect: {e}"))
}

/// rustrtc receiver + the RFC 3711 receiver model next to it.
pub struct RxPair {
    pub sess: SrtpSession,
    pub st: HashMap<u32, RocState>,
    pub name: &'static str,
    pub accepted: u64,
    pub rfc_rejects: u64,
    pub beyond_rfc: u64,
}

impl RxPair {
    pub fn new(keys: &Keys, name: &'static str) -> Self {
        RxPair { sess: keys.receiver(), st: HashMap::new(), name, accepted: 0, rfc_rejects: 0, beyond_rfc: 0 }
    }

    /// Deliver `wire` (a genuine protection of `orig` at ROC `roc`). Acceptance is required
    /// exactly when the RFC 3711 receiver (Appendix A estimate from its own state) would use the
    /// sender's ROC. `dup`: a verbatim duplicate of something delivered before — the statement
    /// promises nothing about replays, so either outcome is fine, but a returned packet must be
    /// the original.
    pub fn deliver(&mut self, wire: &[u8], orig: &RtpPacket, roc: u32, dup: bool) -> Check {
        let ssrc = orig.header.ssrc;
        let seq = orig.header.sequence_number;
        let st = self.st.entry(ssrc).or_default();
        let est = st.estimate(seq);
        let res = unprotect_with(&mut self.sess, wire);
        match res {
            Ok(p) => {
                ensure!(
                    p == *orig,
                    format!("{}-plaintext-differs", self.name),
                    "[{}] unprotect returned a different packet for seq {} roc {}: got {:?} payload {} bytes pad {}, want {:?} payload {} bytes pad {}",
                    self.name, seq, roc, p.header, p.payload.len(), p.padding_len, orig.header, orig.payload.len(), orig.padding_len
                );
                self.accepted += 1;
                if est == roc {
                    st.update(est, seq);
                } else {
                    // rustrtc followed the sender where Appendix A would not: not a violation, resync
                    self.beyond_rfc += 1;
                    let cur = st.index().unwrap_or(0);
                    let new = ((roc as u64) << 16) | seq as u64;
                    if new > cur {
                        *st = RocState { roc, s_l: Some(seq) };
                    }
                }
                Ok(())
            }
            Err(e) => {
                if est == roc && !dup {
                    return Err(Fail::new(
                        format!("{}-genuine-rejected", self.name),
                        format!(
                            "[{}] genuine packet ssrc {:#x} seq {} roc {} rejected ({}); RFC 3711 receiver state {:?} estimates roc {}",
                            self.name, ssrc, seq, roc, e, st, est
                        ),
                    ));
                }
                if est != roc {
                    self.rfc_rejects += 1;
                }
                Ok(())
            }
        }
    }
}

fn webrtc_header_ok(plain: &[u8]) -> bool {
    use webrtc_util::marshal::{MarshalSize, Unmarshal};
    let mut b = plain;
    match rtp::header::Header::unmarshal(&mut b) {
        Ok(h) => Some(h.marshal_size()) == model::rtp_header_len(plain),
        Err(_) => false,
    }
}

/// Bookkeeping for the webrtc-srtp reference contexts: webrtc-srtp tracks the *last* index (not
/// the highest) per SSRC, so before a packet further than 30000 from the last one it saw, both
/// reference contexts are walked closer with filler packets (protected by the own model).
#[derive(Default)]
struct WTrack {
    last: HashMap<u32, u64>,
}

impl WTrack {
    /// Returns false if the reference cannot be brought to this index (first packet beyond ROC 0).
    fn approach(&mut self, m: &Srtp, wrx: &mut WContext, wtx: &mut WContext, ssrc: u32, idx: u64) -> Result<bool, Fail> {
        let Some(mut cur) = self.last.get(&ssrc).copied() else {
            return Ok(idx < 65536);
        };
        while (idx as i64 - cur as i64).abs() > 30000 {
            cur = if idx > cur { cur + 30000 } else { cur - 30000 };
            let mut plain = vec![0x80u8, 100];
            plain.extend_from_slice(&(cur as u16).to_be_bytes());
            plain.extend_from_slice(&[0, 0, 0, 0]);
            plain.extend_from_slice(&ssrc.to_be_bytes());
            plain.extend_from_slice(&[0xF1, 0x11]);
            let w = m.protect_rtp(&plain, (cur >> 16) as u32).map_err(|e| Fail::new("model-protect-failed", format!("{e:?}")))?;
            let got = wrx
                .decrypt_rtp(&w)
                .map_err(|e| Fail::new("refmodel-disagrees-with-webrtc", format!("webrtc-srtp rejects model filler at index {cur}: {e}")))?;
            ensure!(got[..] == plain[..], "refmodel-disagrees-with-webrtc", "filler decoded differently at index {cur}");
            let ww = wtx.encrypt_rtp(&plain).map_err(|e| Fail::new("refmodel-webrtc-encrypt-failed", format!("{e}")))?;
            ensure!(ww[..] == w[..], "refmodel-disagrees-with-webrtc", "filler protected differently at index {cur}");
            self.last.insert(ssrc, cur);
        }
        Ok(true)
    }
    fn fed(&mut self, ssrc: u32, idx: u64) {
        self.last.insert(ssrc, idx);
    }
}

/// Network treatment of a history; in `fast` histories (>= 8000 per step) delays are capped at two
/// positions so that most reordering stays inside the +/-2^15 window.
pub fn hist_net(c: &RtpHist) -> Vec<(u8, bool, Option<u8>)> {
    c.steps.iter().map(|s| (if c.fast { s.delay % 3 } else { s.delay }, s.drop, s.dup.map(|d| if c.fast { d % 3 } else { d }))).collect()
}

/// Delivery totals over all histories (evidence: how much of the traffic the oracle required to pass).
#[derive(Default)]
pub struct DeliveryTotals {
    pub accepted: AtomicU64,
    pub rfc_rejects: AtomicU64,
    pub webrtc_compared: AtomicU64,
    pub packets: AtomicU64,
}

fn check_hist(c: &RtpHist, rec: &CaseRec, tot: &DeliveryTotals) -> Check {
    let keys = &c.keys;
    let m = keys.model();
    let mut a = keys.sender();
    let mut b = RxPair::new(keys, "rx-rustrtc-wire");
    let mut cm = RxPair::new(keys, "rx-model-wire");
    let mut d = RxPair::new(keys, "rx-webrtc-wire");
    let mut w_rx = keys.webrtc();
    let mut w_tx = keys.webrtc();
    let mut wt = WTrack::default();

    let planned = plan(&c.streams, c.fast, &c.steps);
    let mut wires: Vec<Vec<u8>> = Vec::with_capacity(planned.len());
    let mut mwires: Vec<Vec<u8>> = Vec::with_capacity(planned.len());
    let mut webrtc_fed = 0u32;

    for (k, pl) in planned.iter().enumerate() {
        let p = &pl.packet;
        let roc = pl.roc();
        let plain = p.marshal().map_err(|e| Fail::new("marshal-failed", format!("{e}")))?;
        let wire = protect_with(&mut a, p)?;
        // rustrtc -> model, at the index a sender must use
        match m.unprotect_rtp(&wire, roc) {
            Ok(got) => ensure!(
                got == plain,
                "model-decodes-different-packet",
                "step {k}: model decrypts rustrtc wire to different bytes (seq {} roc {})",
                pl.seq(),
                roc
            ),
            Err(e) => {
                let near = m.unprotect_rtp_any_roc(&wire, [roc.wrapping_sub(1), roc.wrapping_add(1), roc.wrapping_sub(2), roc.wrapping_add(2), 0]);
                return Err(match near {
                    Some((r, _)) => Fail::new(
                        "sender-used-wrong-roc",
                        format!("step {k}: rustrtc protected index {} (roc {roc} seq {}) under roc {r}", pl.idx, pl.seq()),
                    ),
                    None => Fail::new(
                        "rustrtc-wire-rejected-by-model",
                        format!("step {k}: model rejects rustrtc wire ({e:?}) seq {} roc {roc} len {}", pl.seq(), wire.len()),
                    ),
                });
            }
        }
        let mw = m.protect_rtp(&plain, roc).map_err(|e| Fail::new("model-protect-failed", format!("{e:?}")))?;
        ensure!(
            mw == wire,
            "wire-differs-from-model",
            "step {k}: rustrtc wire differs from the model's protection of the same packet at the same index (len {} vs {})",
            wire.len(),
            mw.len()
        );
        // the same packet with foreign padding fill, protected by the model
        let plain2 = foreign_padding(&plain, p.padding_len);
        let mw2 = m.protect_rtp(&plain2, roc).map_err(|e| Fail::new("model-protect-failed", format!("{e:?}")))?;

        // webrtc-srtp both ways
        let w_ok = p.header.extension.is_none() || c.steps[k].shape.ext.as_ref().is_some_and(|e| e.wellformed);
        if let (Some(wrx), Some(wtx)) = (w_rx.as_mut(), w_tx.as_mut()) {
            if w_ok && webrtc_header_ok(&plain) && wt.approach(&m, wrx, wtx, pl.ssrc, pl.idx)? {
                webrtc_fed += 1;
                wt.fed(pl.ssrc, pl.idx);
                match wrx.decrypt_rtp(&wire) {
                    Ok(got) => ensure!(
                        got[..] == plain[..],
                        "webrtc-decodes-different-packet",
                        "step {k}: webrtc-srtp decrypts rustrtc wire to different bytes"
                    ),
                    Err(e) => {
                        return Err(Fail::new(
                            "rustrtc-wire-rejected-by-webrtc",
                            format!("step {k}: webrtc-srtp rejects rustrtc wire: {e} (seq {} roc {roc})", pl.seq()),
                        ));
                    }
                }
                let ww = wtx
                    .encrypt_rtp(&plain2)
                    .map_err(|e| Fail::new("refmodel-webrtc-encrypt-failed", format!("step {k}: {e}")))?;
                ensure!(
                    ww[..] == mw2[..],
                    "refmodel-disagrees-with-webrtc",
                    "step {k}: own model and webrtc-srtp protect the same packet differently (harness model problem)"
                );
                d.deliver(&ww, p, roc, false)?;
            }
        }
        wires.push(wire);
        mwires.push(mw2);
    }

    // network: perturbed delivery of rustrtc wire to B and of model wire to C
    let net = hist_net(c);
    let order = delivery_order(&net);
    let mut seen = vec![false; planned.len()];
    let mut top: HashMap<u32, u64> = HashMap::new();
    let mut reordered = false;
    for &k in &order {
        let pl = &planned[k];
        let dup = seen[k];
        seen[k] = true;
        if let Some(t) = top.get(&pl.ssrc) {
            if pl.idx < *t {
                reordered = true;
            }
        }
        let e = top.entry(pl.ssrc).or_insert(pl.idx);
        if pl.idx > *e {
            *e = pl.idx;
        }
        b.deliver(&wires[k], &pl.packet, pl.roc(), dup)?;
        cm.deliver(&mwires[k], &pl.packet, pl.roc(), dup)?;
    }

    // classification
    let wraps = planned.iter().map(|p| p.roc()).max().unwrap_or(0);
    let sender_backward = {
        let mut hi: HashMap<u32, u64> = HashMap::new();
        let mut back = false;
        for p in &planned {
            if let Some(h) = hi.get(&p.ssrc) {
                if p.idx < *h {
                    back = true;
                }
            }
            let e = hi.entry(p.ssrc).or_insert(p.idx);
            if p.idx > *e {
                *e = p.idx;
            }
        }
        back
    };
    let shaped = c.steps.iter().any(|s| shape_interesting(&s.shape));
    rec.set_nontrivial(wraps >= 1 || reordered || sender_backward || shaped);
    rec.label(format!("profile={}", PROFILE_NAMES[(keys.profile & 3) as usize]));
    rec.label(match wraps {
        0 => "wraps=0",
        1 => "wraps=1",
        _ => "wraps>=2",
    });
    if reordered {
        rec.label("rx-reordered");
    }
    if sender_backward {
        rec.label("tx-retransmit-older-seq");
    }
    if c.steps.iter().any(|s| s.dup.is_some() && !s.drop) {
        rec.label("duplicates");
    }
    if c.steps.iter().any(|s| s.drop) {
        rec.label("loss");
    }
    let used_streams = {
        let mut v: Vec<usize> = planned.iter().map(|p| p.stream).collect();
        v.sort();
        v.dedup();
        v.len()
    };
    rec.label(format!("ssrcs={used_streams}"));
    if c.steps.iter().any(|s| s.shape.ext.is_some()) {
        rec.label("ext");
    }
    if c.steps.iter().any(|s| s.shape.ext.as_ref().is_some_and(|e| !e.wellformed)) {
        rec.label("ext-illformed-8285");
    }
    if c.steps.iter().any(|s| s.shape.csrcs > 0) {
        rec.label("csrc");
    }
    if c.steps.iter().any(|s| s.shape.pad > 0) {
        rec.label("padding");
    }
    if c.steps.iter().any(|s| s.shape.plen == 0) {
        rec.label("payload=0");
    }
    if c.steps.iter().any(|s| s.shape.plen >= 1200) {
        rec.label("payload>=1200");
    }
    if webrtc_fed > 0 {
        rec.label("webrtc-compared");
    }
    if b.rfc_rejects > 0 {
        rec.label("rfc-receiver-would-reject-some");
    }
    if b.beyond_rfc + cm.beyond_rfc + d.beyond_rfc > 0 {
        rec.label("accepted-beyond-rfc-estimate");
    }
    if b.accepted == 0 {
        rec.label("nothing-accepted");
    }
    tot.accepted.fetch_add(b.accepted + cm.accepted + d.accepted, Ordering::Relaxed);
    tot.rfc_rejects.fetch_add(b.rfc_rejects + cm.rfc_rejects + d.rfc_rejects, Ordering::Relaxed);
    tot.webrtc_compared.fetch_add(webrtc_fed as u64, Ordering::Relaxed);
    tot.packets.fetch_add(planned.len() as u64, Ordering::Relaxed);
    Ok(())
}

// ---------------------------------------------------------------------------------------------
// RTCP
// ---------------------------------------------------------------------------------------------

#[derive(Clone, Debug, Serialize, Deserialize)]
pub struct RtcpShape {
    pub pt: u8,
    pub rc: u8,
    /// 32-bit words after the 8-byte (header + SSRC) prefix of the first packet
    pub words: u16,
    /// further packets of the compound (words each)
    pub more: Vec<u8>,
    pub seed: u32,
}

pub fn rtcp_shape_strategy(max_words: u16) -> impl Strategy<Value = RtcpShape> {
    (
        200..=207u8,
        0..=31u8,
        prop_oneof![3 => Just(0u16), 3 => 1..=8u16, 3 => 0..=64u16, 1 => 0..=340u16].prop_map(move |w| w.min(max_words)),
        prop::collection::vec(0..=12u8, 0..3),
        any::<u32>(),
    )
        .prop_map(|(pt, rc, words, more, seed)| RtcpShape { pt, rc, words, more, seed })
}

pub fn build_rtcp(s: &RtcpShape, ssrc: u32) -> Vec<u8> {
    let mut v = vec![0x80 | (s.rc & 0x1f), s.pt];
    v.extend_from_slice(&(s.words + 1).to_be_bytes());
    v.extend_from_slice(&ssrc.to_be_bytes());
    v.extend_from_slice(&expand(s.seed, s.words as usize * 4));
    for (i, w) in s.more.iter().enumerate() {
        v.push(0x80 | ((s.rc as usize + i) as u8 & 0x1f));
        v.push(200 + ((s.pt as usize + i + 1) % 8) as u8);
        v.extend_from_slice(&(*w as u16 + 1).to_be_bytes());
        v.extend_from_slice(&ssrc.to_be_bytes());
        v.extend_from_slice(&expand(s.seed ^ (i as u32 + 1).wrapping_mul(0x9e3779b9), *w as usize * 4));
    }
    v
}

#[derive(Clone, Debug, Serialize, Deserialize)]
pub struct RtcpStep {
    pub stream: u8,
    pub shape: RtcpShape,
    pub delay: u8,
    pub drop: bool,
    pub dup: Option<u8>,
    /// index used when the *model* protects this packet for rustrtc (foreign sender)
    pub foreign_index: u32,
    /// E-bit of the foreign sender (cleared only under HMAC profiles, see module docs)
    pub foreign_encrypt: bool,
}

#[derive(Clone, Debug, Serialize, Deserialize)]
pub struct RtcpHist {
    pub keys: Keys,
    pub ssrcs: Vec<u32>,
    pub steps: Vec<RtcpStep>,
}

pub fn rtcp_index_strategy() -> impl Strategy<Value = u32> {
    prop_oneof![
        Just(0u32),
        Just(1u32),
        Just(2u32),
        Just(0x7fff_ffffu32),
        Just(0x7fff_fffeu32),
        Just(0x0001_0000u32),
        0..=0x7fff_ffffu32,
        0..=1000u32,
    ]
}

pub fn rtcp_step_strategy(max_words: u16) -> impl Strategy<Value = RtcpStep> {
    (0..4u8, rtcp_shape_strategy(max_words), net_strategy(), rtcp_index_strategy(), prop::bool::weighted(0.75)).prop_map(
        |(stream, shape, (delay, drop, dup), foreign_index, foreign_encrypt)| RtcpStep {
            stream,
            shape,
            delay,
            drop,
            dup,
            foreign_index,
            foreign_encrypt,
        },
    )
}

fn rtcp_hist_strategy() -> impl Strategy<Value = RtcpHist> {
    (keys_strategy(), streams_strategy(4), prop::collection::vec(rtcp_step_strategy(340), 1..=40)).prop_map(
        |(keys, streams, steps)| RtcpHist { keys, ssrcs: streams.into_iter().map(|s| s.ssrc).collect(), steps },
    )
}

/// Model configured the way rustrtc behaves when the SHA1_32 SRTCP tag finding is tolerated.
pub fn rtcp_model(keys: &Keys, tolerate_tag32: bool) -> Srtp {
    let m = keys.model();
    if tolerate_tag32 && m.profile == Profile::AesCm128HmacSha1_32 { m.with_rtcp_tag_len(4) } else { m }
}

struct RtcpEnv {
    tolerate_tag32: bool,
    steered: AtomicU64,
    /// observation only: GCM SRTCP with E=0 (RFC 7714 9.3) offered to rustrtc: (accepted, rejected)
    gcm_e0: (AtomicU64, AtomicU64),
}

fn check_rtcp(c: &RtcpHist, rec: &CaseRec, env: &RtcpEnv) -> Check {
    let keys = &c.keys;
    let is32 = mprofile(keys.profile) == Profile::AesCm128HmacSha1_32;
    let rfc = keys.model();
    let m = rtcp_model(keys, env.tolerate_tag32);
    let deviating = is32 && env.tolerate_tag32;
    if deviating {
        env.steered.fetch_add(1, Ordering::Relaxed);
    }
    let mut a = keys.sender();
    let mut b = keys.receiver();
    let mut cm = keys.receiver();
    let mut d = keys.receiver();
    let mut w_rx = if deviating { None } else { keys.webrtc() };
    let mut w_tx = if deviating { None } else { keys.webrtc() };
    let mut count: HashMap<u32, u32> = HashMap::new();
    let mut wires = Vec::new();
    let mut fwires = Vec::new();
    let mut plains = Vec::new();
    let gcm = mprofile(keys.profile).is_aead();

    for (k, st) in c.steps.iter().enumerate() {
        let ssrc = c.ssrcs[st.stream as usize % c.ssrcs.len()];
        let plain = build_rtcp(&st.shape, ssrc);
        let n = {
            let e = count.entry(ssrc).or_insert(0);
            *e += 1;
            *e
        };
        let mut wire = plain.clone();
        a.protect_rtcp(&mut wire).map_err(|e| Fail::new("protect-rtcp-failed", format!("step {k}: {e}")))?;

        if is32 && !env.tolerate_tag32 {
            // RFC 5764 4.1.2 / RFC 4568 6.2.2: the SRTCP tag stays 80 bits under SHA1_32
            if wire.len() == plain.len() + 4 + 4 && rfc.clone().with_rtcp_tag_len(4).unprotect_rtcp(&wire).is_ok() {
                return Err(Fail::new(
                    SIG_SRTCP_TAG32,
                    format!(
                        "step {k}: under AES_CM_128_HMAC_SHA1_32 rustrtc emits SRTCP with a 4-byte tag ({} plain -> {} protected); RFC 5764 4.1.2 / RFC 4568 6.2.2 require 10. rustrtc -> webrtc-srtp: {:?}; rustrtc -> RFC model: {:?}; RFC-conformant SRTCP (10-byte tag) -> rustrtc: {:?}",
                        plain.len(),
                        wire.len(),
                        w_rx.as_mut().map(|w| w.decrypt_rtcp(&wire).map(|_| ()).map_err(|e| e.to_string())),
                        rfc.unprotect_rtcp(&wire).map(|_| ()),
                        {
                            let mut buf = rfc.protect_rtcp(&plain, n, true).unwrap();
                            keys.receiver().unprotect_rtcp(&mut buf).map_err(|e| e.to_string())
                        }
                    ),
                ));
            }
        }

        // what rustrtc emitted: index sequence, E-bit, bytes
        match m.unprotect_rtcp(&wire) {
            Ok(r) => {
                ensure!(r.packet == plain, "model-decodes-different-rtcp", "step {k}: model decrypts rustrtc SRTCP to different bytes");
                ensure!(
                    r.index == n,
                    "srtcp-index-sequence",
                    "step {k}: {}th SRTCP packet of ssrc {:#x} carries index {} (expected {})",
                    n, ssrc, r.index, n
                );
                ensure!(r.encrypted, "srtcp-e-bit-clear", "step {k}: rustrtc sent SRTCP with E=0");
            }
            Err(e) => {
                return Err(Fail::new(
                    "rustrtc-srtcp-rejected-by-model",
                    format!("step {k}: model rejects rustrtc SRTCP ({e:?}), plain {} bytes, wire {} bytes", plain.len(), wire.len()),
                ));
            }
        }
        let mw = m.protect_rtcp(&plain, n, true).unwrap();
        ensure!(mw == wire, "srtcp-wire-differs-from-model", "step {k}: rustrtc SRTCP bytes differ from the model's at index {n}");

        if let (Some(wrx), Some(wtx)) = (w_rx.as_mut(), w_tx.as_mut()) {
            match wrx.decrypt_rtcp(&wire) {
                Ok(got) => ensure!(got[..] == plain[..], "webrtc-decodes-different-rtcp", "step {k}: webrtc-srtp decrypts rustrtc SRTCP differently"),
                Err(e) => return Err(Fail::new("rustrtc-srtcp-rejected-by-webrtc", format!("step {k}: {e}"))),
            }
            let ww = wtx.encrypt_rtcp(&plain).map_err(|e| Fail::new("refmodel-webrtc-encrypt-failed", format!("{e}")))?;
            ensure!(ww[..] == mw[..], "refmodel-disagrees-with-webrtc", "step {k}: model and webrtc-srtp protect SRTCP differently");
            let mut buf = ww.to_vec();
            d.unprotect_rtcp(&mut buf)
                .map_err(|e| Fail::new("webrtc-srtcp-rejected", format!("step {k}: rustrtc rejects webrtc-srtp SRTCP: {e}")))?;
            ensure!(buf == plain, "webrtc-srtcp-plaintext-differs", "step {k}: rustrtc decodes webrtc-srtp SRTCP differently");
        }

        if gcm && !st.foreign_encrypt {
            // not required (rustrtc never negotiates unencrypted SRTCP); recorded for the report
            let mut buf = m.protect_rtcp(&plain, st.foreign_index, false).unwrap();
            match keys.receiver().unprotect_rtcp(&mut buf) {
                Ok(()) if buf == plain => env.gcm_e0.0.fetch_add(1, Ordering::Relaxed),
                _ => env.gcm_e0.1.fetch_add(1, Ordering::Relaxed),
            };
        }
        // foreign sender: arbitrary index, optionally E=0 (authenticated only)
        let enc = st.foreign_encrypt || gcm;
        fwires.push(m.protect_rtcp(&plain, st.foreign_index, enc).unwrap());
        wires.push(wire);
        plains.push(plain);
    }

    let net: Vec<(u8, bool, Option<u8>)> = c.steps.iter().map(|s| (s.delay, s.drop, s.dup)).collect();
    let order = delivery_order(&net);
    let mut seen = vec![false; plains.len()];
    for &k in &order {
        let dup = seen[k];
        seen[k] = true;
        for (sess, wire, name) in [(&mut b, &wires[k], "rx-rustrtc-srtcp"), (&mut cm, &fwires[k], "rx-model-srtcp")] {
            let mut buf = wire.clone();
            match sess.unprotect_rtcp(&mut buf) {
                Ok(()) => ensure!(
                    buf == plains[k],
                    format!("{name}-plaintext-differs"),
                    "[{name}] step {k}: decoded SRTCP differs from the original (index {}, E {})",
                    c.steps[k].foreign_index,
                    c.steps[k].foreign_encrypt
                ),
                Err(e) => {
                    if !dup {
                        return Err(Fail::new(
                            format!("{name}-genuine-rejected"),
                            format!("[{name}] step {k}: genuine SRTCP rejected: {e} (foreign index {}, E {})", c.steps[k].foreign_index, c.steps[k].foreign_encrypt),
                        ));
                    }
                }
            }
        }
    }

    rec.nontrivial();
    rec.label(format!("rtcp:profile={}", PROFILE_NAMES[(keys.profile & 3) as usize]));
    if c.steps.iter().any(|s| !s.foreign_encrypt) && !gcm {
        rec.label("rtcp:foreign-E=0");
    }
    if c.steps.iter().any(|s| s.foreign_index >= 0x7fff_fffe) {
        rec.label("rtcp:foreign-index-max");
    }
    if c.steps.iter().any(|s| s.foreign_index == 0) {
        rec.label("rtcp:foreign-index-0");
    }
    if c.steps.iter().any(|s| !s.shape.more.is_empty()) {
        rec.label("rtcp:compound");
    }
    if c.steps.iter().any(|s| s.shape.words == 0 && s.shape.more.is_empty()) {
        rec.label("rtcp:header-only");
    }
    if order.windows(2).any(|w| w[1] < w[0]) {
        rec.label("rtcp:reordered");
    }
    if deviating {
        rec.label("rtcp:steered-tag32");
    }
    Ok(())
}

// ---------------------------------------------------------------------------------------------
// many SSRCs in one session (more per-SSRC contexts than the session's high-water mark)
// ---------------------------------------------------------------------------------------------

/// A later packet of the history: on one of the wrapped streams (`climber`) or on any stream.
#[derive(Clone, Debug, Serialize, Deserialize)]
pub struct ManyStep {
    pub sel: u16,
    pub climber: bool,
    pub delta: i32,
    pub rtcp: bool,
}

#[derive(Clone, Debug, Serialize, Deserialize)]
pub struct ManyCase {
    pub keys: Keys,
    /// number of SSRCs carried by the one session pair (mostly 33..100)
    pub n: u8,
    pub ssrc_base: u32,
    pub seq_seed: u32,
    /// streams that cross 2^16: (which, wraps 1..3, index stride of the climb)
    pub climbers: Vec<(u16, u8, u16)>,
    /// how many SSRCs have appeared before the climb starts
    pub lead: u16,
    /// after the k-th climb packet, does a fresh SSRC appear
    pub fresh_during_climb: Vec<bool>,
    pub shape: Shape,
    pub after: Vec<ManyStep>,
    /// additionally receive everything through one RtpTransport
    pub transport: bool,
}

fn many_strategy(max_after: usize) -> impl Strategy<Value = ManyCase> {
    (
        keys_strategy(),
        prop_oneof![6 => 33..=100u8, 1 => Just(33u8), 1 => 20..=32u8],
        any::<u32>(),
        any::<u32>(),
        prop::collection::vec((any::<u16>(), 1..=3u8, prop_oneof![Just(30000u16), Just(32767u16), 9000..=32767u16]), 1..=6),
        any::<u16>(),
        prop::collection::vec(any::<bool>(), 48),
        shape_strategy(80, 4),
        prop::collection::vec(
            (
                any::<u16>(),
                prop::bool::weighted(0.6),
                prop_oneof![6 => Just(1i32), 3 => 2..=100i32, 1 => 1000..=20000i32, 2 => -20..=-1i32],
                prop::bool::weighted(0.2),
            )
                .prop_map(|(sel, climber, delta, rtcp)| ManyStep { sel, climber, delta, rtcp }),
            10..=max_after,
        ),
        prop::bool::weighted(0.4),
    )
        .prop_map(|(keys, n, ssrc_base, seq_seed, climbers, lead, fresh_during_climb, mut shape, after, transport)| {
            shape.pt = 96 + shape.pt % 32;
            ManyCase { keys, n, ssrc_base, seq_seed, climbers, lead, fresh_during_climb, shape, after, transport }
        })
}

/// One RtpTransport with the receiving SRTP session installed, observed at its listeners.
struct ManyTransport {
    tr: rustrtc::transports::rtp::RtpTransport,
    rtp_rx: tokio::sync::mpsc::Receiver<(RtpPacket, std::net::SocketAddr)>,
    rtcp_rx: tokio::sync::mpsc::Receiver<Vec<rustrtc::rtp::RtcpPacket>>,
    from: std::net::SocketAddr,
    buf: Vec<u8>,
}

impl ManyTransport {
    fn new(keys: &Keys) -> Self {
        let (_tx, rx) = tokio::sync::watch::channel(None);
        let from: std::net::SocketAddr = "127.0.0.1:40406".parse().unwrap();
        let conn = rustrtc::transports::ice::conn::IceConn::new(rx, from, None);
        let tr = rustrtc::transports::rtp::RtpTransport::new(conn, true);
        tr.start_srtp(keys.receiver());
        let (rtp_tx, rtp_rx) = tokio::sync::mpsc::channel(16);
        let (rtcp_tx, rtcp_rx) = tokio::sync::mpsc::channel(16);
        tr.register_provisional_listener(rtp_tx);
        tr.register_rtcp_listener(rtcp_tx);
        ManyTransport { tr, rtp_rx, rtcp_rx, from, buf: Vec::new() }
    }
    /// (RTP packets, RTCP batches re-marshalled) delivered for one datagram
    fn take(&mut self, wire: &[u8]) -> (Vec<RtpPacket>, Vec<Vec<u8>>) {
        use rustrtc::transports::PacketReceiver;
        futures::executor::block_on(self.tr.receive(bytes::Bytes::copy_from_slice(wire), self.from, &mut self.buf));
        let rtp = std::iter::from_fn(|| self.rtp_rx.try_recv().ok()).map(|x| x.0).collect();
        let rtcp = std::iter::from_fn(|| self.rtcp_rx.try_recv().ok())
            .map(|b| rustrtc::rtp::marshal_rtcp_packets(&b).unwrap_or_default())
            .collect();
        (rtp, rtcp)
    }
}

#[derive(Default)]
struct ManyTotals {
    over_mark_wrapped_continues: AtomicU64,
    over_mark: AtomicU64,
    packets: AtomicU64,
    transport_cases: AtomicU64,
}

fn check_many(c: &ManyCase, rec: &CaseRec, tot: &ManyTotals) -> Check {
    let keys = &c.keys;
    let n = (c.n as usize).max(2);
    let seeds = expand(c.seq_seed, n * 3);
    let streams: Vec<StreamSpec> = (0..n)
        .map(|i| {
            let x = u16::from_le_bytes([seeds[3 * i], seeds[3 * i + 1]]);
            let start_seq = match seeds[3 * i + 2] % 6 {
                0 => 65535 - (x % 64),
                1 => x % 4,
                2 => 32767 + (x % 3),
                _ => x,
            };
            StreamSpec { ssrc: c.ssrc_base.wrapping_add((i as u32).wrapping_mul(0x9E37_79B1)), start_seq }
        })
        .collect();
    // climbers (distinct streams)
    let mut climbers: Vec<(usize, u8, u16)> = Vec::new();
    for (w, wraps, stride) in &c.climbers {
        let s = crate::engine::pick(*w, n);
        if !climbers.iter().any(|x| x.0 == s) {
            climbers.push((s, (*wraps).clamp(1, 3), (*stride).clamp(9000, 32767)));
        }
    }
    // event list: (stream, delta, rtcp)
    let mut ev: Vec<(usize, i32, bool)> = Vec::new();
    let mut seen = vec![false; n];
    let mut unseen: std::collections::VecDeque<usize> = (0..n).collect();
    let first = |ev: &mut Vec<(usize, i32, bool)>, seen: &mut Vec<bool>, s: usize| {
        if !seen[s] {
            seen[s] = true;
            // some streams are first heard of through RTCP (the context is created by SRTCP)
            let rtcp_first = seeds[3 * s + 2] & 0x30 == 0 && !climbers.iter().any(|x| x.0 == s);
            ev.push((s, 0, rtcp_first));
            if rtcp_first {
                ev.push((s, 0, false));
            }
        }
    };
    let lead = crate::engine::pick(c.lead, n + 1);
    for _ in 0..lead {
        if let Some(s) = unseen.pop_front() {
            first(&mut ev, &mut seen, s);
        }
    }
    let mut idx: Vec<u64> = streams.iter().map(|s| s.start_seq as u64).collect();
    let mut k = 0usize;
    loop {
        let mut progressed = false;
        for (s, wraps, stride) in &climbers {
            if seen[*s] && idx[*s] >= (*wraps as u64) << 16 {
                continue;
            }
            if seen[*s] {
                idx[*s] += *stride as u64;
                ev.push((*s, *stride as i32, false));
            } else {
                first(&mut ev, &mut seen, *s);
            }
            progressed = true;
            if c.fresh_during_climb[k % c.fresh_during_climb.len()] {
                while let Some(f) = unseen.pop_front() {
                    if !seen[f] {
                        first(&mut ev, &mut seen, f);
                        break;
                    }
                }
            }
            k += 1;
        }
        if !progressed {
            break;
        }
    }
    while let Some(f) = unseen.pop_front() {
        first(&mut ev, &mut seen, f);
    }
    for a in &c.after {
        let s = if a.climber { climbers[crate::engine::pick(a.sel, climbers.len())].0 } else { crate::engine::pick(a.sel, n) };
        ev.push((s, a.delta, a.rtcp));
    }

    // expected indices of the RTP packets
    let steps: Vec<Step> = ev
        .iter()
        .enumerate()
        .filter(|(_, e)| !e.2)
        .map(|(i, e)| {
            let mut sh = c.shape.clone();
            sh.seed = sh.seed.wrapping_add(i as u32);
            sh.ts = sh.ts.wrapping_add(i as u32 * 160);
            Step { stream: e.0 as u8, delta: e.1, shape: sh, delay: 0, drop: false, dup: None }
        })
        .collect();
    let mut planned = plan(&streams, false, &steps).into_iter();

    let m = keys.model();
    let mut a = keys.sender();
    let mut b = RxPair::new(keys, "many-rx-rustrtc-wire");
    let mut cm = RxPair::new(keys, "many-rx-model-wire");
    let mut w_rx = keys.webrtc();
    let mut w_tx = keys.webrtc();
    let mut wt = WTrack::default();
    let mut tr = if c.transport { Some(ManyTransport::new(keys)) } else { None };
    let mut rtcp_n: HashMap<u32, u32> = HashMap::new();
    let mut ctxs: std::collections::HashSet<u32> = Default::default();
    let mut wrapped_after_mark = false;
    let mut max_roc = 0u32;

    for (k, (s, _delta, rtcp)) in ev.iter().enumerate() {
        let ssrc = streams[*s].ssrc;
        ctxs.insert(ssrc);
        if *rtcp {
            let pli = rustrtc::rtp::RtcpPacket::PictureLossIndication(rustrtc::rtp::PictureLossIndication { sender_ssrc: ssrc, media_ssrc: k as u32 });
            let plain = rustrtc::rtp::marshal_rtcp_packets(&[pli]).map_err(|e| Fail::new("marshal-failed", format!("{e}")))?;
            let idx_n = {
                let e = rtcp_n.entry(ssrc).or_insert(0);
                *e += 1;
                *e
            };
            let mut wire = plain.clone();
            a.protect_rtcp(&mut wire).map_err(|e| Fail::new("protect-rtcp-failed", format!("event {k}: {e}")))?;
            match m.unprotect_rtcp(&wire) {
                Ok(r) => {
                    ensure!(r.packet == plain, "many-model-decodes-different-rtcp", "event {k}: model decrypts rustrtc SRTCP of ssrc {ssrc:#x} differently");
                    ensure!(
                        r.index == idx_n && r.encrypted,
                        "many-srtcp-index-sequence",
                        "event {k}: {idx_n}th SRTCP packet of ssrc {ssrc:#x} carries index {} E={} with {} SSRCs in the sending session",
                        r.index, r.encrypted, ctxs.len()
                    );
                }
                Err(e) => return Err(Fail::new("many-rustrtc-srtcp-rejected-by-model", format!("event {k}: ssrc {ssrc:#x}: {e:?}"))),
            }
            if let Some(wrx) = w_rx.as_mut() {
                match wrx.decrypt_rtcp(&wire) {
                    Ok(got) => ensure!(got[..] == plain[..], "many-webrtc-decodes-different-rtcp", "event {k}"),
                    Err(e) => return Err(Fail::new("many-rustrtc-srtcp-rejected-by-webrtc", format!("event {k}: {e}"))),
                }
            }
            for (sess, name) in [(&mut b.sess, "many-rx-rustrtc-srtcp"), (&mut cm.sess, "many-rx-model-srtcp")] {
                let mut buf = if name.contains("model") { m.protect_rtcp(&plain, idx_n, true).unwrap() } else { wire.clone() };
                sess.unprotect_rtcp(&mut buf).map_err(|e| {
                    Fail::new(format!("{name}-genuine-rejected"), format!("event {k}: genuine SRTCP of ssrc {ssrc:#x} rejected: {e} ({} SSRCs in the session)", ctxs.len()))
                })?;
                ensure!(buf == plain, format!("{name}-plaintext-differs"), "event {k}: SRTCP decoded differently");
            }
            if let Some(t) = tr.as_mut() {
                let (rtp, rtcp) = t.take(&wire);
                ensure!(
                    rtp.is_empty() && rtcp.len() == 1 && rtcp[0] == plain,
                    "many-transport-genuine-rtcp-lost",
                    "event {k}: genuine SRTCP of ssrc {ssrc:#x} through the transport delivered {} RTP / {} RTCP ({} SSRCs so far)",
                    rtp.len(), rtcp.len(), ctxs.len()
                );
            }
            continue;
        }
        let pl = planned.next().unwrap();
        let p = &pl.packet;
        let roc = pl.roc();
        max_roc = max_roc.max(roc);
        if roc >= 1 && ctxs.len() > 32 {
            wrapped_after_mark = true;
        }
        let plain = p.marshal().map_err(|e| Fail::new("marshal-failed", format!("{e}")))?;
        let wire = protect_with(&mut a, p)?;
        match m.unprotect_rtp(&wire, roc) {
            Ok(got) => ensure!(got == plain, "many-model-decodes-different-packet", "event {k}: model decrypts rustrtc wire differently"),
            Err(e) => {
                let near = m.unprotect_rtp_any_roc(&wire, [0, roc.wrapping_sub(1), roc.wrapping_add(1), roc.wrapping_sub(2)]);
                return Err(match near {
                    Some((r, _)) => Fail::new(
                        "many-sender-used-wrong-roc",
                        format!(
                            "event {k}: with {} SSRCs in the sending session rustrtc protected index {} (roc {roc} seq {}) of ssrc {ssrc:#x} under roc {r}",
                            ctxs.len(), pl.idx, pl.seq()
                        ),
                    ),
                    None => Fail::new("many-rustrtc-wire-rejected-by-model", format!("event {k}: {e:?} seq {} roc {roc}", pl.seq())),
                });
            }
        }
        let mw = m.protect_rtp(&plain, roc).map_err(|e| Fail::new("model-protect-failed", format!("{e:?}")))?;
        ensure!(mw == wire, "many-wire-differs-from-model", "event {k}: rustrtc wire differs from the model's at the same index");
        let plain2 = foreign_padding(&plain, p.padding_len);
        let mw2 = m.protect_rtp(&plain2, roc).map_err(|e| Fail::new("model-protect-failed", format!("{e:?}")))?;
        if let (Some(wrx), Some(wtx)) = (w_rx.as_mut(), w_tx.as_mut()) {
            let w_ok = p.header.extension.is_none() || c.shape.ext.as_ref().is_some_and(|e| e.wellformed);
            if w_ok && webrtc_header_ok(&plain) && wt.approach(&m, wrx, wtx, ssrc, pl.idx)? {
                wt.fed(ssrc, pl.idx);
                match wrx.decrypt_rtp(&wire) {
                    Ok(got) => ensure!(got[..] == plain[..], "many-webrtc-decodes-different-packet", "event {k}"),
                    Err(e) => return Err(Fail::new("many-rustrtc-wire-rejected-by-webrtc", format!("event {k}: {e} (seq {} roc {roc}, {} SSRCs)", pl.seq(), ctxs.len()))),
                }
                let ww = wtx.encrypt_rtp(&plain2).map_err(|e| Fail::new("refmodel-webrtc-encrypt-failed", format!("event {k}: {e}")))?;
                ensure!(ww[..] == mw2[..], "refmodel-disagrees-with-webrtc", "event {k}: model and webrtc-srtp protect differently");
            }
        }
        b.deliver(&wire, p, roc, false)?;
        cm.deliver(&mw2, p, roc, false)?;
        if let Some(t) = tr.as_mut() {
            let (rtp, rtcp) = t.take(&wire);
            ensure!(
                rtcp.is_empty() && rtp.len() == 1 && rtp[0] == *p,
                "many-transport-genuine-rtp-lost",
                "event {k}: genuine SRTP of ssrc {ssrc:#x} (seq {} roc {roc}) through the transport delivered {} RTP / {} RTCP ({} SSRCs so far)",
                pl.seq(), rtp.len(), rtcp.len(), ctxs.len()
            );
        }
    }
    ensure!(b.rfc_rejects + cm.rfc_rejects == 0, "many-harness-history-out-of-window", "generator produced a step outside the RFC window");

    tot.packets.fetch_add(ev.len() as u64, Ordering::Relaxed);
    if ctxs.len() > 32 {
        tot.over_mark.fetch_add(1, Ordering::Relaxed);
    }
    if wrapped_after_mark {
        tot.over_mark_wrapped_continues.fetch_add(1, Ordering::Relaxed);
        rec.label("many:>32-ssrcs+wrapped-stream-continues");
    }
    if c.transport {
        tot.transport_cases.fetch_add(1, Ordering::Relaxed);
        rec.label("many:also-through-transport");
    }
    rec.set_nontrivial(wrapped_after_mark);
    rec.label(format!("many:{}", PROFILE_NAMES[(keys.profile & 3) as usize]));
    rec.label(match ctxs.len() {
        0..=32 => "many:ssrcs<=32",
        33..=48 => "many:ssrcs=33..48",
        49..=80 => "many:ssrcs=49..80",
        _ => "many:ssrcs>80",
    });
    rec.label(format!("many:wrapped-streams={}", climbers.len()));
    rec.label(format!("many:max-roc={}", max_roc.min(4)));
    if ev.iter().any(|e| e.2) {
        rec.label("many:rtp+rtcp");
    }
    Ok(())
}

// ---------------------------------------------------------------------------------------------
// rollover estimation vs Appendix A
// ---------------------------------------------------------------------------------------------

const ROC_SSRC: u32 = 0xC0DE_0004;

#[derive(Clone, Debug, Serialize, Deserialize)]
pub struct RocCase {
    pub profile: u8,
    pub roc: u32,
    pub s_l: u16,
    /// probe sequence numbers applied one after the other to the same clone
    pub probes: Vec<u16>,
}

struct RocTable {
    /// per profile: packets for (v, seq) at a fixed stride, v in 0..=max_v
    wire: Vec<Vec<u8>>,
    stride: [usize; 4],
    max_v: u32,
    payload: Vec<u8>,
}

impl RocTable {
    fn get(&self, profile: u8, v: u32, seq: u16) -> Option<&[u8]> {
        if v > self.max_v || self.wire[profile as usize].is_empty() {
            return None;
        }
        let st = self.stride[profile as usize];
        let off = ((v as usize) << 16 | seq as usize) * st;
        Some(&self.wire[profile as usize][off..off + st])
    }
}

fn roc_keys(profile: u8) -> Keys {
    let sl = mprofile(profile).salt_len();
    Keys {
        profile,
        key: (0..16u8).map(|i| i.wrapping_mul(17).wrapping_add(3)).collect(),
        salt: (0..sl as u8).map(|i| i.wrapping_mul(29).wrapping_add(5)).collect(),
        key2: vec![9; 16],
        salt2: vec![7; sl],
    }
}

fn roc_plain(seq: u16, payload: &[u8]) -> Vec<u8> {
    let mut v = vec![0x80, 96];
    v.extend_from_slice(&seq.to_be_bytes());
    v.extend_from_slice(&((seq as u32).wrapping_mul(160)).to_be_bytes());
    v.extend_from_slice(&ROC_SSRC.to_be_bytes());
    v.extend_from_slice(payload);
    v
}

fn roc_table(profiles: &[u8], max_v: u32) -> RocTable {
    let payload = vec![0xA5u8, 0x5A];
    let mut wire: Vec<Vec<u8>> = vec![Vec::new(); 4];
    let mut stride = [0usize; 4];
    std::thread::scope(|sc| {
        let mut hs = Vec::new();
        for &p in profiles {
            stride[p as usize] = 12 + payload.len() + mprofile(p).rtp_tag_len();
            for v in 0..=max_v {
                let payload = payload.clone();
                hs.push((p, sc.spawn(move || {
                    let m = roc_keys(p).model();
                    let mut out = Vec::new();
                    for s in 0..=65535u16 {
                        out.extend_from_slice(&m.protect_rtp(&roc_plain(s, &payload), v).unwrap());
                    }
                    out
                })));
            }
        }
        for (p, h) in hs {
            wire[p as usize].extend_from_slice(&h.join().unwrap());
        }
    });
    RocTable { wire, stride, max_v, payload }
}

/// Bring a fresh rustrtc receive context to (roc, s_l) by feeding model-protected packets.
fn roc_base(t: &RocTable, profile: u8, roc: u32, s_l: u16) -> Result<SrtpContext, Fail> {
    let k = roc_keys(profile);
    let mut ctx = SrtpContext::new(ROC_SSRC, rprofile(profile), k.main(), SrtpDirection::Receiver)
        .map_err(|e| Fail::new("roc-setup", format!("{e}")))?;
    let target = ((roc as u64) << 16) | s_l as u64;
    let mut cur: u64 = if roc == 0 { s_l as u64 } else { 40000 };
    loop {
        let w = t.get(profile, (cur >> 16) as u32, cur as u16).ok_or_else(|| Fail::new("roc-setup", "table range"))?;
        let sp = SrtpPacket::parse(BytesMut::from(w)).map_err(|e| Fail::new("roc-setup", format!("{e}")))?;
        ctx.unprotect(sp).map_err(|e| {
            Fail::new(
                "roc-setup-walk-rejected",
                format!("walking a receiver to (roc {roc}, s_l {s_l}): in-order packet at index {cur} rejected: {e}"),
            )
        })?;
        if cur == target {
            break;
        }
        cur = (cur + 20000).min(target);
    }
    Ok(ctx)
}

fn roc_probe(t: &RocTable, base: &SrtpContext, profile: u8, roc: u32, s_l: u16, probes: &[u16]) -> Result<(u64, u64), Fail> {
    let mut ctx = base.clone();
    let mut st = RocState { roc, s_l: Some(s_l) };
    let mut done = 0u64;
    let mut skipped = 0u64;
    for &seq in probes {
        let v = st.estimate(seq);
        if st.roc == 0 && v == u32::MAX {
            // (ROC-1) mod 2^32 at ROC 0: no sender can be there; nothing is required
            skipped += 1;
            continue;
        }
        let Some(w) = t.get(profile, v, seq) else {
            skipped += 1;
            break;
        };
        let sp = SrtpPacket::parse(BytesMut::from(w)).map_err(|e| Fail::new("roc-probe-parse", format!("{e}")))?;
        match ctx.unprotect(sp) {
            Ok(p) => {
                if p.payload[..] != t.payload[..] || p.header.sequence_number != seq {
                    return Err(Fail::new("roc-probe-plaintext", format!("probe seq {seq} decoded wrongly")));
                }
            }
            Err(e) => {
                return Err(Fail::new(
                    "roc-estimate-differs-from-appendix-a",
                    format!(
                        "receiver at (ROC {}, s_l {:?}) rejects SEQ {} protected at v = {} (RFC 3711 Appendix A): {} [{}]",
                        st.roc, st.s_l, seq, v, e, PROFILE_NAMES[profile as usize]
                    ),
                ));
            }
        }
        st.update(v, seq);
        done += 1;
    }
    Ok((done, skipped))
}

fn check_roc_case(c: &RocCase, t: &RocTable, rec: &CaseRec) -> Check {
    let base = roc_base(t, c.profile & 3, c.roc, c.s_l)?;
    roc_probe(t, &base, c.profile & 3, c.roc, c.s_l, &c.probes)?;
    rec.nontrivial();
    Ok(())
}

/// The sequence numbers around every decision boundary of Appendix A for a given s_l.
fn boundary_probes(s_l: u16) -> Vec<u16> {
    let mut v = Vec::with_capacity(24);
    for base in [s_l, s_l.wrapping_add(32768), 0u16, 65535u16, 32768u16] {
        for d in [-2i32, -1, 0, 1, 2] {
            v.push((base as i32 + d) as u16);
        }
    }
    v.sort();
    v.dedup();
    v
}

struct RocSweep {
    evals: AtomicU64,
    skipped: AtomicU64,
    stop: AtomicBool,
    fail: parking_lot::Mutex<Option<(RocCase, Fail)>>,
}

/// Run `f(s_l)` -> probe list for every s_l in `range` at the given ROC, sharded over threads.
fn roc_sweep(t: &RocTable, roc: u32, profiles: &[u8], s_ls: &[u16], probes_for: &(dyn Fn(u16) -> Vec<u16> + Sync), single: bool) -> RocSweep {
    let sw = RocSweep { evals: AtomicU64::new(0), skipped: AtomicU64::new(0), stop: AtomicBool::new(false), fail: parking_lot::Mutex::new(None) };
    let next = AtomicU64::new(0);
    let threads = std::thread::available_parallelism().map(|x| x.get()).unwrap_or(8).min(16);
    std::thread::scope(|sc| {
        for _ in 0..threads {
            sc.spawn(|| {
                loop {
                    let i = next.fetch_add(1, Ordering::Relaxed) as usize;
                    if i >= s_ls.len() || sw.stop.load(Ordering::Relaxed) {
                        break;
                    }
                    let s_l = s_ls[i];
                    let profile = profiles[(s_l as usize) % profiles.len()];
                    let probes = probes_for(s_l);
                    let res = roc_base(t, profile, roc, s_l).and_then(|base| {
                        if single {
                            // every probe against a fresh clone of the same state
                            let mut d = 0;
                            let mut s = 0;
                            for p in &probes {
                                match roc_probe(t, &base, profile, roc, s_l, std::slice::from_ref(p)) {
                                    Ok((a, b)) => {
                                        d += a;
                                        s += b;
                                    }
                                    Err(f) => {
                                        let mut g = sw.fail.lock();
                                        if g.is_none() {
                                            *g = Some((RocCase { profile, roc, s_l, probes: vec![*p] }, f.clone()));
                                        }
                                        return Err(f);
                                    }
                                }
                            }
                            Ok((d, s))
                        } else {
                            roc_probe(t, &base, profile, roc, s_l, &probes)
                        }
                    });
                    match res {
                        Ok((d, s)) => {
                            sw.evals.fetch_add(d, Ordering::Relaxed);
                            sw.skipped.fetch_add(s, Ordering::Relaxed);
                        }
                        Err(f) => {
                            let mut g = sw.fail.lock();
                            if g.is_none() {
                                *g = Some((RocCase { profile, roc, s_l, probes }, f));
                            }
                            sw.stop.store(true, Ordering::Relaxed);
                        }
                    }
                }
            });
        }
    });
    sw
}

fn run_roc(ctx: &mut Ctx) -> bool {
    let all_profiles = [0u8, 1, 2, 3];
    if ctx.is_replay() {
        if let Some(c) = ctx.replay_case::<RocCase>("roc") {
            let t = roc_table(&[c.profile & 3], 6);
            ctx.run_one("roc", &c, &|c: &RocCase, rec: &CaseRec| check_roc_case(c, &t, rec));
        }
        return false;
    }
    let t = roc_table(&all_profiles, 6);
    for c in ctx.regression_cases::<RocCase>("roc") {
        ctx.run_one("roc", &c, &|c: &RocCase, rec: &CaseRec| check_roc_case(c, &t, rec));
    }
    let all_sl: Vec<u16> = (0..=65535u16).collect();
    let mut complete = true;
    let report = |ctx: &mut Ctx, sw: RocSweep, label: &str| -> bool {
        let e = sw.evals.load(Ordering::Relaxed);
        ctx.bulk("roc", e, e, &[(label, e)], Vec::new());
        let sk = sw.skipped.load(Ordering::Relaxed);
        if sk > 0 {
            ctx.bulk("roc", 0, 0, &[("roc:skipped-roc0-underflow", sk)], Vec::new());
        }
        if let Some((case, f)) = sw.fail.into_inner() {
            let v = serde_json::to_value(&case).unwrap();
            if ctx.is_known(&f.signature) {
                ctx.note_excluded(&f.signature, 1);
            } else {
                ctx.violation("roc", &v, &f);
            }
            return false;
        }
        true
    };

    // boundary set: every s_l x the sequence numbers around each Appendix A threshold
    for roc in [1u32, 0, 2] {
        let sw = roc_sweep(&t, roc, &all_profiles, &all_sl, &boundary_probes, true);
        let label = format!("roc:boundary@roc={roc}");
        complete &= report(ctx, sw, &label);
        if !complete {
            break;
        }
    }

    // random triples: two consecutive probes on the same clone also exercise the update rule
    if complete {
        let n_chunks = ctx.scale(500usize, 4000usize);
        let strat = prop::collection::vec(
            (any::<u16>(), prop_oneof![any::<u16>(), Just(0u16), Just(65535u16)], any::<u16>(), any::<u16>(), 0..3u32),
            4096,
        );
        let trees = ctx.draw("roc-random", n_chunks, &strat);
        let chunks: Vec<Vec<(u16, u16, u16, u16, u32)>> = trees.iter().map(|t| t.current()).collect();
        let sw = RocSweep { evals: AtomicU64::new(0), skipped: AtomicU64::new(0), stop: AtomicBool::new(false), fail: parking_lot::Mutex::new(None) };
        let next = AtomicU64::new(0);
        let threads = std::thread::available_parallelism().map(|x| x.get()).unwrap_or(8).min(16);
        std::thread::scope(|sc| {
            for _ in 0..threads {
                sc.spawn(|| loop {
                    let i = next.fetch_add(1, Ordering::Relaxed) as usize;
                    if i >= chunks.len() || sw.stop.load(Ordering::Relaxed) {
                        break;
                    }
                    for &(s_l, a, b2, c3, roc) in &chunks[i] {
                        let profile = (s_l % 4) as u8;
                        let probes = vec![a, b2, c3];
                        let res = roc_base(&t, profile, roc, s_l).and_then(|base| roc_probe(&t, &base, profile, roc, s_l, &probes));
                        match res {
                            Ok((d, s)) => {
                                sw.evals.fetch_add(d, Ordering::Relaxed);
                                sw.skipped.fetch_add(s, Ordering::Relaxed);
                            }
                            Err(f) => {
                                let mut g = sw.fail.lock();
                                if g.is_none() {
                                    *g = Some((RocCase { profile, roc, s_l, probes }, f));
                                }
                                sw.stop.store(true, Ordering::Relaxed);
                                break;
                            }
                        }
                    }
                });
            }
        });
        complete &= report(ctx, sw, "roc:random-triples");
    }

    // thorough: the complete (s_l, SEQ) pair space at ROC = 1
    let mut exhaustive_done = false;
    if complete && ctx.thorough() {
        let all = |_: u16| -> Vec<u16> { (0..=65535u16).collect() };
        let sw = roc_sweep(&t, 1, &all_profiles, &all_sl, &all, true);
        let e = sw.evals.load(Ordering::Relaxed);
        complete &= report(ctx, sw, "roc:exhaustive-pairs@roc=1");
        exhaustive_done = complete && e == 1u64 << 32;
    }
    ctx.set_extra("roc_pair_space_exhaustive_at_roc1", json!(exhaustive_done));
    ctx.set_extra("roc_sweeps_complete", json!(complete));
    ctx.bulk(
        "roc",
        0,
        0,
        &[],
        vec![json!({"roc": 1, "s_l": 65535, "probes": boundary_probes(65535)}), json!({"roc": 1, "s_l": 0, "probes": boundary_probes(0)})],
    );
    exhaustive_done
}

// ---------------------------------------------------------------------------------------------

pub fn run(ctx: &mut Ctx) {
    ctx.level = "exploration";
    ctx.rule = "rtp: proptest histories of <= 60 (thorough 120) packets over 1-4 SSRCs; each packet has marker/PT/CSRC 0-15/extension {none, RFC 8285 one-byte, two-byte, other profile, ill-formed 8285 bytes} up to 64 words/padding {0,1,..,255}/payload 0..1400; sender index steps {+1, +2..100, +1000..32767, -1..-200, 0} from (ROC 0, boundary-biased start SEQ), 'fast' histories cross 2^16 several times; delivery = send order perturbed by per-packet delay 0..30, loss, duplicates. Profiles x keys {zero, ones, random}. Non-trivial = history crosses 2^16, or is reordered (at the sender or in the network), or a packet has extension/CSRC/padding; distinct by digest. rtcp: histories of <= 40 compound RTCP packets over 1-4 SSRCs (header-only .. 340 words), perturbed delivery, foreign SRTCP index {0,1,2,2^31-1,2^31-2,random} and E-bit; every history counts as non-trivial (each one exercises the index sequence and the E-bit), distinct by digest. many: one session pair (and in 40% of cases one RtpTransport) carries 20..100 (mostly 33..100) SSRCs, i.e. more per-SSRC contexts than the session's 32-context high-water mark; 1-6 of the streams climb 1-3 wraps of 2^16 in strides of 9000..32767 while fresh SSRCs keep appearing (some first through SRTCP), then 10..50 (thorough 120) further RTP/RTCP packets mostly on the wrapped streams; all traffic is genuine and in order, every packet is judged like in rtp/rtcp (wire byte-identical to the model at the expected index, webrtc-srtp both ways, rustrtc receivers for rustrtc and model wire, SRTCP index sequence); non-trivial = a stream with ROC >= 1 sends after more than 32 SSRCs exist. roc: enumerated (ROC, s_l, SEQ) probes against clones of a receive context brought to (ROC, s_l): all 65536 s_l x the SEQ values within +/-2 of {s_l, s_l+2^15, 0, 2^15, 2^16-1} at ROC 0,1,2, plus generated (s_l, SEQ1, SEQ2, SEQ3, ROC) chains (the later probes exercise the state update), thorough: all 2^32 (s_l, SEQ) pairs at ROC 1 ('exhaustive' refers to this clause only); every probe counts, distinct by construction.".into();
    ctx.assumptions = vec![
        "master salt has exactly the profile's length (14, GCM 12) as every rustrtc caller passes it".into(),
        "acceptance of a genuine packet is required only when an RFC 3711 receiver (Appendix A estimate, ROC 0 at the first packet) would use the sender's rollover counter; verbatim duplicates may be accepted or rejected (rustrtc documents no replay list)".into(),
        "sender histories stay within (-2^15, +2^15) of the highest index already sent".into(),
        "NullCipherHmac is read as AES_CM_128_HMAC_SHA1_80 with the SRTP cipher NULL (RFC 4568 UNENCRYPTED_SRTP): SRTCP payload encryption follows the E-bit; webrtc-srtp has no NULL profile so only the own model is the reference there".into(),
        "many: all packets of a case are processed within far less than the 60 s idle time after which rustrtc may evict a per-SSRC context, so no eviction is legitimate and every packet must round-trip".into(),
        "SRTCP with E=0 from a foreign sender is exercised for the HMAC profiles only (rustrtc never negotiates unencrypted SRTCP)".into(),
        "webrtc-srtp tracks the last (not highest) index per SSRC, so its contexts are walked with model-protected filler packets whenever the next packet is more than 30000 away from the last one it saw; it is consulted only for packets whose header its RTP parser delimits like RFC 3550 (RFC 8285 well-formed or foreign profile)".into(),
    ];

    if let Err(e) = model::self_test() {
        ctx.violation("refmodel", &json!({"self_test": e}), &Fail::new("refmodel-self-test", format!("reference model known-answer test failed: {e}")));
        return;
    }

    let tolerate = ctx.is_known(SIG_SRTCP_TAG32);
    let env = RtcpEnv { tolerate_tag32: tolerate, steered: AtomicU64::new(0), gcm_e0: (AtomicU64::new(0), AtomicU64::new(0)) };

    let (n_rtp, max_steps) = ctx.scale((12_000u32, 60usize), (120_000u32, 120usize));
    let t0 = std::time::Instant::now();
    let tot = DeliveryTotals::default();
    ctx.sub("rtp", n_rtp, hist_strategy(max_steps, 1400), |c: &RtpHist, rec: &CaseRec| check_hist(c, rec, &tot));
    ctx.set_extra(
        "rtp_totals",
        json!({
            "packets_protected": tot.packets.load(Ordering::Relaxed),
            "deliveries_accepted_and_compared": tot.accepted.load(Ordering::Relaxed),
            "deliveries_outside_rfc_window_not_required": tot.rfc_rejects.load(Ordering::Relaxed),
            "packets_cross_checked_with_webrtc_srtp": tot.webrtc_compared.load(Ordering::Relaxed),
        }),
    );

    let t_rtp = t0.elapsed().as_secs_f64();
    let n_rtcp = ctx.scale(8000u32, 80_000u32);
    ctx.sub("rtcp", n_rtcp, rtcp_hist_strategy(), |c: &RtcpHist, rec: &CaseRec| check_rtcp(c, rec, &env));
    ctx.set_extra(
        "observation_gcm_srtcp_e0_from_foreign_sender",
        json!({"accepted": env.gcm_e0.0.load(Ordering::Relaxed), "rejected": env.gcm_e0.1.load(Ordering::Relaxed), "required": false}),
    );
    let steered = env.steered.load(Ordering::Relaxed);
    if steered > 0 {
        ctx.note_excluded(SIG_SRTCP_TAG32, steered);
    }

    // `exhaustive` refers to the rollover-estimation clause (all 2^32 (s_l, SEQ) pairs at ROC 1);
    // the packet/history sub-checks are samples in both tiers.
    let t_rtcp = t0.elapsed().as_secs_f64() - t_rtp;
    let mt = ManyTotals::default();
    let (n_many, max_after) = ctx.scale((700u32, 50usize), (14_000u32, 120usize));
    ctx.sub("many", n_many, many_strategy(max_after), |c: &ManyCase, rec: &CaseRec| check_many(c, rec, &mt));
    ctx.set_extra(
        "many_totals",
        json!({
            "cases_with_more_than_32_ssrcs_and_a_wrapped_stream_continuing": mt.over_mark_wrapped_continues.load(Ordering::Relaxed),
            "cases_with_more_than_32_ssrcs": mt.over_mark.load(Ordering::Relaxed),
            "packets": mt.packets.load(Ordering::Relaxed),
            "cases_also_through_transport": mt.transport_cases.load(Ordering::Relaxed),
        }),
    );
    let t_many = t0.elapsed().as_secs_f64() - t_rtp - t_rtcp;
    let exhaustive = run_roc(ctx);
    let t_roc = t0.elapsed().as_secs_f64() - t_rtp - t_rtcp - t_many;
    ctx.set_extra("wall_s_by_sub", json!({"rtp": t_rtp, "rtcp": t_rtcp, "many": t_many, "roc": t_roc}));
    if !ctx.is_replay() {
        ctx.set_exhaustive(exhaustive);
    }
}
