//! Counting global allocator (C07 "no allocation disproportionate to the input").
//!
//! Counters are per thread: every C07 case runs on its own OS thread with its own current-thread
//! tokio runtime, so all tasks of the stack under test (and nothing else) allocate on that thread
//! and concurrently running cases do not disturb each other's numbers. Kept cheap: three
//! thread-local `Cell` updates per call, no atomics, no locks.

use std::alloc::{GlobalAlloc, Layout, System};
use std::cell::Cell;

thread_local! {
    static LIVE: Cell<isize> = const { Cell::new(0) };
    static PEAK: Cell<isize> = const { Cell::new(0) };
    static CALLS: Cell<u64> = const { Cell::new(0) };
}

pub struct Counting;

#[inline]
fn add(n: usize) {
    let _ = LIVE.try_with(|l| {
        let v = l.get() + n as isize;
        l.set(v);
        let _ = PEAK.try_with(|p| {
            if v > p.get() {
                p.set(v);
            }
        });
    });
    let _ = CALLS.try_with(|c| c.set(c.get() + 1));
}

#[inline]
fn sub(n: usize) {
    let _ = LIVE.try_with(|l| l.set(l.get() - n as isize));
}

unsafe impl GlobalAlloc for Counting {
    unsafe fn alloc(&self, layout: Layout) -> *mut u8 {
        let p = unsafe { System.alloc(layout) };
        if !p.is_null() {
            add(layout.size());
        }
        p
    }
    unsafe fn alloc_zeroed(&self, layout: Layout) -> *mut u8 {
        let p = unsafe { System.alloc_zeroed(layout) };
        if !p.is_null() {
            add(layout.size());
        }
        p
    }
    unsafe fn dealloc(&self, ptr: *mut u8, layout: Layout) {
        unsafe { System.dealloc(ptr, layout) };
        sub(layout.size());
    }
    unsafe fn realloc(&self, ptr: *mut u8, layout: Layout, new_size: usize) -> *mut u8 {
        let p = unsafe { System.realloc(ptr, layout, new_size) };
        if !p.is_null() {
            if new_size >= layout.size() {
                add(new_size - layout.size());
            } else {
                sub(layout.size() - new_size);
            }
        }
        p
    }
}

/// Live bytes allocated by (and not yet freed on) the calling thread.
pub fn live() -> isize {
    LIVE.with(|l| l.get())
}

/// Highest value of `live()` on this thread since the last `reset_peak()`.
pub fn peak() -> isize {
    PEAK.with(|p| p.get())
}

pub fn reset_peak() {
    let v = live();
    PEAK.with(|p| p.set(v));
}

pub fn calls() -> u64 {
    CALLS.with(|c| c.get())
}

/// True when the counting allocator is installed as the global allocator of this binary.
pub fn installed() -> bool {
    let c0 = calls();
    let v = std::hint::black_box(vec![0u8; 4096]);
    let c1 = calls();
    drop(v);
    c1 > c0
}
