//! C07 layer `udptl`: datagrams to a live `UdtlTransport::recv`.

use super::{AllocWatch, Out, Progress, STEP_MS, small_bytes};
use crate::engine::Fail;
use proptest::prelude::*;
use rustrtc::{UdtlConfig, UdtlReceiveBuffer, UdtlTransport};
use serde::{Deserialize, Serialize};
use std::sync::Arc;
use std::time::Duration;
use tokio::net::UdpSocket;

#[derive(Clone, Debug, Serialize, Deserialize)]
pub enum UIn {
    /// seq, declared primary length, primary bytes, redundant (declared len, bytes), trailing garbage
    Pkt {
        seq: u16,
        plen: Option<u16>,
        #[serde(with = "crate::engine::hexbytes")]
        primary: Vec<u8>,
        red: Vec<(Option<u16>, Vec<u8>)>,
        #[serde(with = "crate::engine::hexbytes")]
        tail: Vec<u8>,
    },
    Raw(#[serde(with = "crate::engine::hexbytes")] Vec<u8>),
}

#[derive(Clone, Debug, Serialize, Deserialize)]
pub struct UCase {
    pub max_datagram: u16,
    pub max_buffer: u16,
    pub inputs: Vec<UIn>,
}

fn uin() -> BoxedStrategy<UIn> {
    let seq = prop_oneof![3 => 0u16..40, 1 => super::edge_u16()];
    prop_oneof![
        6 => (
            seq,
            prop::option::weighted(0.4, super::edge_u16()),
            small_bytes(300),
            prop::collection::vec((prop::option::weighted(0.4, super::edge_u16()), small_bytes(60)), 0..4),
            small_bytes(8)
        )
            .prop_map(|(seq, plen, primary, red, tail)| UIn::Pkt { seq, plen, primary, red, tail }),
        1 => prop::collection::vec(any::<u8>(), 0..6).prop_map(UIn::Raw),
        1 => prop::collection::vec(any::<u8>(), 0..2000).prop_map(UIn::Raw),
    ]
    .boxed()
}

pub fn strategy() -> BoxedStrategy<UCase> {
    (prop::sample::select(vec![1400u16, 1400, 1400, 4, 3, 2, 1, 0, 65535]), prop::sample::select(vec![128u16, 128, 0, 1, 2]), super::seq_of(uin()))
        .prop_map(|(max_datagram, max_buffer, inputs)| UCase { max_datagram, max_buffer, inputs })
        .boxed()
}

fn bytes_of(i: &UIn) -> Vec<u8> {
    match i {
        UIn::Raw(b) => b.clone(),
        UIn::Pkt { seq, plen, primary, red, tail } => {
            let mut v = seq.to_be_bytes().to_vec();
            v.extend_from_slice(&plen.unwrap_or(primary.len() as u16).to_be_bytes());
            v.extend_from_slice(primary);
            for (l, b) in red {
                v.extend_from_slice(&l.unwrap_or(b.len() as u16).to_be_bytes());
                v.extend_from_slice(b);
            }
            v.extend_from_slice(tail);
            v
        }
    }
}

pub async fn drive(case: UCase, prog: Arc<Progress>) -> Out {
    let mut out = Out::new();
    prog.step("setup", 10_000);
    let sock = Arc::new(UdpSocket::bind("127.0.0.1:0").await.expect("bind"));
    let me = UdpSocket::bind("127.0.0.1:0").await.expect("bind");
    let dst = sock.local_addr().unwrap();
    let cfg = UdtlConfig { redundancy_depth: 2, max_buffer: case.max_buffer, max_datagram: case.max_datagram };
    let t = UdtlTransport::with_config(sock, me.local_addr().unwrap(), cfg);
    let mut rb = UdtlReceiveBuffer::with_max_size(case.max_buffer);
    out.label(format!("udptl:max_datagram={}", case.max_datagram));
    let mut aw = AllocWatch::start("udptl");
    for (k, i) in case.inputs.iter().enumerate() {
        let b = bytes_of(i);
        if b.len() >= 4 && 4 + u16::from_be_bytes([b[2], b[3]]) as usize <= b.len() {
            out.nontrivial = true;
            out.label("udptl:primary-fits");
        } else {
            out.label("udptl:malformed");
        }
        prog.step("UdtlTransport::recv", STEP_MS);
        let _ = me.send_to(&b, dst).await;
        aw.before();
        let r = tokio::time::timeout(Duration::from_millis(STEP_MS), t.recv(&mut rb)).await;
        if let Err(f) = aw.after(b.len().max(case.max_datagram as usize), &|| format!("input {k}")) {
            out.fail(f);
            return out;
        }
        if r.is_err() {
            out.fail(Fail::timing("hang:udptl:recv", format!("recv did not return for input {k} ({} bytes)", b.len())));
            return out;
        }
        if let Some(p) = super::my_panics().first() {
            out.fail(super::panic_fail("udptl", &format!("input {k}"), p));
            return out;
        }
        let _ = rb.buffered_count();
    }
    // liveness: the next in-order datagram is delivered (when the configuration can hold it)
    prog.step("probe", STEP_MS + 500);
    let exp = rb.expected_seq();
    let mut probe = exp.to_be_bytes().to_vec();
    probe.extend_from_slice(&[0, 3, 7, 7, 7]);
    let _ = me.send_to(&probe, dst).await;
    match tokio::time::timeout(super::PROBE, t.recv(&mut rb)).await {
        Ok(Ok(Some(d))) if d == vec![7, 7, 7] => out.label("udptl:probe-delivered"),
        Ok(Ok(other)) => {
            if (case.max_datagram as usize) < probe.len() {
                out.label("udptl:probe-truncated-by-config");
            } else {
                out.fail(Fail::new("dead:udptl", format!("genuine in-order datagram seq {exp} not delivered: {:?}", other.map(|d| d.len()))));
            }
        }
        Ok(Err(e)) => out.fail(Fail::new("dead:udptl", format!("recv error on the genuine probe: {e}"))),
        Err(_) => out.fail(Fail::timing("hang:udptl:probe", "genuine probe not answered within 2 s".to_string())),
    }
    aw.finish(&mut out);
    out
}
