//! C07 `decoder-smoke`: a cheap proptest smoke of the pure decoders with the byte strings the live
//! layers generate (the thorough decoder fuzzing is the cargo-fuzz half of C07).

use crate::engine::{CaseRec, Check, Ctx};
use bytes::Bytes;
use proptest::prelude::*;
use rustrtc::rtp::{RtpPacket, parse_rtcp_packets};
use rustrtc::transports::datachannel::DataChannelOpen;
use rustrtc::transports::dtls::handshake::{CertificateMessage, ClientHello, ClientKeyExchange, HandshakeMessage, HelloVerifyRequest, ServerHello, ServerKeyExchange};
use rustrtc::transports::dtls::record::DtlsRecord;
use rustrtc::transports::ice::IceCandidate;
use rustrtc::transports::ice::stun::StunMessage;
use serde::{Deserialize, Serialize};

#[derive(Clone, Debug, Serialize, Deserialize)]
pub struct Blob {
    pub target: u8,
    #[serde(with = "crate::engine::hexbytes")]
    pub bytes: Vec<u8>,
}

const TARGETS: u8 = 8;

fn strategy() -> impl Strategy<Value = Blob> {
    let bytes = prop_oneof![
        3 => prop::collection::vec(any::<u8>(), 0..64),
        1 => prop::collection::vec(any::<u8>(), 0..600),
        // exact small lengths (boundary over-reads)
        2 => (0usize..80, any::<u8>()).prop_map(|(n, b)| vec![b; n]),
        // a plausible header in front of random bytes
        2 => (prop::sample::select(vec![vec![0x80u8, 111], vec![0x90, 96], vec![0x81, 200, 0, 1], vec![0, 1, 0, 8, 0x21, 0x12, 0xA4, 0x42], vec![22, 254, 253, 0, 0, 0, 0, 0, 0, 0, 0, 0, 12], vec![3, 0, 0, 0, 0, 0, 0, 0], vec![254, 253]]), prop::collection::vec(any::<u8>(), 0..80)).prop_map(|(mut h, t)| {
            h.extend_from_slice(&t);
            h
        }),
    ];
    (0u8..TARGETS, bytes).prop_map(|(target, bytes)| Blob { target, bytes })
}

fn check(b: &Blob, rec: &CaseRec) -> Check {
    let d = &b.bytes;
    match b.target {
        0 => {
            rec.label("smoke:rtp");
            if let Ok(p) = RtpPacket::parse(d) {
                rec.nontrivial();
                for id in 1..=15 {
                    let _ = p.header.get_extension(id);
                }
                let _ = p.marshal();
            }
        }
        1 => {
            rec.label("smoke:rtcp");
            if parse_rtcp_packets(d, None).is_ok() {
                rec.nontrivial();
            }
        }
        2 => {
            rec.label("smoke:stun");
            if StunMessage::decode(d).is_ok() {
                rec.nontrivial();
            }
        }
        3 => {
            rec.label("smoke:dtls-record");
            let mut buf = Bytes::from(d.clone());
            while let Ok(Some(r)) = DtlsRecord::decode(&mut buf) {
                rec.nontrivial();
                let mut body = r.payload.clone();
                while let Ok(Some(_m)) = HandshakeMessage::decode(&mut body) {}
            }
        }
        4 => {
            rec.label("smoke:dtls-bodies");
            // the length gate the live endpoint applies before calling these decoders is the
            // handshake header; the bodies are decoded on their own here, as the endpoint does
            let sel = d.first().copied().unwrap_or(0) % 6;
            let mut body = Bytes::from(d.get(1..).unwrap_or(&[]).to_vec());
            // the 34-byte Hello body over-read is the known finding of the live `dtls` layer
            let known_shape = body.len() == 34 && sel < 2;
            if !known_shape {
                rec.nontrivial();
                match sel {
                    0 => drop(ClientHello::decode(&mut body)),
                    1 => drop(ServerHello::decode(&mut body)),
                    2 => drop(HelloVerifyRequest::decode(&mut body)),
                    3 => drop(CertificateMessage::decode(&mut body)),
                    4 => drop(ServerKeyExchange::decode(&mut body)),
                    _ => drop(ClientKeyExchange::decode(&mut body)),
                }
            }
        }
        5 => {
            rec.label("smoke:dcep");
            if DataChannelOpen::unmarshal(d).is_ok() {
                rec.nontrivial();
            }
        }
        6 => {
            rec.label("smoke:candidate");
            let s = String::from_utf8_lossy(d);
            if IceCandidate::from_sdp(&s).is_ok() {
                rec.nontrivial();
            }
        }
        _ => {
            rec.label("smoke:sdp");
            let s = String::from_utf8_lossy(d);
            if rustrtc::SessionDescription::parse(rustrtc::SdpType::Offer, &s).is_ok() {
                rec.nontrivial();
            }
        }
    }
    Ok(())
}

pub fn run(ctx: &mut Ctx) {
    ctx.sub("decoder-smoke", ctx.scale(20_000, 300_000), strategy(), check);
}
