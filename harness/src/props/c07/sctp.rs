//! C07 layer `sctp`: SCTP packets with a VALID CRC32c, sealed as DTLS application records with the
//! session keys, injected into a live association (IceConn + DTLS + SctpTransport) in every state.

use super::{AllocWatch, Mut, Out, Progress, STEP_MS, apply_all, edge_u16, edge_u32, mut_strategy, settle, small_bytes};
use crate::engine::{Fail, pick};
use crate::net::fault::Side;
use crate::net::rig::{Pair, PairSpec, SctpSide};
use crate::net::wire::{self, SClass};
use bytes::Bytes;
use parking_lot::Mutex;
use proptest::prelude::*;
use rustrtc::RtcConfiguration;
use rustrtc::transports::PacketReceiver;
use rustrtc::transports::dtls::{DtlsState, DtlsTransport};
use rustrtc::transports::sctp::{DataChannel, DataChannelConfig};
use serde::{Deserialize, Serialize};
use std::net::SocketAddr;
use std::sync::Arc;
use std::sync::atomic::{AtomicBool, AtomicU64, Ordering};
use std::time::Duration;

// ---------------------------------------------------------------- gate that sees SCTP in the clear

pub struct SGate {
    inner: Arc<DtlsTransport>,
    /// the sender of the datagrams arriving here is the DTLS client
    sender_is_client: bool,
    hold: Mutex<Vec<SClass>>,
    pub plain: Mutex<Vec<Vec<u8>>>,
    pub capture: AtomicBool,
    pub injecting: AtomicBool,
    pub held: AtomicU64,
    pub seen: AtomicU64,
    /// HEARTBEAT-ACK carrying exactly this info was seen
    pub hb_watch: Mutex<Option<Vec<u8>>>,
    pub hb_seen: AtomicBool,
}

fn keys_of(d: &DtlsTransport, client_write: bool) -> Option<(Vec<u8>, Vec<u8>)> {
    if let DtlsState::Connected(c, _) = d.get_state() {
        Some(if client_write { (c.keys.client_write_key.clone(), c.keys.client_write_iv.clone()) } else { (c.keys.server_write_key.clone(), c.keys.server_write_iv.clone()) })
    } else {
        None
    }
}

#[async_trait::async_trait]
impl PacketReceiver for SGate {
    async fn receive(&self, packet: Bytes, addr: SocketAddr, buf: &mut Vec<u8>) {
        if self.injecting.load(Ordering::Relaxed) {
            self.inner.receive(packet, addr, buf).await;
            return;
        }
        self.seen.fetch_add(1, Ordering::Relaxed);
        let mut class = None;
        if packet.first() == Some(&23) {
            if let Some((k, iv)) = keys_of(&self.inner, self.sender_is_client) {
                for r in wire::dtls_records(&packet) {
                    if r.content_type == 23 && r.epoch > 0 {
                        if let Some(p) = wire::dtls_open(&k, &iv, &r) {
                            if let Some(pk) = wire::sctp_parse(&p) {
                                class = Some(wire::sctp_class(&pk));
                                if let Some(w) = self.hb_watch.lock().as_ref() {
                                    if pk.chunks.iter().any(|c| c.ctype == wire::CT_HEARTBEAT_ACK && &c.value == w) {
                                        self.hb_seen.store(true, Ordering::Relaxed);
                                    }
                                }
                            }
                            if self.capture.load(Ordering::Relaxed) {
                                let mut l = self.plain.lock();
                                if l.len() < 40 {
                                    l.push(p);
                                }
                            }
                        }
                    }
                }
            }
        }
        if let Some(c) = class {
            if self.hold.lock().contains(&c) {
                self.held.fetch_add(1, Ordering::Relaxed);
                return;
            }
        }
        self.inner.receive(packet, addr, buf).await;
    }
}

fn sgate(dtls: &Arc<DtlsTransport>, sender_is_client: bool, hold: Vec<SClass>) -> Arc<SGate> {
    Arc::new(SGate {
        inner: dtls.clone(),
        sender_is_client,
        hold: Mutex::new(hold),
        plain: Mutex::new(Vec::new()),
        capture: AtomicBool::new(true),
        injecting: AtomicBool::new(false),
        held: AtomicU64::new(0),
        seen: AtomicU64::new(0),
        hb_watch: Mutex::new(None),
        hb_seen: AtomicBool::new(false),
    })
}

// ---------------------------------------------------------------- case

#[derive(Clone, Copy, Debug, PartialEq, Eq, Serialize, Deserialize)]
pub enum SState {
    /// the client's INIT never reaches the server: server is before INIT, client in COOKIE-WAIT
    Init,
    /// the client's COOKIE-ECHO never reaches the server: client in COOKIE-ECHOED
    CookieEchoed,
    /// association up, channel open, messages flowing both ways during the sequence
    Established,
    /// close() on the target's (true) / the peer's (false) SctpTransport before the sequence
    Closed(bool),
}

#[derive(Clone, Debug, Serialize, Deserialize)]
pub enum Tsn {
    /// relative to the next TSN the impersonated sender would use
    SenderNext(i32),
    /// relative to the target's own next TSN (for acks)
    TargetNext(i32),
    Abs(u32),
}

#[derive(Clone, Debug, Serialize, Deserialize)]
pub enum Dcep {
    Open { mtype: u8, ctype: u8, prio: u16, rel: u32, label_decl: Option<u16>, proto_decl: Option<u16>, #[serde(with = "crate::engine::hexbytes")] label: Vec<u8>, #[serde(with = "crate::engine::hexbytes")] proto: Vec<u8>, cut: Option<u8> },
    Raw(#[serde(with = "crate::engine::hexbytes")] Vec<u8>),
}

#[derive(Clone, Debug, Serialize, Deserialize)]
pub enum Chunk {
    Raw { ctype: u8, flags: u8, #[serde(with = "crate::engine::hexbytes")] value: Vec<u8> },
    Init { ack: bool, tag: u32, rwnd: u32, os: u16, is: u16, tsn: Tsn, params: Vec<(u16, Option<u16>, Vec<u8>)>, cut: Option<u8> },
    Sack { cum: Tsn, rwnd: u32, gaps_decl: Option<u16>, dups_decl: Option<u16>, gaps: Vec<(u16, u16)>, dups: Vec<u32> },
    Data { flags: u8, tsn: Tsn, stream: u16, ssn: u16, ppid: u32, #[serde(with = "crate::engine::hexbytes")] payload: Vec<u8> },
    DataDcep { flags: u8, tsn: Tsn, stream: u16, ssn: u16, body: Dcep },
    Fwd { cum: Tsn, streams: Vec<(u16, u16)>, odd: u8 },
    Reconfig { params: Vec<(u16, Option<u16>, Vec<u8>)>, cut: Option<u8> },
    Abort,
    Shutdown { cum: Tsn },
    ShutdownAck,
    CookieEcho { genuine: bool, #[serde(with = "crate::engine::hexbytes")] cookie: Vec<u8> },
    CookieAck,
    Heartbeat { #[serde(with = "crate::engine::hexbytes")] info: Vec<u8> },
}

#[derive(Clone, Debug, Serialize, Deserialize)]
pub enum SIn {
    Pkt {
        vtag: Option<u32>,
        /// (chunk, declared length override)
        chunks: Vec<(Chunk, Option<u16>)>,
        #[serde(with = "crate::engine::hexbytes")]
        tail: Vec<u8>,
        bad_crc: bool,
    },
    /// a genuine packet of this association (decrypted at the gate), mutated, CRC fixed, sealed again
    Mutate { src: u16, ops: Vec<Mut>, fix_crc: bool },
}

#[derive(Clone, Debug, Serialize, Deserialize)]
pub struct SCase {
    pub state: SState,
    pub target_client: bool,
    pub tsn_a: u32,
    pub tsn_b: u32,
    pub inputs: Vec<SIn>,
    pub calib: bool,
}

fn tsn() -> BoxedStrategy<Tsn> {
    prop_oneof![
        5 => prop_oneof![3 => -2i32..6, 1 => prop::sample::select(vec![100i32, 511, 512, 513, 4096, 65535, 65536, 0x7FFF_FFFE, 0x7FFF_FFFF, i32::MIN, -65536])].prop_map(Tsn::SenderNext),
        2 => (-3i32..4).prop_map(Tsn::TargetNext),
        2 => edge_u32().prop_map(Tsn::Abs),
    ]
    .boxed()
}

fn params(types: &'static [u16]) -> BoxedStrategy<Vec<(u16, Option<u16>, Vec<u8>)>> {
    prop::collection::vec((prop_oneof![4 => prop::sample::select(types.to_vec()), 1 => any::<u16>()], prop::option::weighted(0.35, edge_u16()), small_bytes(40)), 0..6).boxed()
}

fn dcep() -> BoxedStrategy<Dcep> {
    prop_oneof![
        5 => (
            (prop_oneof![5 => Just(3u8), 1 => Just(2u8), 1 => any::<u8>()], prop::sample::select(vec![0u8, 1, 2, 0x80, 0x81, 0x82, 3, 0xff]), any::<u16>(), edge_u32()),
            (prop::option::weighted(0.4, edge_u16()), prop::option::weighted(0.4, edge_u16())),
            (prop_oneof![3 => "[a-z]{0,12}".prop_map(|s| s.into_bytes()), 1 => small_bytes(20), 1 => Just(vec![0xff, 0xfe, 0xc0])], prop_oneof![3 => "[a-z]{0,6}".prop_map(|s| s.into_bytes()), 1 => small_bytes(10), 1 => Just(vec![0xc3])]),
            prop::option::weighted(0.2, 0u8..16)
        )
            .prop_map(|((mtype, ctype, prio, rel), (label_decl, proto_decl), (label, proto), cut)| Dcep::Open { mtype, ctype, prio, rel, label_decl, proto_decl, label, proto, cut }),
        2 => small_bytes(24).prop_map(Dcep::Raw),
    ]
    .boxed()
}

fn chunk() -> BoxedStrategy<Chunk> {
    let stream = prop_oneof![4 => Just(1u16), 2 => 0u16..4, 1 => edge_u16()];
    let stream2 = prop_oneof![4 => Just(1u16), 2 => 0u16..4, 1 => edge_u16()];
    prop_oneof![
        3 => (prop_oneof![3 => prop::sample::select(vec![0u8, 1, 2, 3, 4, 5, 6, 7, 8, 9, 10, 11, 12, 13, 14, 15, 63, 64, 128, 129, 130, 131, 192, 193, 255]), 1 => any::<u8>()], any::<u8>(), small_bytes(48)).prop_map(|(ctype, flags, value)| Chunk::Raw { ctype, flags, value }),
        3 => ((any::<bool>(), edge_u32(), edge_u32(), edge_u16(), edge_u16()), tsn(), params(&[7, 5, 6, 9, 11, 12, 0x8000, 0x8002, 0x8003, 0x8004, 0x8008, 0xC000, 0xC006]), prop::option::weighted(0.25, 0u8..40))
            .prop_map(|((ack, tag, rwnd, os, is), tsn, params, cut)| Chunk::Init { ack, tag, rwnd, os, is, tsn, params, cut }),
        4 => (tsn(), edge_u32(), prop::option::weighted(0.4, edge_u16()), prop::option::weighted(0.4, edge_u16()), prop::collection::vec((edge_u16(), edge_u16()), 0..6), prop::collection::vec(edge_u32(), 0..4))
            .prop_map(|(cum, rwnd, gaps_decl, dups_decl, gaps, dups)| Chunk::Sack { cum, rwnd, gaps_decl, dups_decl, gaps, dups }),
        5 => (0u8..16, tsn(), stream, prop_oneof![3 => 0u16..4, 1 => edge_u16()], prop_oneof![3 => prop::sample::select(vec![51u32, 53, 56, 57, 54, 0, 50]), 1 => edge_u32()], small_bytes(64))
            .prop_map(|(flags, tsn, stream, ssn, ppid, payload)| Chunk::Data { flags, tsn, stream, ssn, ppid, payload }),
        5 => (prop_oneof![3 => Just(3u8), 1 => 0u8..16], tsn(), stream2, prop_oneof![3 => 0u16..4, 1 => edge_u16()], dcep()).prop_map(|(flags, tsn, stream, ssn, body)| Chunk::DataDcep { flags, tsn, stream, ssn, body }),
        3 => (tsn(), prop::collection::vec((prop_oneof![3 => Just(1u16), 1 => edge_u16()], edge_u16()), 0..5), 0u8..4).prop_map(|(cum, streams, odd)| Chunk::Fwd { cum, streams, odd }),
        3 => (params(&[13, 14, 15, 16, 17, 18]), prop::option::weighted(0.3, 0u8..24)).prop_map(|(params, cut)| Chunk::Reconfig { params, cut }),
        1 => Just(Chunk::Abort),
        1 => tsn().prop_map(|cum| Chunk::Shutdown { cum }),
        1 => Just(Chunk::ShutdownAck),
        2 => (any::<bool>(), small_bytes(40)).prop_map(|(genuine, cookie)| Chunk::CookieEcho { genuine, cookie }),
        1 => Just(Chunk::CookieAck),
        1 => small_bytes(24).prop_map(|info| Chunk::Heartbeat { info }),
    ]
    .boxed()
}

fn sin() -> BoxedStrategy<SIn> {
    prop_oneof![
        8 => (prop::option::weighted(0.2, edge_u32()), prop::collection::vec((chunk(), prop::option::weighted(0.3, edge_u16())), 1..4), prop_oneof![4 => Just(Vec::new()), 1 => small_bytes(7)], prop::bool::weighted(0.03))
            .prop_map(|(vtag, chunks, tail, bad_crc)| SIn::Pkt { vtag, chunks, tail, bad_crc }),
        2 => (any::<u16>(), prop::collection::vec(mut_strategy(&[(12, 1), (13, 1), (14, 2), (16, 2), (18, 2), (20, 2), (24, 2), (26, 2), (28, 2), (30, 2)]), 1..4), prop::bool::weighted(0.9)).prop_map(|(src, ops, fix_crc)| SIn::Mutate { src, ops, fix_crc }),
    ]
    .boxed()
}

pub fn strategy() -> BoxedStrategy<SCase> {
    let state = prop_oneof![2 => Just(SState::Init), 2 => Just(SState::CookieEchoed), 5 => Just(SState::Established), 1 => any::<bool>().prop_map(SState::Closed)];
    let t = prop::sample::select(vec![100u32, 0, 0xFFFF_FFF0, 0x7FFF_FFF8, 0xFFFF_FE00]);
    let t2 = prop::sample::select(vec![5000u32, 0, 0xFFFF_FFF0, 0x7FFF_FFF8, 1]);
    (state, any::<bool>(), t, t2, super::seq_of(sin()), prop::bool::weighted(0.05), prop::bool::weighted(0.8))
        .prop_map(|(state, target_client, tsn_a, tsn_b, mut inputs, calib, closers_last)| {
            if closers_last {
                // ABORT / SHUTDOWN-ACK end the association: most sequences keep them for the end so that the
                // other inputs meet a live association
                let (mut live, closing): (Vec<SIn>, Vec<SIn>) = inputs.into_iter().partition(|i| !is_closing(i));
                live.extend(closing);
                inputs = live;
            }
            SCase { state, target_client, tsn_a, tsn_b, inputs, calib }
        })
        .boxed()
}

fn is_closing(i: &SIn) -> bool {
    match i {
        SIn::Pkt { chunks, .. } => chunks.iter().any(|(c, _)| matches!(c, Chunk::Abort | Chunk::ShutdownAck | Chunk::Raw { ctype: 6 | 8, .. })),
        _ => false,
    }
}

// ---------------------------------------------------------------- builders

struct TsnCtx {
    sender_next: u32,
    target_next: u32,
}

fn tsn_of(t: &Tsn, c: &TsnCtx) -> u32 {
    match t {
        Tsn::SenderNext(d) => c.sender_next.wrapping_add(*d as u32),
        Tsn::TargetNext(d) => c.target_next.wrapping_add(*d as u32),
        Tsn::Abs(v) => *v,
    }
}

fn tlv(list: &[(u16, Option<u16>, Vec<u8>)]) -> Vec<u8> {
    let mut v = Vec::new();
    for (t, l, d) in list {
        v.extend_from_slice(&t.to_be_bytes());
        v.extend_from_slice(&l.unwrap_or(d.len() as u16 + 4).to_be_bytes());
        v.extend_from_slice(d);
        while v.len() % 4 != 0 {
            v.push(0);
        }
    }
    v
}

fn dcep_bytes(d: &Dcep) -> Vec<u8> {
    match d {
        Dcep::Raw(v) => v.clone(),
        Dcep::Open { mtype, ctype, prio, rel, label_decl, proto_decl, label, proto, cut } => {
            let mut v = vec![*mtype, *ctype];
            v.extend_from_slice(&prio.to_be_bytes());
            v.extend_from_slice(&rel.to_be_bytes());
            v.extend_from_slice(&label_decl.unwrap_or(label.len() as u16).to_be_bytes());
            v.extend_from_slice(&proto_decl.unwrap_or(proto.len() as u16).to_be_bytes());
            v.extend_from_slice(label);
            v.extend_from_slice(proto);
            if let Some(c) = cut {
                v.truncate(*c as usize);
            }
            v
        }
    }
}

fn chunk_bytes(c: &Chunk, t: &TsnCtx, genuine_cookie: &Option<Vec<u8>>) -> (u8, u8, Vec<u8>) {
    match c {
        Chunk::Raw { ctype, flags, value } => (*ctype, *flags, value.clone()),
        Chunk::Init { ack, tag, rwnd, os, is, tsn, params, cut } => {
            let mut v = tag.to_be_bytes().to_vec();
            v.extend_from_slice(&rwnd.to_be_bytes());
            v.extend_from_slice(&os.to_be_bytes());
            v.extend_from_slice(&is.to_be_bytes());
            v.extend_from_slice(&tsn_of(tsn, t).to_be_bytes());
            v.extend_from_slice(&tlv(params));
            if let Some(c) = cut {
                v.truncate(*c as usize);
            }
            (if *ack { 2 } else { 1 }, 0, v)
        }
        Chunk::Sack { cum, rwnd, gaps_decl, dups_decl, gaps, dups } => {
            let mut v = tsn_of(cum, t).to_be_bytes().to_vec();
            v.extend_from_slice(&rwnd.to_be_bytes());
            v.extend_from_slice(&gaps_decl.unwrap_or(gaps.len() as u16).to_be_bytes());
            v.extend_from_slice(&dups_decl.unwrap_or(dups.len() as u16).to_be_bytes());
            for (a, b) in gaps {
                v.extend_from_slice(&a.to_be_bytes());
                v.extend_from_slice(&b.to_be_bytes());
            }
            for d in dups {
                v.extend_from_slice(&d.to_be_bytes());
            }
            (3, 0, v)
        }
        Chunk::Data { flags, tsn, stream, ssn, ppid, payload } => {
            let mut v = tsn_of(tsn, t).to_be_bytes().to_vec();
            v.extend_from_slice(&stream.to_be_bytes());
            v.extend_from_slice(&ssn.to_be_bytes());
            v.extend_from_slice(&ppid.to_be_bytes());
            v.extend_from_slice(payload);
            (0, *flags, v)
        }
        Chunk::DataDcep { flags, tsn, stream, ssn, body } => {
            let mut v = tsn_of(tsn, t).to_be_bytes().to_vec();
            v.extend_from_slice(&stream.to_be_bytes());
            v.extend_from_slice(&ssn.to_be_bytes());
            v.extend_from_slice(&50u32.to_be_bytes());
            v.extend_from_slice(&dcep_bytes(body));
            (0, *flags, v)
        }
        Chunk::Fwd { cum, streams, odd } => {
            let mut v = tsn_of(cum, t).to_be_bytes().to_vec();
            for (s, n) in streams {
                v.extend_from_slice(&s.to_be_bytes());
                v.extend_from_slice(&n.to_be_bytes());
            }
            v.extend(std::iter::repeat_n(0xEEu8, *odd as usize));
            (192, 0, v)
        }
        Chunk::Reconfig { params, cut } => {
            let mut v = tlv(params);
            if let Some(c) = cut {
                v.truncate(*c as usize);
            }
            (130, 0, v)
        }
        Chunk::Abort => (6, 0, vec![]),
        Chunk::Shutdown { cum } => (7, 0, tsn_of(cum, t).to_be_bytes().to_vec()),
        Chunk::ShutdownAck => (8, 0, vec![]),
        Chunk::CookieEcho { genuine, cookie } => (10, 0, if *genuine { genuine_cookie.clone().unwrap_or(cookie.clone()) } else { cookie.clone() }),
        Chunk::CookieAck => (11, 0, vec![]),
        Chunk::Heartbeat { info } => (4, 0, info.clone()),
    }
}

fn fix_crc(p: &mut [u8]) {
    if p.len() >= 12 {
        p[8..12].copy_from_slice(&[0; 4]);
        let c = wire::crc32c(p);
        p[8..12].copy_from_slice(&c.to_le_bytes());
    }
}

fn packet_bytes(i: &SIn, t: &TsnCtx, vtag: u32, genuine: &[Vec<u8>], cookie: &Option<Vec<u8>>, calib: bool) -> (Vec<u8>, bool, &'static str) {
    let g = |idx: u16| -> Vec<u8> {
        if genuine.is_empty() { wire::sctp_build(5000, 5000, vtag, &[(4, 0, vec![0, 1, 0, 8, 1, 2, 3, 4])]) } else { genuine[pick(idx, genuine.len())].clone() }
    };
    if calib {
        // genuine traffic only: a well-formed HEARTBEAT, or a replay of a captured packet
        return match i {
            SIn::Mutate { src, .. } => (g(*src), true, "genuine"),
            _ => (wire::sctp_build(5000, 5000, vtag, &[(4, 0, vec![0, 1, 0, 8, 9, 9, 9, 9])]), true, "genuine"),
        };
    }
    match i {
        SIn::Mutate { src, ops, fix_crc: fix } => {
            let mut v = apply_all(&g(*src), ops);
            if *fix {
                fix_crc(&mut v);
            }
            let ok = v.len() >= 12 && *fix;
            (v, ok, "mutate")
        }
        SIn::Pkt { vtag: vt, chunks, tail, bad_crc } => {
            let honest: Vec<(u8, u8, Vec<u8>)> = chunks.iter().map(|(c, _)| chunk_bytes(c, t, cookie)).collect();
            let mut p = wire::sctp_build(5000, 5000, vt.unwrap_or(vtag), &honest);
            // hostile declared chunk lengths
            let mut off = 12;
            for (k, (_c, decl)) in chunks.iter().enumerate() {
                let l = honest[k].2.len() + 4;
                if let Some(d) = decl {
                    if off + 4 <= p.len() {
                        p[off + 2..off + 4].copy_from_slice(&d.to_be_bytes());
                    }
                }
                off += (l + 3) & !3;
            }
            p.extend_from_slice(tail);
            p.truncate(16_000);
            fix_crc(&mut p);
            if *bad_crc {
                p[8] ^= 0x55;
            }
            (p, !*bad_crc, "grammar")
        }
    }
}

fn chunk_kind(i: &SIn) -> Vec<&'static str> {
    match i {
        SIn::Mutate { .. } => vec!["mutate"],
        SIn::Pkt { chunks, .. } => chunks
            .iter()
            .map(|(c, _)| match c {
                Chunk::Raw { .. } => "raw",
                Chunk::Init { ack: false, .. } => "init",
                Chunk::Init { ack: true, .. } => "init-ack",
                Chunk::Sack { .. } => "sack",
                Chunk::Data { .. } => "data",
                Chunk::DataDcep { .. } => "dcep",
                Chunk::Fwd { .. } => "forward-tsn",
                Chunk::Reconfig { .. } => "reconfig",
                Chunk::Abort => "abort",
                Chunk::Shutdown { .. } => "shutdown",
                Chunk::ShutdownAck => "shutdown-ack",
                Chunk::CookieEcho { .. } => "cookie-echo",
                Chunk::CookieAck => "cookie-ack",
                Chunk::Heartbeat { .. } => "heartbeat",
            })
            .collect(),
    }
}

// ---------------------------------------------------------------- driver

async fn wait_until(limit: Duration, mut cond: impl FnMut() -> bool) -> bool {
    let deadline = tokio::time::Instant::now() + limit;
    loop {
        if cond() {
            return true;
        }
        if tokio::time::Instant::now() >= deadline {
            return false;
        }
        tokio::time::sleep(Duration::from_millis(2)).await;
    }
}

fn cfg() -> RtcConfiguration {
    let mut c = RtcConfiguration::default();
    c.sctp_rto_initial = Duration::from_millis(150);
    c.sctp_rto_min = Duration::from_millis(80);
    c.sctp_rto_max = Duration::from_millis(600);
    c
}

fn chan() -> Arc<DataChannel> {
    Arc::new(DataChannel::new(1, DataChannelConfig { label: "c07".into(), protocol: String::new(), ordered: true, max_retransmits: None, max_packet_life_time: None, max_payload_size: None, negotiated: Some(1) }))
}

pub async fn drive(case: SCase, prog: Arc<Progress>) -> Out {
    let mut out = Out::new();
    prog.step("setup", 25_000);
    let (dc_a, dc_b) = (chan(), chan());
    let mut spec = PairSpec::plain();
    spec.keep_trace = false;
    spec.dtls_timers = Some((Duration::from_millis(80), Duration::from_secs(8)));
    spec.sctp = Some((SctpSide { config: cfg(), initial_tsn: Some(case.tsn_a), channels: vec![dc_a.clone()] }, SctpSide { config: cfg(), initial_tsn: Some(case.tsn_b), channels: vec![dc_b.clone()] }));
    let mut pair = match Pair::build(spec).await {
        Ok(p) => p,
        Err(e) => {
            out.fail(Fail::new("harness-rig", format!("{e}")));
            return out;
        }
    };
    // A is the DTLS / SCTP client: what arrives at B was sent by the client
    let hold_b = match case.state {
        SState::Init => vec![SClass::Init],
        SState::CookieEchoed => vec![SClass::CookieEcho],
        _ => vec![],
    };
    let ga = sgate(&pair.a.dtls, false, vec![]);
    let gb = sgate(&pair.b.dtls, true, hold_b);
    pair.a.conn.set_dtls_receiver(ga.clone());
    pair.b.conn.set_dtls_receiver(gb.clone());
    let (side, tg, pg) = if case.target_client { (Side::A, ga.clone(), gb.clone()) } else { (Side::B, gb.clone(), ga.clone()) };
    out.label(format!("sctp:state={:?}", case.state).replace("(true)", ":target").replace("(false)", ":peer"));
    out.label(if case.target_client { "sctp:target=client" } else { "sctp:target=server" });

    let (sa, sb) = pair.wait_dtls(Duration::from_secs(6)).await;
    if !matches!(sa, DtlsState::Connected(..)) || !matches!(sb, DtlsState::Connected(..)) {
        out.label("sctp:setup-not-reached");
        out.inconclusive = true;
        return out;
    }
    // drain channel events (keeps the event queues empty, counts deliveries)
    let delivered = Arc::new(AtomicU64::new(0));
    let opened = Arc::new(AtomicU64::new(0));
    let mut tasks = Vec::new();
    for dc in [dc_a.clone(), dc_b.clone()] {
        let (d, o) = (delivered.clone(), opened.clone());
        tasks.push(tokio::spawn(async move {
            while let Some(ev) = dc.recv().await {
                match ev {
                    rustrtc::transports::sctp::DataChannelEvent::Open => {
                        o.fetch_add(1, Ordering::Relaxed);
                    }
                    rustrtc::transports::sctp::DataChannelEvent::Message(_) => {
                        d.fetch_add(1, Ordering::Relaxed);
                    }
                    _ => {}
                }
            }
        }));
    }
    // channels announced in-band by hostile DCEP OPENs: an application keeps them
    let kept: Arc<Mutex<Vec<Arc<DataChannel>>>> = Arc::new(Mutex::new(Vec::new()));
    for s in [Side::A, Side::B] {
        if let Some(mut rx) = pair.end_mut(s).new_dc_rx.take() {
            let k = kept.clone();
            tasks.push(tokio::spawn(async move {
                while let Some(dc) = rx.recv().await {
                    k.lock().push(dc);
                }
            }));
        }
    }
    let reached = match case.state {
        SState::Init | SState::CookieEchoed => wait_until(Duration::from_secs(5), || gb.held.load(Ordering::Relaxed) >= 1).await,
        _ => wait_until(Duration::from_secs(6), || opened.load(Ordering::Relaxed) >= 2).await,
    };
    if !reached {
        out.label("sctp:setup-not-reached");
        out.inconclusive = true;
        return out;
    }
    let sctp_t = pair.end(side).sctp.clone().expect("sctp");
    let sctp_p = pair.end(side.other()).sctp.clone().expect("sctp");
    let sent = Arc::new(AtomicU64::new(0));
    if matches!(case.state, SState::Established | SState::Closed(_)) {
        for k in 0..3u8 {
            let _ = sctp_t.send_data(1, &[k; 40]).await;
            let _ = sctp_p.send_data(1, &[k; 50]).await;
        }
        sent.store(3, Ordering::Relaxed);
        let _ = wait_until(Duration::from_secs(2), || delivered.load(Ordering::Relaxed) >= 6).await;
    }
    if let SState::Closed(by_target) = case.state {
        if by_target { sctp_t.close() } else { sctp_p.close() }
        tokio::time::sleep(Duration::from_millis(20)).await;
    }
    ga.capture.store(false, Ordering::Relaxed);
    gb.capture.store(false, Ordering::Relaxed);
    let mut genuine: Vec<Vec<u8>> = tg.plain.lock().clone();
    genuine.extend(pg.plain.lock().iter().cloned());
    // a genuine state cookie of this association, when one was on the wire
    let cookie = genuine.iter().filter_map(|p| wire::sctp_parse(p)).flat_map(|p| p.chunks).find(|c| c.ctype == wire::CT_COOKIE_ECHO).map(|c| c.value);
    let peer_tag = genuine.iter().filter_map(|p| wire::sctp_parse(p)).map(|p| p.vtag).find(|v| *v != 0).unwrap_or(0x0102_0304);

    // keys of the impersonated sender (the target's peer)
    let Some((key, iv)) = keys_of(&pair.end(side).dtls, !case.target_client) else {
        out.label("sctp:no-keys");
        out.inconclusive = true;
        return out;
    };
    let src = pair.end(side).proxy_addr;

    // data flowing during the sequence
    let stop = Arc::new(AtomicBool::new(false));
    if case.state == SState::Established {
        for (tr, size) in [(sctp_t.clone(), 60usize), (sctp_p.clone(), 200usize)] {
            let (stop, sent) = (stop.clone(), sent.clone());
            tasks.push(tokio::spawn(async move {
                let mut k = 0u32;
                while !stop.load(Ordering::Relaxed) && k < 400 {
                    let _ = tokio::time::timeout(Duration::from_millis(300), tr.send_data(1, &vec![k as u8; size])).await;
                    sent.fetch_add(1, Ordering::Relaxed);
                    k += 1;
                    tokio::time::sleep(Duration::from_millis(1)).await;
                }
            }));
        }
    }

    let (init_sender, init_target) = if case.target_client { (case.tsn_b, case.tsn_a) } else { (case.tsn_a, case.tsn_b) };
    let mut aw = AllocWatch::start("sctp");
    let mut seq = 1u64 << 40;
    let mut closing_input = false;
    for (n, i) in case.inputs.iter().enumerate() {
        let flow = sent.load(Ordering::Relaxed) as u32 / 2;
        let t = TsnCtx { sender_next: init_sender.wrapping_add(flow), target_next: init_target.wrapping_add(flow) };
        let (plain, valid, kind) = packet_bytes(i, &t, peer_tag, &genuine, &cookie, case.calib);
        for k in chunk_kind(i) {
            out.label(format!("sctp:chunk={k}"));
        }
        if let SIn::Pkt { chunks, .. } = i {
            closing_input |= chunks.iter().any(|(c, _)| matches!(c, Chunk::Abort | Chunk::ShutdownAck | Chunk::Raw { ctype: 6 | 8, .. }));
        }
        let connected = matches!(pair.end(side).dtls.get_state(), DtlsState::Connected(..));
        if valid && connected {
            out.nontrivial = true;
            out.label(format!("sctp:{kind}:valid-crc"));
        } else {
            out.label(format!("sctp:{kind}:rejected-early"));
        }
        seq += 1;
        let sealed = Bytes::from(wire::dtls_seal(&key, &iv, 23, 1, seq, &plain));
        prog.step("inject", STEP_MS);
        aw.before();
        tg.injecting.store(true, Ordering::Relaxed);
        pair.inject(side, sealed, src).await;
        tg.injecting.store(false, Ordering::Relaxed);
        settle(4).await;
        if let Err(f) = aw.after(plain.len(), &|| format!("input {n} ({kind}, {} bytes): {}", plain.len(), crate::engine::hex(&plain[..plain.len().min(80)]))) {
            out.fail(f);
            stop.store(true, Ordering::Relaxed);
            return out;
        }
        if let Some(p) = super::my_panics().first() {
            out.fail(super::panic_fail("sctp", &format!("input {n} ({kind}) in state {:?}: {}", case.state, crate::engine::hex(&plain[..plain.len().min(160)])), p));
            stop.store(true, Ordering::Relaxed);
            return out;
        }
    }
    stop.store(true, Ordering::Relaxed);
    if case.calib {
        out.label("sctp:genuine-only");
    }
    tokio::time::sleep(Duration::from_millis(5)).await;
    if let Some(p) = super::my_panics().first() {
        out.fail(super::panic_fail("sctp", "the sequence settled", p));
        return out;
    }

    // ---- liveness: HEARTBEAT is answered unless the association reports why it ended
    prog.step("probe", STEP_MS + 1_500);
    let t0 = std::time::Instant::now();
    let reason = sctp_t.close_reason();
    let _ = sctp_t.diagnostic_info();
    let _ = sctp_t.buffered_amount();
    if t0.elapsed() > super::PROBE {
        out.fail(Fail::timing("hang:sctp:state-query", "close_reason/diagnostic_info took more than 2 s".to_string()));
        return out;
    }
    let dtls_up = matches!(pair.end(side).dtls.get_state(), DtlsState::Connected(..));
    if let Some(r) = reason {
        out.label(format!("sctp:after=closed:{r}"));
    } else if !dtls_up {
        out.label("sctp:after=dtls-down");
    } else if matches!(case.state, SState::Closed(_)) || closing_input {
        out.label("sctp:after=closing");
    } else {
        let info: Vec<u8> = vec![0, 1, 0, 12, 0xC0, 0x07, 0xC0, 0x07, 1, 2, 3, 4];
        *pg.hb_watch.lock() = Some(info.clone());
        let hb = wire::sctp_build(5000, 5000, peer_tag, &[(wire::CT_HEARTBEAT, 0, info)]);
        seq += 1;
        let sealed = Bytes::from(wire::dtls_seal(&key, &iv, 23, 1, seq, &hb));
        tg.injecting.store(true, Ordering::Relaxed);
        pair.inject(side, sealed, src).await;
        tg.injecting.store(false, Ordering::Relaxed);
        let pg2 = pg.clone();
        let st = sctp_t.clone();
        let ok = wait_until(super::PROBE, || pg2.hb_seen.load(Ordering::Relaxed) || st.close_reason().is_some()).await;
        if !ok {
            out.fail(Fail::timing(
                "dead:sctp:heartbeat",
                format!("target ({side:?}, state {:?}) reports no close reason but did not answer a genuine HEARTBEAT within 2 s: {}", case.state, sctp_t.diagnostic_info().chars().take(300).collect::<String>()),
            ));
            return out;
        }
        out.label("sctp:probe=heartbeat-ack");
    }
    if let Some(p) = super::my_panics().first() {
        out.fail(super::panic_fail("sctp", "the liveness probe ran", p));
        return out;
    }
    aw.finish(&mut out);
    for t in tasks {
        t.abort();
    }
    drop(pair);
    out
}
